package main

import (
	"fmt"
	"os"
	"time"

	"github.com/lmorg/murex/lang"
	"verif/mx"
)

func main() {
	mx.Init("/tmp/g1probe")
	for _, src := range os.Args[1:] {
		var fk *lang.Fork
		r := mx.Run(src, &mx.Opt{Setup: func(f *lang.Fork) { fk = f }})
		v, err := fk.Variables.GetValue("v")
		dt := fk.Variables.GetDataType("v")
		s, _ := fk.Variables.GetString("v")
		fmt.Printf("%q -> %v\n   v=%#v (%T) dt=%q str=%q err=%v\n", src, r, v, v, dt, s, err)
	}
	t0 := time.Now()
	n := 20000
	for i := 0; i < n; i++ {
		var fk *lang.Fork
		mx.Run("v = 1 + 2 * 3 - 4", &mx.Opt{Setup: func(f *lang.Fork) { fk = f }})
		fk.Variables.GetValue("v")
	}
	fmt.Println("per case:", time.Since(t0)/time.Duration(n))
}
