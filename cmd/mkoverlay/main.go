// mkoverlay: rewrite murex sources (sync/time/go/chan) into an overlay. PROTOTYPE.
package main

import (
	"bytes"
	"encoding/json"
	"fmt"
	"go/ast"
	"go/format"
	"go/parser"
	"go/token"
	"os"
	"path/filepath"
	"strconv"
	"strings"
)

const shimBase = "verif/shim/"

type stats struct {
	Files, SyncImports, GoStmts, Recvs, Sends, Sleeps, Selects, Closes, TryLocks, StmtPointFuncs, AtomicPoints int
	Unmodelled                                                        []string
}

var st stats
var unmodelled []string

func main() {
	if len(os.Args) < 4 {
		fmt.Fprintln(os.Stderr, "usage: mkoverlay <repo> <outdir> <shimdir> [hooksdir]")
		os.Exit(2)
	}
	repo, out, shim := os.Args[1], os.Args[2], os.Args[3]
	hooks := ""
	if len(os.Args) > 4 {
		hooks = os.Args[4]
	}
	// an optional base overlay (mutant demonstration): files listed there replace the tree's files
	base := map[string]string{}
	if b := os.Getenv("VERIF_OVERLAY"); b != "" {
		var o struct{ Replace map[string]string }
		data, err := os.ReadFile(b)
		if err == nil && json.Unmarshal(data, &o) == nil {
			base = o.Replace
		}
	}
	replace := map[string]string{}
	os.RemoveAll(out)
	os.MkdirAll(out, 0755)
	filepath.Walk(repo, func(p string, info os.FileInfo, err error) error {
		if err != nil {
			return nil
		}
		if info.IsDir() {
			n := info.Name()
			if n == ".git" || n == "vendor" || n == "node_modules" || n == "docs" || n == "gen" || n == "images" || n == "zz_verif" {
				return filepath.SkipDir
			}
			return nil
		}
		if !strings.HasSuffix(p, ".go") || strings.HasSuffix(p, "_test.go") {
			return nil
		}
		srcPath := p
		if b, ok := base[p]; ok {
			srcPath = b
		}
		src, _ := os.ReadFile(srcPath)
		// a TryLock observes a held lock without blocking: sched.sh then builds the shim with a scheduling
		// point before every unlock as well (tag vtrylock), which the blocking-only reduction does not need
		st.TryLocks += bytes.Count(src, []byte(".TryLock(")) + bytes.Count(src, []byte(".TryRLock("))
		res, changed, err := rewrite(p, src)
		if err != nil {
			fmt.Fprintln(os.Stderr, "parse error", p, err)
			os.Exit(2)
		}
		if changed {
			rel, _ := filepath.Rel(repo, p)
			dst := filepath.Join(out, "src", rel)
			os.MkdirAll(filepath.Dir(dst), 0755)
			os.WriteFile(dst, res, 0644)
			replace[p] = dst
			st.Files++
		} else if srcPath != p {
			replace[p] = srcPath
		}
		return nil
	})
	// virtual shim packages under <repo>/zz_verif/
	filepath.Walk(shim, func(p string, info os.FileInfo, err error) error {
		if err == nil && !info.IsDir() && (strings.HasSuffix(p, ".go") || strings.HasSuffix(p, ".s")) {
			rel, _ := filepath.Rel(shim, p)
			replace[filepath.Join(repo, "zz_verif", rel)] = p
		}
		return nil
	})
	// verif-tagged files added to murex packages (read-only state dumpers)
	if hooks != "" {
		filepath.Walk(hooks, func(p string, info os.FileInfo, err error) error {
			if err == nil && !info.IsDir() && strings.HasSuffix(p, ".go") {
				rel, _ := filepath.Rel(hooks, p)
				replace[filepath.Join(repo, rel)] = p
			}
			return nil
		})
	}
	b, _ := json.MarshalIndent(map[string]any{"Replace": replace}, "", " ")
	os.WriteFile(filepath.Join(out, "overlay.json"), b, 0644)
	st.Unmodelled = unmodelled
	sb, _ := json.MarshalIndent(st, "", " ")
	os.WriteFile(filepath.Join(out, "stats.json"), sb, 0644)
	fmt.Printf("mkoverlay: %d files rewritten, sync=%d go=%d recv=%d send=%d sleep=%d close=%d select=%d (blocking %d)\n",
		st.Files, st.SyncImports, st.GoStmts, st.Recvs, st.Sends, st.Sleeps, st.Closes, st.Selects, len(unmodelled))
}

type rw struct {
	fset               *token.FileSet
	file               *ast.File
	syncName, timeName string
	atomicName         string
	needSched, needChan, needTime bool
	changed            bool
	tmp                int
}

func rewrite(path string, src []byte) ([]byte, bool, error) {
	fset := token.NewFileSet()
	f, err := parser.ParseFile(fset, path, src, parser.ParseComments)
	if err != nil {
		return nil, false, err
	}
	r := &rw{fset: fset, file: f}
	for _, imp := range f.Imports {
		p, _ := strconv.Unquote(imp.Path.Value)
		switch p {
		case "sync":
			name := "sync"
			if imp.Name != nil {
				name = imp.Name.Name
			}
			imp.Name = ast.NewIdent(name)
			imp.Path.Value = strconv.Quote(shimBase + "vsync")
			r.changed = true
			st.SyncImports++
		case "sync/atomic":
			r.atomicName = "atomic"
			if imp.Name != nil {
				r.atomicName = imp.Name.Name
			}
			// the hot state/flag words are read in every polling loop: a point there would only multiply
			// the schedules of whole-interpreter runs (their readers already yield in the Sleep of the loop)
			if strings.HasSuffix(path, "lang/state/state.go") || strings.HasSuffix(path, "lang/process/background.go") {
				r.atomicName = ""
			}
		case "time":
			r.timeName = "time"
			if imp.Name != nil {
				r.timeName = imp.Name.Name
			}
		}
	}
	r.walkNode(f)
	r.statementPoints(path)
	if !r.changed {
		return nil, false, nil
	}
	add := func(name, pkg string) {
		spec := &ast.ImportSpec{Name: ast.NewIdent(name), Path: &ast.BasicLit{Kind: token.STRING, Value: strconv.Quote(shimBase + pkg)}}
		decl := &ast.GenDecl{Tok: token.IMPORT, Specs: []ast.Spec{spec}}
		f.Decls = append([]ast.Decl{decl}, f.Decls...)
	}
	if r.needSched {
		add("zzvsched", "vsched")
	}
	if r.needChan {
		add("zzvchan", "vchan")
	}
	if r.needTime {
		add("zzvtime", "vtime")
	}
	var buf bytes.Buffer
	if err := format.Node(&buf, fset, f); err != nil {
		return nil, false, err
	}
	return buf.Bytes(), true, nil
}

// stmtPointFuncs: functions whose interaction with other threads goes through something that is not a Go
// synchronisation operation (the file system), so that no scheduling point would otherwise fall inside them.
// Every statement of their bodies is preceded by a scheduling point (file suffix -> function names).
var stmtPointFuncs = map[string][]string{
	"shell/history/history.go": {"Write"},
}

func (r *rw) statementPoints(path string) {
	for suffix, names := range stmtPointFuncs {
		if !strings.HasSuffix(path, suffix) {
			continue
		}
		for _, d := range r.file.Decls {
			fd, ok := d.(*ast.FuncDecl)
			if !ok || fd.Body == nil {
				continue
			}
			for _, n := range names {
				if fd.Name.Name == n {
					r.pointBlock(fd.Body)
					r.changed, r.needSched = true, true
					st.StmtPointFuncs++
				}
			}
		}
	}
}

func (r *rw) pointBlock(b *ast.BlockStmt) {
	var out []ast.Stmt
	for _, s := range b.List {
		switch x := s.(type) {
		case *ast.IfStmt:
			r.pointBlock(x.Body)
			if eb, ok := x.Else.(*ast.BlockStmt); ok {
				r.pointBlock(eb)
			}
		case *ast.ForStmt:
			r.pointBlock(x.Body)
		case *ast.RangeStmt:
			r.pointBlock(x.Body)
		case *ast.BlockStmt:
			r.pointBlock(x)
		}
		out = append(out, &ast.ExprStmt{X: call("zzvsched", "UserPoint")}, s)
	}
	b.List = out
}

func (r *rw) pos(n ast.Node) string { return r.fset.Position(n.Pos()).String() }

// walkNode rewrites statements lists and expressions below n.
func (r *rw) walkNode(n ast.Node) {
	ast.Inspect(n, func(n ast.Node) bool {
		switch x := n.(type) {
		case *ast.BlockStmt:
			x.List = r.stmts(x.List)
		case *ast.CaseClause:
			x.Body = r.stmts(x.Body)
		case *ast.CommClause:
			x.Body = r.stmts(x.Body)
		case *ast.SelectStmt:
			st.Selects++
			hasDefault := false
			for _, c := range x.Body.List {
				if c.(*ast.CommClause).Comm == nil {
					hasDefault = true
				}
			}
			if !hasDefault {
				unmodelled = append(unmodelled, "blocking select at "+r.pos(x))
			}
			// walk only the bodies, not the comm statements
			for _, c := range x.Body.List {
				cc := c.(*ast.CommClause)
				cc.Body = r.stmts(cc.Body)
				for _, s := range cc.Body {
					r.walkNode(s)
				}
			}
			return false
		case *ast.RangeStmt:
			// cannot know type syntactically; flag obvious cases later
		case *ast.LabeledStmt:
			if g, ok := x.Stmt.(*ast.GoStmt); ok {
				x.Stmt = r.goStmt(g)
			}
		}
		return true
	})
	// expression-level rewrites (recv, sleep) via a second pass with parent replacement
	r.exprPass(n)
}

// usesAtomic: does the statement itself (not a nested block) call a sync/atomic function?
func (r *rw) usesAtomic(s ast.Stmt) bool {
	if r.atomicName == "" {
		return false
	}
	var roots []ast.Node
	switch x := s.(type) {
	case *ast.ExprStmt, *ast.AssignStmt, *ast.ReturnStmt, *ast.IncDecStmt, *ast.DeclStmt:
		roots = append(roots, x)
	case *ast.IfStmt:
		if x.Init != nil {
			roots = append(roots, x.Init)
		}
		roots = append(roots, x.Cond)
	case *ast.SwitchStmt:
		if x.Init != nil {
			roots = append(roots, x.Init)
		}
		if x.Tag != nil {
			roots = append(roots, x.Tag)
		}
	default:
		return false
	}
	found := false
	for _, root := range roots {
		ast.Inspect(root, func(n ast.Node) bool {
			if _, ok := n.(*ast.FuncLit); ok {
				return false
			}
			if c, ok := n.(*ast.CallExpr); ok {
				if sel, ok := c.Fun.(*ast.SelectorExpr); ok {
					if id, ok := sel.X.(*ast.Ident); ok && id.Name == r.atomicName {
						found = true
					}
				}
			}
			return !found
		})
	}
	return found
}

func (r *rw) stmts(list []ast.Stmt) []ast.Stmt {
	// a scheduling point before every statement that performs an atomic operation: two atomic operations in
	// consecutive statements (load ... store) are not atomic together
	if r.atomicName != "" {
		var out []ast.Stmt
		for _, s := range list {
			if r.usesAtomic(s) {
				out = append(out, &ast.ExprStmt{X: call("zzvsched", "UserPoint")})
				r.changed, r.needSched = true, true
				st.AtomicPoints++
			}
			out = append(out, s)
		}
		list = out
	}
	for i, s := range list {
		switch x := s.(type) {
		case *ast.GoStmt:
			list[i] = r.goStmt(x)
		case *ast.SendStmt:
			st.Sends++
			r.changed, r.needChan = true, true
			list[i] = &ast.ExprStmt{X: call("zzvchan", "Send", x.Chan, x.Value)}
		case *ast.AssignStmt:
			if len(x.Lhs) == 2 && len(x.Rhs) == 1 {
				if u, ok := x.Rhs[0].(*ast.UnaryExpr); ok && u.Op == token.ARROW {
					st.Recvs++
					r.changed, r.needChan = true, true
					x.Rhs[0] = call("zzvchan", "Recv2", u.X)
				}
			}
		}
	}
	return list
}

func call(pkg, fn string, args ...ast.Expr) *ast.CallExpr {
	return &ast.CallExpr{Fun: &ast.SelectorExpr{X: ast.NewIdent(pkg), Sel: ast.NewIdent(fn)}, Args: args}
}

var builtins = map[string]bool{"close": true, "panic": true, "print": true, "println": true, "delete": true}

func (r *rw) goStmt(g *ast.GoStmt) ast.Stmt {
	st.GoStmts++
	r.changed, r.needSched = true, true
	c := g.Call
	if fl, ok := c.Fun.(*ast.FuncLit); ok && len(c.Args) == 0 {
		return &ast.ExprStmt{X: call("zzvsched", "Go", fl)}
	}
	var lhs, rhs []ast.Expr
	newCall := &ast.CallExpr{Ellipsis: c.Ellipsis}
	if id, ok := c.Fun.(*ast.Ident); ok && builtins[id.Name] {
		newCall.Fun = c.Fun
	} else {
		r.tmp++
		f := ast.NewIdent(fmt.Sprintf("zzf%d", r.tmp))
		lhs, rhs = append(lhs, f), append(rhs, c.Fun)
		newCall.Fun = f
	}
	for _, a := range c.Args {
		r.tmp++
		t := ast.NewIdent(fmt.Sprintf("zza%d", r.tmp))
		lhs, rhs = append(lhs, t), append(rhs, a)
		newCall.Args = append(newCall.Args, t)
	}
	if c.Ellipsis != token.NoPos {
		newCall.Ellipsis = 1
	}
	body := &ast.BlockStmt{List: []ast.Stmt{&ast.ExprStmt{X: newCall}}}
	fl := &ast.FuncLit{Type: &ast.FuncType{Params: &ast.FieldList{}}, Body: body}
	blk := &ast.BlockStmt{}
	if len(lhs) > 0 {
		blk.List = append(blk.List, &ast.AssignStmt{Lhs: lhs, Tok: token.DEFINE, Rhs: rhs})
	}
	blk.List = append(blk.List, &ast.ExprStmt{X: call("zzvsched", "Go", fl)})
	return blk
}

// exprPass replaces <-x (outside select comm) and time.Sleep calls.
func (r *rw) exprPass(root ast.Node) {
	var visit func(n ast.Node) bool
	replaceIn := func(e *ast.Expr) {
		switch x := (*e).(type) {
		case *ast.UnaryExpr:
			if x.Op == token.ARROW {
				st.Recvs++
				r.changed, r.needChan = true, true
				*e = call("zzvchan", "Recv", x.X)
			}
		case *ast.CallExpr:
			if id, ok := x.Fun.(*ast.Ident); ok && id.Name == "close" && id.Obj == nil && len(x.Args) == 1 {
				st.Closes++
				r.changed, r.needChan = true, true
				x.Fun = &ast.SelectorExpr{X: ast.NewIdent("zzvchan"), Sel: ast.NewIdent("Close")}
			}
			if sel, ok := x.Fun.(*ast.SelectorExpr); ok && r.timeName != "" {
				if id, ok := sel.X.(*ast.Ident); ok && id.Name == r.timeName && sel.Sel.Name == "Sleep" && id.Obj == nil {
					st.Sleeps++
					r.changed, r.needTime = true, true
					x.Fun = &ast.SelectorExpr{X: ast.NewIdent("zzvtime"), Sel: ast.NewIdent("Sleep")}
				}
			}
		}
	}
	visit = func(n ast.Node) bool {
		switch x := n.(type) {
		case *ast.SelectStmt:
			for _, c := range x.Body.List {
				for _, s := range c.(*ast.CommClause).Body {
					ast.Inspect(s, visit)
				}
			}
			return false
		case *ast.ExprStmt:
			replaceIn(&x.X)
		case *ast.AssignStmt:
			for i := range x.Rhs {
				replaceIn(&x.Rhs[i])
			}
		case *ast.ReturnStmt:
			for i := range x.Results {
				replaceIn(&x.Results[i])
			}
		case *ast.CallExpr:
			for i := range x.Args {
				replaceIn(&x.Args[i])
			}
		case *ast.BinaryExpr:
			replaceIn(&x.X)
			replaceIn(&x.Y)
		case *ast.ParenExpr:
			replaceIn(&x.X)
		case *ast.IfStmt:
			replaceIn(&x.Cond)
		case *ast.ValueSpec:
			for i := range x.Values {
				replaceIn(&x.Values[i])
			}
		case *ast.KeyValueExpr:
			replaceIn(&x.Value)
		case *ast.SwitchStmt:
			if x.Tag != nil {
				replaceIn(&x.Tag)
			}
		case *ast.UnaryExpr:
			if x.Op != token.ARROW {
				replaceIn(&x.X)
			}
		}
		return true
	}
	ast.Inspect(root, visit)
}
