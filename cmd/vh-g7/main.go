// vh-g7: harness binary for the g7 checks (C27 C29 C11 C25 C12 C30).
package main

import (
	"verif/vlib"

	_ "verif/checks/cachettl"
	_ "verif/checks/cfgscope"
	_ "verif/checks/histfile"
	_ "verif/checks/jobs"
	_ "verif/checks/scoping"
	_ "verif/checks/structvars"
)

func main() { vlib.Main() }
