// vh-g1: harness binary of group g1 (C06, C07, C36, C13).
package main

import (
	"verif/vlib"

	_ "verif/checks/convert"
	_ "verif/checks/exprs"
	_ "verif/checks/literals"
)

func main() { vlib.Main() }
