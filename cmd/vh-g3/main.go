// vh-g3: harness binary for group g3 (C14 format round trips, C15 array streams + foreach, C38 list builtins).
package main

import (
	"verif/vlib"

	_ "verif/checks/arrays"
	_ "verif/checks/format"
	_ "verif/checks/lists"
)

func main() { vlib.Main() }
