// vh-g5: harness binary for the checks of group g5 (C22, C23, C24, C31).
package main

import (
	"verif/vlib"

	_ "verif/checks/flags"
	_ "verif/checks/funcparams"
	_ "verif/checks/resolve"
	_ "verif/checks/unittest"
)

func main() { vlib.Main() }
