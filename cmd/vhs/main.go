// vhs: harness binary for the E1 (controlled scheduler) checks. Builds only under the source overlay
// produced by cmd/mkoverlay (see scripts/sched.sh).
package main

import (
	"verif/vlib"

	_ "verif/echecks/histconc"
	_ "verif/echecks/interp"
	_ "verif/echecks/jobsconc"
	_ "verif/echecks/npipes"
	_ "verif/echecks/pipes"
)

func main() { vlib.Main() }
