// vh-g2: harness binary for the g2 checks (C08, C09, C10, C35).
package main

import (
	"verif/vlib"

	_ "verif/checks/escinv"
	_ "verif/checks/esccmd"
	_ "verif/checks/quotes"
	_ "verif/checks/varargs"
)

func main() { vlib.Main() }
