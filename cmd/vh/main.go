// vh: harness binary for the E2/E3/E4 checks (no scheduler overlay needed).
package main

import (
	"verif/vlib"

	_ "verif/checks/chains"
	_ "verif/checks/parse"
)

func main() { vlib.Main() }
