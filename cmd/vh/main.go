// vh: harness binary for the E2/E3/E4 checks (no scheduler overlay needed).
package main

import (
	"verif/vlib"

	_ "verif/checks/chains"
	_ "verif/checks/arrays"
	_ "verif/checks/autosafe"
	_ "verif/checks/cachettl"
	_ "verif/checks/cfgscope"
	_ "verif/checks/crashfree"
	_ "verif/checks/extexit"
	_ "verif/checks/histfile"
	_ "verif/checks/redirect"
	_ "verif/checks/scoping"
	_ "verif/checks/structvars"
	_ "verif/checks/convert"
	_ "verif/checks/esccmd"
	_ "verif/checks/escinv"
	_ "verif/checks/format"
	_ "verif/checks/lists"
	_ "verif/checks/quotes"
	_ "verif/checks/varargs"
	_ "verif/checks/exprs"
	_ "verif/checks/flags"
	_ "verif/checks/flow"
	_ "verif/checks/funcparams"
	_ "verif/checks/index"
	_ "verif/checks/mkarray"
	_ "verif/checks/ranges"
	_ "verif/checks/literals"
	_ "verif/checks/resolve"
	_ "verif/checks/unittest"
	_ "verif/checks/parse"
)

func main() { vlib.Main() }
