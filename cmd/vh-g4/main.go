// vh-g4: harness binary for the g4 checks (C16, C17, C18, C39).
package main

import (
	"verif/vlib"

	_ "verif/checks/flow"
	_ "verif/checks/index"
	_ "verif/checks/mkarray"
	_ "verif/checks/ranges"
)

func main() { vlib.Main() }
