// vh-g6: harness binary for the checks of group g6 (C19, C21, C33, C34).
package main

import (
	"verif/vlib"

	_ "verif/checks/autosafe"
	_ "verif/checks/crashfree"
	_ "verif/checks/extexit"
	_ "verif/checks/redirect"
)

func main() { vlib.Main() }
