#!/bin/bash
# sched.sh <ID> [args]  — E1 checks: re-instrument /repo's current tree (source overlay), build, run.
set -u
cd /verif
export GOFLAGS=-mod=mod GOPROXY=off GOSUMDB=off GOTOOLCHAIN=local CGO_ENABLED=0
ID=$1; shift
OVDIR=.work/overlay; BIN=bin/vhs
if [ -n "${VERIF_OVERLAY:-}" ]; then OVDIR=.work/overlay-mut-$$; BIN=bin/vhs-mut-$$; fi
RACE=""; TAGS="verif"
if [ "$ID" = C32 ]; then
  RACE="-race -gcflags=verif/shim/...=-race=false"; TAGS="verif vrace"; BIN=${BIN}-race; export CGO_ENABLED=1
  mkdir -p .work/run; rm -f .work/run/race-log.*
  export GORACE="log_path=/verif/.work/run/race-log halt_on_error=0 exitcode=0 atexit_sleep_ms=0 history_size=5"
fi
[ -x bin/mkoverlay ] || go1.26 build -o bin/mkoverlay ./cmd/mkoverlay || { echo "HARNESS ERROR: cannot build mkoverlay"; exit 2; }
if ! bin/mkoverlay /repo $OVDIR shim hooks > .work/mkoverlay-$ID.log 2>&1; then
  echo "HARNESS ERROR: overlay generation failed"; tail -20 .work/mkoverlay-$ID.log; exit 2
fi
if [ "$(jq -r '.TryLocks // 0' $OVDIR/stats.json 2>/dev/null)" != 0 ]; then TAGS="$TAGS vtrylock"; fi
if ! go1.26 build -tags "$TAGS" $RACE -overlay $OVDIR/overlay.json -o $BIN ./cmd/vhs 2> .work/build-vhs-$ID.log; then
  echo "HARNESS ERROR: cannot build instrumented harness against /repo (harness cannot bind to code)"; tail -30 .work/build-vhs-$ID.log
  [ -n "${VERIF_OVERLAY:-}" ] && rm -rf $OVDIR $BIN
  exit 2
fi
export VERIF_WORKER_GOMAXPROCS=1
$BIN "$ID" "$@"; rc=$?
if [ -n "${VERIF_OVERLAY:-}" ]; then rm -rf $OVDIR $BIN; fi
exit $rc
