#!/usr/bin/env python3
"""Regenerates /verif/MANIFEST.json from the table below (one row per claimed property)."""
import json, os
ROOT = '/verif'
ids = [json.loads(l)['id'] for l in open(f'{ROOT}/properties.jsonl')]

# id: (engine, technique, level text, level note, design ref)
E1='E1-vsched'; E2='E2-enum'; E3='E3-xstate'; E4='E4-crashpt'
T_E1='stateless DFS over thread interleavings of the real code under a controlled scheduler (source overlay), iterative preemption/deviation bounding'
T_E2='bounded-exhaustive enumeration of inputs/programs run on the real code and compared with a reference model'
T_E3='explicit-state BFS over operation histories of the real object with canonical-state deduplication, each transition compared with a reference model'
T_E4='exhaustive crash-point (torn write prefix) enumeration over enumerated write histories on the real history file code'
# id: (engine, technique, level text, level note)
ALL = {
 'C01': (E1, T_E1, 'All interleavings (<=3 preemptions quick, <=4 thorough) of writer/reader/Stats drivers on a real streams.Stdin with a 2-4 byte back-pressure limit; every execution checked for exactly-once in-order delivery, EOF only when drained, no deadlock/livelock, exact byte counters.', 'scheduling points at every sync/channel/Sleep/go operation (atomics and plain accesses are not points); chunk alphabets and driver shapes as listed in evidence'),
 'C02': (E1, T_E1, 'All interleavings (<=3/4 preemptions) of SetDataType/GetDataType/Close/ForceClose drivers; results checked against the real-time-order reading of the statement (first valid declaration wins, never changes, * only after all writers closed).', 'type names from {"", null, json, str}; <=2 writers, <=2 readers; Tee secondary not asserted'),
 'C03': (E1, T_E1, 'Each listed sequential program is run by the whole real interpreter under the controlled scheduler; every schedule within the deviation bound (1 quick, 2 thorough) must terminate and give the same stdout/stderr/exit as the free-running run.', 'preemptions only at shared-visible operations; program list is finite and stated; whole-system exploration is bounded to 1-2 deviations'),
 'C04': (E2, T_E2, 'Every chain of up to 4 (quick) / 5 (thorough) commands over 6 command kinds and 5 joiners, plus chains up to 6/8 over a reduced alphabet, executed in-process; stdout + exit number compared with a reference interpreter written from the statement.', 'consumers piped from a skipped command are not asserted (statement silent); stderr not compared'),
 'C05': (E2, T_E2, 'The C04 chain space wrapped in try, trypipe and runmode try/trypipe functions; stdout and exit number compared with a reference model of the statement.', 'same alphabet as C04; consumers piped from a skipped alternative are not asserted'),
 'C06': (E2, T_E2, 'All typed expression chains/parenthesisations over 9 numeric literals and 10 operators up to 3 (quick) / 4 (thorough) operators, number spellings and string pairs; value and type compared with a C-precedence IEEE-754 evaluator.', 'expressions outside the typed grammar (boolean operands of arithmetic) are not asserted'),
 'C07': (E2, T_E2, 'All binary/ternary combinations of 21 operands with && || ?: ??, all short truthiness strings, through expressions, if, ! and ?:; compared with the truthiness table of the statement.', 'relative precedence of the logical operators and values of undefined variables are not asserted'),
 'C08': (E2, T_E2, 'All strings up to length 3/4 over a hostile alphabet as scalar values and all small arrays as array values; the argv a command receives is recorded byte-for-byte by a harness builtin and through $PARAMS.', 'values injected through the variable table, never through source text'),
 'C09': (E2, T_E2, 'All strings up to length 4/5 over a quote-rich alphabet, encoded with each quoting style that can represent them, evaluated as statement argument and as expression value; decoded value must equal the original.', 'only documented escapes are used by the encoders'),
 'C10': (E2, T_E2, 'All small argv vectors over a hostile alphabet escaped as --execute and esccli do, then parsed by the real block and statement parsers; must give exactly one command with exactly those arguments.', 'argvToCmdLineStr (package main) is mirrored and the mirror cross-checked against the real binary on a subset'),
 'C11': (E3, T_E3, 'All programs (op trees) up to 4/5 operations of set/unset/read/global operations spread over function calls, blocks and sub-shells; every read compared with a scope-stack model.', 'names {x,y}, values {1,2}, nesting <=2'),
 'C12': (E3, T_E3, 'BFS over copy/modify/read histories on JSON-typed variables; after each step both variables are compared with a deep-copy tree model.', 'three base documents, small path/value sets; converted representation only asserted where documented'),
 'C13': (E2, T_E2, 'All integers up to 2^20/2^24 plus neighbourhoods of powers of two/ten up to 2^53, floats over every exponent with sparse/dense mantissas, booleans; string round trip through ConvertGoType and murex variables must be the identity.', 'NaN/Inf excluded (statement says finite)'),
 'C14': (E2, T_E2, 'All JSON documents from a small grammar with hostile string leaves through format yaml/toml/jsonl/csv and back; decoded values must be equal.', 'per-format representable subsets as the statement lists; documents injected through stdin'),
 'C15': (E2, T_E2, 'All lists up to 3/4 elements over per-type legal element sets (plus 60 KiB elements) written with WriteArray and read back with ReadArray and foreach for every registered array type.', 'toml/path/paths excluded by design with recorded reasons'),
 'C16': (E2, T_E2, 'All arrays of length 0..4/6 with every index in [-8,8]/[-30,30] through [k], ![k], [[/k]] on json/yaml/jsonl, index pairs, and maps; element or clean error, never a panic report.', 'case-variant map keys not asserted'),
 'C17': (E2, T_E2, 'All lists of 0..6/10 items with all start/end in a window and the e flag through the range filter; compared with a slice model where the statement defines the result, otherwise clean exit/error and in-order subsequence.', 'forms outside the statement only get the universal clauses'),
 'C18': (E2, T_E2, 'All integer pairs in [-12,12]^2 / [-200,200]^2, zero-padded spellings and multi-block parameters through a and ja; compared with a reference generator.', 'block sizes <=3'),
 'C19': (E2, T_E2, 'All programs of an allow-listed builtin with arity <=1/2 from an adversarial argument alphabet, as function and method over 4 stdin shapes; must return control, report errors with non-zero exit, never print a panic report; plus all sequences of <=3/4 named-pipe operations (create, close, failing create, failing create that returns a typed nil pointer (tcp dial; the child is built with the net pipe types), write through the registry) and six temporary-pipe redirections in a child murex process, which must reach the end of the program.', 'allow-list of non-interactive builtins; hang judged from process state (in-process: scheduler/rusage idle; child: every thread asleep with no CPU time for 25 s, or more than 60 s of own CPU time), never from wall-clock alone'),
 'C20': (E2, T_E2, 'Every string up to the stated length over the murex token alphabet through ParseBlock and the highlighter tokenizer; a panic or a non-terminating input is reported.', 'alphabet (31 runes / 16-rune core / 38 tokens) and length bounds'),
 'C21': (E2, T_E2, 'ALL exit codes 0-255 and all terminating signals of a helper process, alone, with && and || and inside try; exit number and control flow compared with the statement.', 'finite space enumerated completely'),
 'C22': (E2, T_E2, 'Every subset of {private, alias, function, builtin, external} defined for one name x alias targets x call contexts; the marker printed must be that of the highest-precedence definition, alias expanded once.', 'finite space enumerated completely'),
 'C23': (E2, T_E2, 'All signatures of <=2/3 parameters from the documented grammar x argument lists, binding compared with a model; all strings up to length 6/8 over a 9-rune alphabet through the signature parser (accepts exactly the grammar, no panic).', 'missing mandatory parameters are not generated (murex prompts on the terminal)'),
 'C24': (E2, T_E2, 'All 32 well-formed flag tables x all argument lists of <=4/5 tokens through ParseFlags against a reference parser, and through the args builtin.', 'ill-formed lists only get the no-panic clause'),
 'C25': (E3, T_E3, 'All programs of config set/get/default operations over a global and a non-global option at call depths <=2; every get compared with a scope model; BFS with state merging to a fixpoint PLUS every history of <=5/6 write/call/return operations run without any state merging.', 'two values per option plus the declared default'),
 'C26': (E1, T_E1, 'Every operation sequence of length <=3/4 over create/close/delete/get/dump on 2 names, and every pair of <=2-operation sequences from two threads, interleaved in all ways (<=2 preemptions) with the asynchronous close timers; no panic, no deadlock, results explained by a linearizable registry model.', 'grace period and retry sleeps modelled as yields, not durations'),
 'C27': (E3, T_E3 + '; plus stateless DFS over interleavings of concurrent table operations under the controlled scheduler', 'BFS to a fixpoint over add/terminate/garbage-collect/lookup histories on the real job table with <=10/12 jobs, every lookup compared with the model of the statement; plus every history of <=7/9 mutating operations with <=4 jobs run without state merging; plus all interleavings (<=2 preemptions) of two scopes running add / garbage-collect / finish-then-collect on the real table: at quiescence jobs lists exactly the running jobs under their original ids.', 'synthetic Process values; concurrent part: two scopes, <=2 operations each'),
 'C28': (E1, T_E1, 'Two session threads run one program each through the whole interpreter; all schedules within the deviation bound; a monitor at every scheduling point checks FID uniqueness, and at quiescence the FID table must be back to its baseline.', 'preemptions only at shared-visible operations; bound 1 quick / 2 thorough'),
 'C29': (E4, T_E4 + '; plus stateless DFS over interleavings of concurrent History.Write calls under the controlled scheduler (scheduling point before every statement of Write)', 'All histories of <=2x2 / 3x3 commands over a block alphabet (multi-line, unicode, 70 KiB plain, 70 KiB that encodes to 350 KiB, 200 KiB); the file is truncated at EVERY byte of the last write (sampled offsets for the long entries), further sessions append, reload must give every acknowledged entry except possibly the torn one; two live sessions with a crash of the second between two writes of the first; and all interleavings (<=2 preemptions) of 2-3 live sessions recording at once: a later session loads exactly what was recorded.', 'crash model = torn single append (prefix); murex never fsyncs so power-loss models are out of scope'),
 'C30': (E3, T_E3, 'BFS over write/read/trim/clear histories on namespaces x keys x values x TTL classes of the real cache (memory + sqlite); every read compared with the model.', 'real clock: TTLs kept >=30 min from now, expiry during a history is outside the bound'),
 'C31': (E2, T_E2, 'Functions with fixed stdout/stderr/exit x the product of assertion choices in the test plan; verdict of test unit compared with an oracle evaluating each assertion.', '9 assertion dimensions as listed in evidence'),
 'C32': (E1, 'stateless DFS over schedules of the real interpreter built with the Go race detector, scheduler hand-offs invisible to the detector; the detector judges every explored schedule', 'Listed concurrent programs, and every unordered pair of operations of every shared interpreter table (variables, parameters, config, aliases, functions, FIDs, methods, unit tests, named pipes, streams) plus a list of functions that must be stateless, run under the controlled scheduler in a -race build whose scheduler shims are uninstrumented (futex gates), so each explored schedule is judged by the race detector with exactly the program\'s own synchronisation; a canary race must be reported on every run.', 'only accesses executed by the explored programs/pairs/schedules are seen; detector history is finite; writes inside std packages the runtime depends on (internal/strconv) are not instrumented; bound 1 quick / 2 thorough'),
 'C33': (E2, T_E2, 'Every combination of <err>/<null> x <!out>/<!null> on commands writing chosen payloads to stdout/stderr, as last command and as pipeline stage, and |> / >> over previous file contents; bytes must arrive exactly where the statement routes them.', 'payload alphabet of 4 byte strings'),
 'C34': (E2, T_E2, 'All token sequences of length <=4/5 over safe/unsafe/unknown commands, pipes, blocks, sub-shells, assignments and redirections; whenever the tokenizer says safe, the real parser\'s tree of the text autocomplete would execute must contain only safe commands.', 'one-directional oracle (tokenizer may be conservative)'),
 'C35': (E2, T_E2, 'Every byte string of length <=1/2 over all 256 byte values plus longer strings over a 16-byte core through escape/!escape, eschtml/!eschtml, escurl/!escurl as methods; output bytes must equal input bytes.', 'bytes injected through stdin'),
 'C36': (E2, T_E2, 'All JSON documents from a grammar (36 scalar leaves, depth <=3, <=2/3 children, 4 layouts) as %[ ]/%{ } literals; value compared with encoding/json.', 'strings without backslash, $, ~, parentheses as the property states'),
 'C37': (E2, T_E2, 'Every string of the C20 spaces is highlighted and the ANSI-stripped result compared with the input byte for byte.', 'same alphabet and bounds as C20; inputs contain no ESC'),
 'C38': (E2, T_E2, 'All arrays up to length 3/5 over a hostile element set through msort/mtac/prepend/append/match/!match/left/right/prefix/suffix; multiset and order relations of the statement.', 'elements compared as strings'),
 'C39': (E2, T_E2, 'All program trees of nested foreach/while/if/function with conditional break/continue/return (<=2 loops, <=3 statements per body); output and exit compared with a reference interpreter of the fragment.', 'fragment as listed'),
}
# properties whose check is built, green and merged into cmd/vh or cmd/vhs
READY = sorted(ALL.keys())
CHECKS = {i: (ALL[i][0], ALL[i][1], ALL[i][2], ALL[i][3], '2/'+i) for i in READY}
NA_REASON = {}

def main():
    checks = []
    for i in ids:
        if i not in CHECKS: continue
        eng, tech, text, note, ref = CHECKS[i]
        checks.append({
            'property_id': i,
            'quick_cmd': f'./vcheck {i} --tier quick',
            'thorough_cmd': f'./vcheck {i} --tier thorough',
            'evidence_file': f'/verif/evidence/{i}.json',
            'replay_cmd_template': f'./vcheck {i} --replay {{path}}',
            'engine': eng,
            'level_claimed': {'category': 'model_checking', 'text': text, 'design_ref': f'DESIGN.md §{ref}'},
            'level_note': note,
            'technique': tech,
        })
    na = [{'property_id': i, 'reason': NA_REASON.get(i, 'check not built yet (work in progress; see DESIGN.md §2 for the planned bounded-exhaustive check)')} for i in ids if i not in CHECKS]
    m = {
        'version': 1,
        'setup_cmd': './setup.sh',
        'hooks': {
            'guard': 'verif',
            'enable': 'go1.26 build -tags verif -overlay /verif/.work/overlay/overlay.json (all instrumentation is a build-time source overlay generated from the current /repo tree; /repo carries no hook commits)',
            'baseline_off_cmd': 'cd /repo && go test -mod=mod -json -vet=off -count=1 -timeout 25m ./...',
            'source_commits': [],
            'add_only': True,
        },
        'engines': [
            {'name': 'E1-vsched', 'path': 'shim/vsched', 'serves_properties': ['C01','C02','C03','C26','C27','C28','C29','C32'], 'kind_free_text': 'controlled cooperative scheduler over the real code (source overlay), stateless DFS with iterative preemption bounding'},
            {'name': 'E2-enum', 'path': 'vlib', 'serves_properties': [i for i in CHECKS if CHECKS[i][0]=='E2-enum'], 'kind_free_text': 'bounded-exhaustive enumeration of inputs/programs run on the real code against a reference model'},
            {'name': 'E3-xstate', 'path': 'vlib', 'serves_properties': [i for i in CHECKS if CHECKS[i][0]=='E3-xstate'], 'kind_free_text': 'explicit-state BFS over operation histories of real objects with canonical-state deduplication'},
            {'name': 'E4-crashpt', 'path': 'vlib', 'serves_properties': [i for i in CHECKS if CHECKS[i][0]=='E4-crashpt'], 'kind_free_text': 'every torn-write prefix of the last write of every enumerated history'},
        ],
        'checks': checks,
        'not_applicable': na,
        'notes': 'All checks run through ./vcheck, which rebuilds the harness against the current /repo working tree. Exit 0 = held, 1 = VIOLATION, 2 = harness error.',
    }
    json.dump(m, open(f'{ROOT}/MANIFEST.json', 'w'), indent=1)
    print('checks', len(checks), 'not_applicable', len(na))
main()
