#!/usr/bin/env python3
"""Regenerates /verif/MANIFEST.json from the table below (one row per claimed property)."""
import json, os
ROOT = '/verif'
ids = [json.loads(l)['id'] for l in open(f'{ROOT}/properties.jsonl')]

# id: (engine, technique, level text, level note, design ref)
CHECKS = {
 'C20': ('E2-enum', 'bounded-exhaustive enumeration of all strings over a token alphabet, each parsed by the real parsers',
         'Every string up to the stated length over the murex token alphabet is parsed by ParseBlock and by the highlighter tokenizer; a panic or a non-terminating input is reported with the input. Exhaustive within the alphabet/length bound, nothing beyond it.',
         'alphabet (31 runes / 16-rune core / 38 multi-rune tokens) and length bounds; non-termination = no progress for 30 s with the stack inside the parser', '2/C20'),
 'C37': ('E2-enum', 'bounded-exhaustive enumeration of all strings over a token alphabet through the real highlighter',
         'Every string of the C20 spaces is highlighted and the ANSI-stripped result compared with the input byte for byte.',
         'same alphabet and bounds as C20; inputs contain no ESC', '2/C37'),
}
CHECKS.update({
 'C04': ('E2-enum', 'bounded-exhaustive enumeration of command chains run on the real interpreter against a reference interpreter',
         'Every chain of up to 4 (quick) / 5 (thorough) commands over 6 command kinds and 5 joiners, plus chains up to 6/8 over a reduced alphabet, is executed in-process and stdout + exit number are compared with a reference interpreter written from the statement.',
         'command alphabet {out, two failing functions, true, false, err} and joiners {; newline && || |}; consumers piped from a skipped command are not asserted (statement silent); stderr not compared', '2/C04'),
 'C05': ('E2-enum', 'bounded-exhaustive enumeration of command chains under try/trypipe/runmode against a reference model',
         'The C04 chain space wrapped in try, trypipe and runmode try/trypipe functions; stdout and exit number compared with a reference model of the statement.',
         'same alphabet as C04; consumers piped from a skipped alternative are not asserted (statement silent)', '2/C05'),
})
NA_REASON = {}

def main():
    checks = []
    for i in ids:
        if i not in CHECKS: continue
        eng, tech, text, note, ref = CHECKS[i]
        checks.append({
            'property_id': i,
            'quick_cmd': f'./vcheck {i} --tier quick',
            'thorough_cmd': f'./vcheck {i} --tier thorough',
            'evidence_file': f'/verif/evidence/{i}.json',
            'replay_cmd_template': f'./vcheck {i} --replay {{path}}',
            'engine': eng,
            'level_claimed': {'category': 'model_checking', 'text': text, 'design_ref': f'DESIGN.md §{ref}'},
            'level_note': note,
            'technique': tech,
        })
    na = [{'property_id': i, 'reason': NA_REASON.get(i, 'check not built yet (work in progress; see DESIGN.md §2 for the planned bounded-exhaustive check)')} for i in ids if i not in CHECKS]
    m = {
        'version': 1,
        'setup_cmd': './setup.sh',
        'hooks': {
            'guard': 'verif',
            'enable': 'go1.26 build -tags verif -overlay /verif/.work/overlay/overlay.json (all instrumentation is a build-time source overlay generated from the current /repo tree; /repo carries no hook commits)',
            'baseline_off_cmd': 'cd /repo && go test -mod=mod -json -vet=off -count=1 -timeout 25m ./...',
            'source_commits': [],
            'add_only': True,
        },
        'engines': [
            {'name': 'E1-vsched', 'path': 'shim/vsched', 'serves_properties': ['C01','C02','C03','C26','C28','C32'], 'kind_free_text': 'controlled cooperative scheduler over the real code (source overlay), stateless DFS with iterative preemption bounding'},
            {'name': 'E2-enum', 'path': 'vlib', 'serves_properties': [i for i in CHECKS if CHECKS[i][0]=='E2-enum'], 'kind_free_text': 'bounded-exhaustive enumeration of inputs/programs run on the real code against a reference model'},
            {'name': 'E3-xstate', 'path': 'vlib', 'serves_properties': [i for i in CHECKS if CHECKS[i][0]=='E3-xstate'], 'kind_free_text': 'explicit-state BFS over operation histories of real objects with canonical-state deduplication'},
            {'name': 'E4-crashpt', 'path': 'vlib', 'serves_properties': [i for i in CHECKS if CHECKS[i][0]=='E4-crashpt'], 'kind_free_text': 'every torn-write prefix of the last write of every enumerated history'},
        ],
        'checks': checks,
        'not_applicable': na,
        'notes': 'All checks run through ./vcheck, which rebuilds the harness against the current /repo working tree. Exit 0 = held, 1 = VIOLATION, 2 = harness error.',
    }
    json.dump(m, open(f'{ROOT}/MANIFEST.json', 'w'), indent=1)
    print('checks', len(checks), 'not_applicable', len(na))
main()
