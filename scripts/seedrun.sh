#!/bin/bash
# seedrun.sh <ID> <N> [check ids...] : confirm a seeded change and run the check(s) against it
ID=$1; N=$2; shift 2
CHECKS=${@:-$ID}
D=/tmp/${SEEDPREFIX:-seed}-$ID-out/$N
V=$(python3 /verif/scripts/seedverify.py $D 2>&1 | tail -1)
echo "SEED${SEEDTAG:-} $ID-$N verify: $V"
for c in $CHECKS; do
  out=$(cd /verif && scripts/with-mutant.sh $D/patch.diff ./vcheck $c --tier quick 2>&1)
  rc=$?
  echo "SEED${SEEDTAG:-} $ID-$N check $c rc=$rc :: $(echo "$out" | grep -m1 'clause=' | cut -c1-200) :: $(echo "$out" | grep 'tier=' | tail -1 | cut -c1-120)"
done
