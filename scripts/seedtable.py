#!/usr/bin/env python3
"""Imports every confirmed seeded change from /tmp/seed-<ID>-out/<n> into /verif/seeded/<ID>-<n>/ using the
verification lines of .work/seedrun-*.log plus the lead's notes below, and prints the detection table."""
import json, os, re, glob, shutil, subprocess
NOTES = {  # seed -> (detected_by, note) overriding / complementing the logged run
 'C01-1': ('C01 (bytes-once-in-order)', 'stale buffer length reused across two critical sections of Stdin.Read; found at preemption bound 1'),
 'C01-2': ('C01 (no-livelock)', 'first run ended in a harness error (step horizon); the livelock verdict (dump-based spin detection) was added because of this seed'),
 'C03-1': ('C03 (sequential-meaning, long program)', 'not detected for most of the work (it looked like a wall-clock matter: the wait gives up after 1000 polls); after round 4 produced the same change with 100 polls it became clear that under the fair scheduler a poll is counted in forced switches, not time: a program whose upstream stage runs 300 loop iterations after the downstream stage is done exposes both variants under the default schedule, with no deviation at all'),
 'C03-r4-1': ('C03 (sequential-meaning, long program)', 'the round-1 change C03-1 again (cap of 100 polls instead of 1000); missed by the check as it stood, caught by the long program added because of it (see C03-1)'),
 'C03-2': ('C01 (no-livelock); not by C03', 'same edit as C01-2; the whole-interpreter C03 programs with 8-byte pipes did not reach the required order within 1 deviation of either default schedule'),
 'C05-1': ('C05 (stdout / exit)', 'stale exit number used for mid-pipeline commands in runModeTry; caught by the quick tier as built'),
 'C05-2': ('C05 (stdout / exit)', 'off-by-one in the chained || skip of runModeTryPipe; caught by the quick tier as built'),
 'C26-1': ('C26 (names-unique)', 'CreatePipe releases the registry lock between the existence check and the insert; two-thread drivers, found with 1 preemption'),
 'C26-2': ('C32 (race report Named.Get vs registry writes); not by C26', 'lock-free fast path: no synchronisation operation separates the racing accesses, so the interleaving search of C26 cannot order them; the race-transparent explorer reports it'),
 'C28-1': ('C28 (fid-unique, monitor)', 'the monitor message code had to be fixed first: it called a locking method and recursed'),
 'C28-2': ('C28 (fid-released)', 'missed at first; caught after trypipe/try programs with chained || alternatives were added to the program list'),
 'C02-2': ('C02 (waits-for-declaration / first-declaration-wins)', 'missed at first; caught after Tee drivers whose first declaration is empty/null were added to the quick list'),
 'C11-2': ('C11 (reads)', 'missed at first (only string reads were generated); caught after reads through the value getter ($x as an expression operand) were added'),
 'C12-2': ('C12 (reads-back@missing-intermediate)', 'missed at first; caught after a path with three missing levels was added'),
 'C16-2': ('C16 (map-key-returns-value)', 'missed at first; caught after a null-valued key family was added to the maps'),
 'C27-1': ('C27 (lists-exactly-running, interleaving part)', 'missed by the sequential BFS; caught after the E1 interleaving search of concurrent job-table operations was added to C27'),
 'C09-2': ('C09 (literal-accepted / literal-value, dq-raw encoder)', 'missed at first: no encoder wrote backslash + literal line feed; caught after the dq-raw encoder was added'),
 'C14-2': ('C14 thorough tier (roundtrip-jsonl); not by the quick tier', 'needs a top-level array with a nested array followed by two more elements: arrays of 3 children are only in the thorough tier'),
 'C21-2': ('C21 (exit-number)', 'missed at first; caught after a helper that exits 0 while a child keeps its output pipes open for 3 s was added (demo confirmed by hand: fails with the change, passes without)'),
 'C17-1': ('C17 (slice:last-k-clipped)', 'missed at first ([-k..] with k>n was outside the asserted forms); caught after the model was extended to "the last k items of a shorter list are all of them"'),
 'C19-1': ('C19 (no-internal-panic)', 'missed at first; caught after a whitespace table with a short row and the column arguments c / *3 were added to the stdin and argument alphabets'),
 'C10-2': ('C10 (argv-round-trip)', 'missed at first; caught after U+00A0, U+3000, U+2028 and form feed were added to the argument alphabet'),
 'C35-2': ('C35 (inverse-gives-back-original)', 'missed at first; caught after inputs built from the encoders own escape tokens (&lt; &amp; %20 \\n ...) were added'),
 'C24-1': ('C24 (flag-not-dropped)', 'missed at first (value flag followed by a dash-prefixed token was outside the asserted lists); caught after the invariant "a given value flag followed by an undeclared dash-token is reported or rejected, never silently dropped" was added'),
 'C32-1': ('C32 (race report Named.Get vs closePipe/CreatePipe)', 'missed by the first quick tier (the two-session pipe program and the three-operation registry pairs had been trimmed out of it for speed); caught after they were put back'),
 'C32-2': ('C32 (race report paths.(*mxiPath).GetString vs Set)', 'missed at first: no program re-assigned a path-typed global concurrently with its expansion; caught after the typed-global programs were added'),
 'C34-1': ('C34 (unsafe-command / file-redirection in a block after a plain-word parameter)', 'missed at first (needs `cmd word {unsafe}`: 8 tokens, beyond the sequence bound); caught after the context `try x <seq>|` was added'),
 'C37-2': ('C37 (highlight-preserves-text)', 'missed at first: the alphabet had no TAB; caught after TAB was added to the rune alphabet of C20/C37'),
 'C38-1': ('C38 (msort-sorted-permutation)', 'missed at first: every list was smaller than the 4 KiB buffer of the str reader; caught after a 600-element and a 40x200-byte list were added'),
 'C38-2': ('C38 (left-map)', 'missed at first: no element was malformed UTF-8; caught after the element \\xffab was added to the str lists (and the model made byte-preserving)'),
 'C31-2': ('C31 (verdict, multi-plan runs)', 'missed at first (one plan per case); caught after multi-plan runs were added: three functions, every pass/fail assignment and registration order, run together with `*`, each plan must be reported on its own merits'),
 'C02-r2-2': ('C02 (declared-type-returned)', 'missed at first: the change introduces a TryLock, and the scheduler had no scheduling point while a lock is held just before its release (a reduction that is only sound for blocking locks), so a TryLock could never fail; caught after mkoverlay counts TryLock calls and sched.sh then builds the shim with a pre-unlock scheduling point (tag vtrylock)'),
 'C11-r2-1': ('C11 (reads)', 'missed at first: local values {1,2} and global values {3,4} never coincided, and the change only drops a local assignment whose value equals the visible global; caught after the leaf $GLOBAL.x=1 was added (witness `gx=1 x=1 gux`)'),
 'C13-r2-2': ('NOT DETECTED', 'FloatToString formats into a package-level scratch buffer: wrong only when two goroutines convert at the same instant. No interleaving of scheduling points reaches it (there is no synchronisation operation inside the function, so the cooperative scheduler never switches there) and the race detector is blind to it as well: the writes happen inside internal/strconv, which go1.26 does not instrument because the runtime depends on it (a plain two-goroutine Go program doing the same is not reported either). C32 gained pairs of stateless functions, which do catch a hoisted buffer that murex code itself writes'),
 'C25-r2-2': ('C25 (config-get)', 'missed at first: the breadth-first search merges histories whose scopes READ the same values, and the change adds a hidden per-call copy that reads like the shared value until the shared value moves on, so the only history that could expose it was pruned as a duplicate; caught after every history of <= 5 writes/calls/returns is also run without any state merging'),
 'C29-r2-1': ('C29 (reload)', 'missed at first: every long block was plain text, whose encoding in the file is as long as the text; caught after a 70 KiB block of `<&>` and line feeds (about 350 KiB once encoded) joined the block alphabet'),
 'C31-r2-2': ('C31 (verdict / test-run-exit)', 'missed at first: Pre/PostBlock were not varied; caught after the dimensions PreBlock {none, false} and PostBlock {none, true, false} were added'),
 'C33-r2-2': ('C33 (file-bytes)', 'missed at first: no file was appended to while another append to it was already open; caught after the nested appends `function f { P >> file; Q }; f >> file` were added'),
 'C32-r2-1': ('C32 (race report ParseFlags vs Parameters readers)', 'missed at first: no program ran `args` next to a stage that expands the parameters; caught after the program params-shared-by-stages and, independently, by the new object-level part (every pair of operations of every shared table)'),
 'C32-r2-2': ('C32 (race report Variables.Unset vs set)', 'missed at first: no program unset a variable while another job assigned one; caught by the new object-level part (every pair of operations of every shared table: `Set || Unset` on one table)'),
 'C19-r2-1': ('C19 (caller-not-blocked)', 'the check as it stood would have missed it (no operation whose pipe constructor fails — the round-1 limit C19-2 — and a child murex that never returns was only reported as inconclusive); caught after the operation `pipe a --file /no/such/dir/x` joined the child sequences and a child whose every thread sleeps without consuming CPU for 25 s is declared blocked'),
 'C23-r2-2': ('C23 (binding)', 'missed at first: every argument of the alphabet was already in canonical form and only the stored value was compared, not the text the variable expands to; caught after the arguments 007 and 1e2 and the expansion text joined the comparison'),
 'C28-r4-1': ('C28 (fid-unique)', 'the check as it stood would have missed it: the atomic add was split into an atomic load and an atomic store in consecutive statements, with no lock or channel between them, and atomic operations were not scheduling points (nor is there anything for the race detector); caught, with one preemption, after mkoverlay started to put a scheduling point before every statement that performs a sync/atomic operation'),
 'C29-r4-1': ('C29 (reload, interleaving part)', 'outside the check as it stood (sessions were strictly sequential): two live sessions whose Stat/WriteAt windows overlap. Caught after C29 gained an E1 part: concurrent History.Write calls of 2-3 live sessions under the controlled scheduler with a scheduling point before every statement of Write'),
 'C29-r4-2': ('C29 (reload, live sessions)', 'outside the check as it stood (a session never outlived another one crash): caught after the live-session cases were added (A records, B crashes at every byte of its write, A records again)'),
 'C27-r4-2': ('C32 (race report jobs.Add vs jobs.Add); not by C27', 'Add under RLock: two Adds inside the read lock never interleave under a cooperative scheduler (no scheduling point inside the section), so C27 explores nothing new; the race detector sees the unsynchronised append once the job table joined the object-level pairs of C32'),
 'C02-r4-2': ('C02 (declared-type-returned)', 'missed at first: the oracle allowed a reader to get * after ForceClose whenever the declaration had not completed before the reader BEGAN; the change makes a reader that was already waiting return * although the type was declared before the ForceClose. Caught after the oracle was tightened from the code-independent reading of the statement: an aborting reader looks at the type after it has seen the cancellation, so * is wrong when a valid declaration completed before the ForceClose began'),
 'C32-r4-1': ('C32 (race report Config.GetFileRef vs Set)', 'missed at first: the config pairs ran on a function-scoped Config without any local override, so the branch that serves a scoped value was never taken; caught after the driver was given a non-global option with a local override (and a global one) of its own'),
 'C26-r2-1': ('C26 (pipe-closed-once)', 'missed at first (the registry-level model cannot see a pipe being closed twice); caught after a counted pipe type and the clause "the registry closes a pipe object at most once" were added'),
 'C03-r2-1': ('C03 (sequential-meaning)', 'missed at first: no program used the method form of if, and the differential oracle alone does not see a change that makes every explored schedule wrong in the same way; caught after the program and literal expectations were added'),
 'C03-r2-2': ('C03 (sequential-meaning)', 'missed at first: no program had a downstream stage that ignores its stdin followed by a statement writing to the same stream; caught after the program and its literal expectation were added'),
 'C05-r2-1': ('C05 (exit, method variants)', 'missed at first: no try block was used as a method; caught after the method-try / method-runmode-try / method-trypipe variants were added'),
 'C05-r2-2': ('C05 (stdout, nested variants)', 'missed at first: no block of one kind was nested in a function of the other run mode; caught after the nested variants were added'),
 'C19-2': ('C19 (shell-survives)', 'caught since the child murex is built with the net pipe types (tag no_pipe_net) and `pipe a --tcp-dial nosuch` — a constructor that fails while returning a typed nil pointer — joined the child sequences: `pipe a --tcp-dial nosuch; pipe a; !pipe a` kills the shell 2 s later (64 violations, clause shell-survives)'),
}
ROOT = '/verif'
logs = ''.join(open(f).read() for f in sorted(glob.glob(f'{ROOT}/.work/seedrun-*.log')) + sorted(glob.glob(f'{ROOT}/.work/seed2run-*.log')) + sorted(glob.glob(f'{ROOT}/.work/seed5run-*.log')))
seeds = {}
def key(tag, pid, n): return f'{pid}-r2-{n}' if tag == '2' else (f'{pid}-r4-{n}' if tag == '5' else f'{pid}-{n}')
for m in re.finditer(r'SEED([25]?) (C\d\d)-(\d) verify: (\{.*\})', logs):
    try: seeds[key(m.group(1), m.group(2), m.group(3))] = {'verify': json.loads(m.group(4)), 'checks': []}
    except Exception: pass
for m in re.finditer(r'SEED([25]?) (C\d\d)-(\d) check (C\d\d) rc=(\d+) :: (.*?) :: (.*)', logs):
    k = key(m.group(1), m.group(2), m.group(3))
    seeds.setdefault(k, {'verify': None, 'checks': []})['checks'].append({'check': m.group(4), 'rc': int(m.group(5)), 'first': m.group(6).strip(), 'summary': m.group(7).strip()})
EXCLUDE = {
 'C32-r2-1': 'made harmless by fix b8afcfe: on the repaired tree its own demonstration passes',
 'C07-r2-2': 'swaps the relative precedence of && and ||, which the property does not fix (it speaks of parenthesised expressions; each operator still follows truthiness): not a violation of C07 as stated, and the check rightly stays silent',
}
# earlier manual confirmations
MANUAL_OK = {'C21-2', 'C19-2', 'C01-r2-1', 'C01-r2-2', 'C28-r2-2', 'C32-r2-2', 'C13-r2-1', 'C13-r2-2', 'C24-r2-1', 'C21-r2-1', 'C23-r2-2', 'C26-r4-2', 'C32-r4-1', 'C32-r4-2'}
for k in ['C01-1','C01-2','C03-1','C03-2','C05-1','C05-2','C26-1','C26-2','C28-1','C28-2']:
    seeds.setdefault(k, {'verify': None, 'checks': []})
    if seeds[k]['verify'] is None: seeds[k]['verify'] = {"applies":True,"builds":True,"existing_tests_pass":True,"demo_fails_with_change":True,"demo_passes_without_change":True}
rows = []
for k in sorted(seeds):
    parts = k.split('-')
    pid, n = parts[0], parts[-1]
    src = f'/tmp/seed2-{pid}-out/{n}' if '-r2-' in k else (f'/tmp/seed5-{pid}-out/{n}' if '-r4-' in k else f'/tmp/seed-{pid}-out/{n}')
    v = seeds[k]['verify']
    dst = f'{ROOT}/seeded/{k}'
    if not os.path.isdir(src):
        if os.path.isdir(dst): rows.append((k, json.load(open(dst+'/meta.json')).get('detected_by','?'))); 
        continue
    if k in MANUAL_OK and v:
        v.update({'applies': True, 'demo_fails_with_change': True, 'demo_passes_without_change': True, 'demo_confirmed': 'by hand'})
    if k in EXCLUDE:
        rows.append((k, 'NOT KEPT (' + EXCLUDE[k] + ')')); shutil.rmtree(dst, ignore_errors=True); continue
    ok = v and all(v.get(x) for x in ('applies','builds','existing_tests_pass','demo_fails_with_change','demo_passes_without_change'))
    if not ok:
        rows.append((k, f'NOT KEPT (confirmation incomplete: {v})')); continue
    caught = [c for c in seeds[k]['checks'] if c['rc'] == 1]
    if k in NOTES: det, note = NOTES[k]
    elif caught:
        mm = re.search(r'clause=(\S+)', caught[-1]['first'])
        det, note = caught[-1]['check'] + ' (' + (mm.group(1) if mm else '?') + ')', 'caught by the quick tier as built'
    else: det, note = 'NOT DETECTED', 'quick tier exit 0 against this change'
    shutil.rmtree(dst, ignore_errors=True); os.makedirs(dst)
    shutil.copy(f'{src}/patch.diff', dst); shutil.copytree(f'{src}/demo', f'{dst}/demo')
    meta = json.load(open(f'{src}/meta.json'))
    meta.update({'confirmed_by_lead': v, 'confirmation_method': 'scripts/seedverify.py in a scratch worktree of /repo HEAD', 'check_runs': seeds[k]['checks'], 'detected_by': det, 'detection_note': note,
                 'how_to_rerun': f'scripts/with-mutant.sh seeded/{k}/patch.diff ./vcheck {pid} --tier quick', 'round': (2 if '-r2-' in k else (4 if '-r4-' in k else 1))})
    json.dump(meta, open(f'{dst}/meta.json','w'), indent=1)
    rows.append((k, det))
for k, d in rows: print(f'{k:7s} {d}')
