#!/bin/bash
# with-mutant.sh <patch.diff> <command...>
# Runs <command> with VERIF_OVERLAY pointing at a go build overlay in which the files touched by the patch are
# replaced by patched copies. /repo itself is not modified. vcheck (and go1.26 build -overlay "$VERIF_OVERLAY")
# honour the variable. Also usable to run the repository's own tests against the mutant:
#   with-mutant.sh p.diff go1.26 test -overlay '$VERIF_OVERLAY' -vet=off ./lang/   (quote so it expands late)
set -e
PATCH=$(readlink -f "$1"); shift
T=$(mktemp -d /tmp/vmut.XXXXXX)
trap 'rm -rf "$T"' EXIT
files=$(grep -E '^\+\+\+ ' "$PATCH" | sed -E 's#^\+\+\+ (b/)?##; s#\t.*##' | grep -v '^/dev/null' | sort -u)
echo '{"Replace":{' > "$T/overlay.json"
first=1
for f in $files; do
  mkdir -p "$T/src/$(dirname "$f")"
  if [ -f "/repo/$f" ]; then cp "/repo/$f" "$T/src/$f"; fi
done
( cd "$T/src" && patch -s -p1 < "$PATCH" )
for f in $files; do
  [ $first = 1 ] || echo ',' >> "$T/overlay.json"
  first=0
  printf '"/repo/%s":"%s/src/%s"' "$f" "$T" "$f" >> "$T/overlay.json"
done
echo '}}' >> "$T/overlay.json"
export VERIF_OVERLAY="$T/overlay.json"
eval "$@"
