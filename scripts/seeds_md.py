#!/usr/bin/env python3
import json, glob, os
rows = []
for d in sorted(glob.glob('/verif/seeded/*')):
    m = json.load(open(d + '/meta.json'))
    rows.append((os.path.basename(d), (m.get('summary') or '').replace('|', '/').replace('\n', ' ')[:170], m.get('detected_by', '?').replace('|', '/'), (m.get('detection_note') or '').replace('|', '/')))
print('| seed | change (author\'s summary, shortened) | detected by | note |')
print('|---|---|---|---|')
for r in rows:
    print('| %s | %s | %s | %s |' % r)
