#!/bin/bash
# runall.sh [tier] : run every registered check once, print a one-line summary per check
cd /verif
T=${1:-quick}
for id in $(python3 -c "import json;print(' '.join(c['property_id'] for c in json.load(open('MANIFEST.json'))['checks']))"); do
  s=$(date +%s)
  ./vcheck $id --tier $T > .work/runall-$id.log 2>&1; rc=$?
  e=$(date +%s)
  echo "$id rc=$rc $((e-s))s $(grep -c KNOWN-FINDING .work/runall-$id.log) known | $(tail -1 .work/runall-$id.log | cut -c1-160)"
done
