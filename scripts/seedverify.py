#!/usr/bin/env python3
"""seedverify.py <seed-out-dir/N> : confirm a seeded change in a scratch worktree:
 patch applies, module builds, existing tests of touched packages pass, demo fails with / passes without."""
import sys, os, re, subprocess, json, shutil
d = sys.argv[1].rstrip('/')
env = dict(os.environ, GOFLAGS='-mod=mod', GOPROXY='off', GOSUMDB='off', GOTOOLCHAIN='local', CGO_ENABLED='0', MUREX_TEST_NO_HTTP='true')
W = '/tmp/sv-' + re.sub(r'[^A-Za-z0-9]', '-', d)[-30:]
def sh(cmd, cwd=None, timeout=1500):
    p = subprocess.run(cmd, shell=True, cwd=cwd, env=env, capture_output=True, text=True, timeout=timeout)
    return p.returncode, (p.stdout + p.stderr)
res = {}
subprocess.run(f'git -C /repo worktree remove --force {W}', shell=True, capture_output=True)
rc, out = sh(f'git -C /repo worktree add --detach {W} HEAD')
try:
    rc, out = sh(f'git -C {W} apply {d}/patch.diff'); res['applies'] = rc == 0
    if rc: print(out)
    files = [l[6:].strip() for l in open(f'{d}/patch.diff') if l.startswith('+++ b/')]
    pkgs = sorted({'./' + os.path.dirname(f) + '/' for f in files})
    rc, out = sh('go1.26 build ./...', cwd=W); res['builds'] = rc == 0
    if rc: print(out[-2000:])
    tp = set(pkgs)
    for p in pkgs:
        if p.startswith('./lang/') or p.startswith('./builtins/pipes'): tp.add('./lang/'); tp.add('./builtins/core/structs/')
    rc, out = sh("go1.26 test -vet=off -count=1 -p 4 -skip 'TestForEachParallel|TestAspellInstalled|TestHttp' " + ' '.join(sorted(tp)), cwd=W)
    res['existing_tests_pass'] = rc == 0; res['existing_tests'] = sorted(tp)
    if rc: print(out[-3000:])
    run = open(f'{d}/demo/RUN.md').read()
    m = re.search(r'cp\s+\S*demo/(\S+)\s+(?:\$W/)?(\S+)', run)
    rx = re.search(r'-run\s+[\'"]?([A-Za-z0-9_|^$]+)', run)
    if m and rx:
        pkg = m.group(2).rstrip('/')
        if pkg.endswith('.go'): pkg = os.path.dirname(pkg)
        for f in os.listdir(f'{d}/demo'):
            if f.endswith('.go'): shutil.copy(f'{d}/demo/{f}', f'{W}/{pkg}/')
        cmd = f"go1.26 test -vet=off -count=1 -run '{rx.group(1)}' ./{pkg}/"
        rc1, o1 = sh(cmd, cwd=W); res['demo_fails_with_change'] = rc1 != 0
        sh('git checkout -- ' + ' '.join(files), cwd=W)
        rc2, o2 = sh(cmd, cwd=W); res['demo_passes_without_change'] = rc2 == 0
        res['demo_cmd'] = cmd
        if rc1 == 0: print('DEMO WITH CHANGE UNEXPECTEDLY PASSED\n', o1[-1500:])
        if rc2 != 0: print('DEMO WITHOUT CHANGE FAILED\n', o2[-1500:])
    else:
        res['demo'] = 'could not parse RUN.md; verify manually'
finally:
    subprocess.run(f'git -C /repo worktree remove --force {W}', shell=True, capture_output=True)
print(json.dumps(res))
