#!/usr/bin/env python3
"""seedverify.py <seed-out-dir/N> : confirm a seeded change in a scratch worktree:
 patch applies, module builds, existing tests of touched packages pass, demo fails with / passes without."""
import sys, os, re, subprocess, json, shutil
d = sys.argv[1].rstrip('/')
env = dict(os.environ, GOFLAGS='-mod=mod', GOPROXY='off', GOSUMDB='off', GOTOOLCHAIN='local', CGO_ENABLED='0', MUREX_TEST_NO_HTTP='true')
W = '/tmp/sv-' + re.sub(r'[^A-Za-z0-9]', '-', d)[-30:]
def sh(cmd, cwd=None, timeout=1500):
    p = subprocess.run(cmd, shell=True, cwd=cwd, env=env, capture_output=True, text=True, errors='replace', timeout=timeout)
    return p.returncode, (p.stdout + p.stderr)
res = {}
subprocess.run(f'git -C /repo worktree remove --force {W}', shell=True, capture_output=True)
rc, out = sh(f'git -C /repo worktree add --detach {W} HEAD')
try:
    rc, out = sh(f'git -C {W} apply {d}/patch.diff'); res['applies'] = rc == 0
    if rc: print(out)
    files = [l[6:].strip() for l in open(f'{d}/patch.diff', errors='replace') if l.startswith('+++ b/')]
    pkgs = sorted({'./' + os.path.dirname(f) + '/' for f in files})
    rc, out = sh('go1.26 build ./...', cwd=W); res['builds'] = rc == 0
    if rc: print(out[-2000:])
    tp = set(pkgs)
    for p in pkgs:
        if p.startswith('./lang/') or p.startswith('./builtins/pipes'): tp.add('./lang/'); tp.add('./builtins/core/structs/')
    rc, out = sh("go1.26 test -vet=off -count=1 -p 4 -skip 'TestForEachParallel|TestAspellInstalled|TestHttp' " + ' '.join(sorted(tp)), cwd=W)
    res['existing_tests_pass'] = rc == 0; res['existing_tests'] = sorted(tp)
    if rc: print(out[-3000:])
    run = open(f'{d}/demo/RUN.md', errors='replace').read()
    demo_files = [f for f in os.listdir(f'{d}/demo') if f.endswith('.go') or f.endswith('.mx') or f.endswith('.sh')]
    placed = {}
    for m in re.finditer(r'cp\s+(\S+)\s+(\S+)', run):
        srcs, dest = m.group(1), m.group(2)
        base = os.path.basename(srcs)
        dest = dest.strip('"')
        dest = re.sub(r'^(\$\w+|\$\{\w+\}|W|WT|<worktree>|<tree>|/tmp/seed-[A-Z0-9-]+)/', '', dest).rstrip('/')
        if dest.endswith('.go'): dest = os.path.dirname(dest)
        for f in demo_files:
            if f == base or (('*' in base) and re.fullmatch(base.replace('.', r'\.').replace('*', '.*'), f)):
                placed[f] = dest
    cmds = []
    for m in re.finditer(r'((?:CGO_ENABLED=1\s+)?go1\.26 test[^\n|)]*)', run):
        cmd = m.group(1).strip().rstrip('`').strip()
        cmd = re.sub(r'-count=\d+', '-count=1', cmd)
        if cmd not in cmds and '-run' in cmd: cmds.append(cmd)
    if placed and cmds:
        for f, dest in placed.items():
            if os.path.isdir(f'{W}/{dest}'): shutil.copy(f'{d}/demo/{f}', f'{W}/{dest}/')
        def runall():
            rcs, outs = [], []
            for cmd in cmds:
                rc, o = sh(cmd, cwd=W); rcs.append(rc); outs.append(o[-800:])
            return rcs, outs
        rc1, o1 = runall(); res['demo_fails_with_change'] = any(r != 0 for r in rc1)
        sh('git checkout -- ' + ' '.join(files), cwd=W)
        rc2, o2 = runall(); res['demo_passes_without_change'] = all(r == 0 for r in rc2)
        res['demo_cmds'] = cmds; res['demo_files'] = placed
        if not res['demo_fails_with_change']: print('DEMO WITH CHANGE UNEXPECTEDLY PASSED\n', o1)
        if not res['demo_passes_without_change']: print('DEMO WITHOUT CHANGE FAILED\n', [o for r, o in zip(rc2, o2) if r])
    else:
        res['demo'] = 'could not parse RUN.md; verify manually'
finally:
    subprocess.run(f'git -C /repo worktree remove --force {W}', shell=True, capture_output=True)
print(json.dumps(res))
