#!/usr/bin/env python3
"""seedimport.py <seed-out-dir/N> <name> <verify-json> <detected-by> <note> : store a confirmed seeded change under /verif/seeded/<name>/"""
import sys, os, json, shutil
src, name, verify, detected, note = sys.argv[1:6]
dst = f'/verif/seeded/{name}'
shutil.rmtree(dst, ignore_errors=True)
os.makedirs(dst)
shutil.copy(f'{src}/patch.diff', dst)
shutil.copytree(f'{src}/demo', f'{dst}/demo')
meta = json.load(open(f'{src}/meta.json'))
meta['confirmed_by_lead'] = json.loads(verify)
meta['detected_by'] = detected
meta['detection_note'] = note
meta['how_to_rerun'] = f'scripts/with-mutant.sh seeded/{name}/patch.diff ./vcheck <ID> --tier quick   (or: git -C /repo apply seeded/{name}/patch.diff; ./vcheck <ID>; git -C /repo checkout -- .)'
json.dump(meta, open(f'{dst}/meta.json', 'w'), indent=1)
print('stored', dst)
