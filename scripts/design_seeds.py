#!/usr/bin/env python3
# Regenerates the seed tables and the round-2/3 narrative of DESIGN.md §6.5 from seeded/*/meta.json
# (everything between the line "**Round 1**" and "### 6.6 Stated limits").
import json, glob, os

ROUND3 = {'C07', 'C08', 'C09', 'C17', 'C18', 'C19', 'C21', 'C23', 'C30', 'C35', 'C36', 'C37', 'C38'}
rows1, rows2, rows3, rows4 = [], [], [], []
for d in sorted(glob.glob('/verif/seeded/*')):
    m = json.load(open(d + '/meta.json'))
    name = os.path.basename(d)
    r = (name, (m.get('summary') or '').replace('|', '/').replace('\n', ' ')[:170], m.get('detected_by', '?').replace('|', '/'), (m.get('detection_note') or '').replace('|', '/'))
    if '-r4-' in name:
        rows4.append(r)
    elif '-r2-' not in name:
        rows1.append(r)
    elif name.split('-')[0] in ROUND3:
        rows3.append(r)
    else:
        rows2.append(r)


def table(rows):
    out = ["| seed | change (author's summary, shortened) | detected by | note |", '|---|---|---|---|']
    for r in rows:
        out.append('| %s | %s | %s | %s |' % r)
    return '\n'.join(out)


def stats(rows):
    nd = sum(1 for r in rows if r[2].startswith('NOT'))
    asbuilt = sum(1 for r in rows if 'as built' in r[3])
    return len(rows), nd, asbuilt


n2, nd2, ab2 = stats(rows2)
n3, nd3, ab3 = stats(rows3)
r2text = f"""
**Round 2** (after round 1 had been absorbed): 22 more fresh sub-agents, same brief plus the requirement
that the change need *something specific* to manifest (an interleaving, a crash point, a multi-step
sequence, an unusual input, two cooperating sites): C01 C02 C03 C05 C12 C20 C26 C27 C28 C32 first, then
C04 C06 C11 C13 C16 C22 C24 C25 C29 C31 C33 C39 = 44 changes. Confirmation as in round 1 (seven
demonstrations the script could not drive — probabilistic interleaving demos, multi-package demos, a
patch that had to be re-based onto a later `fix:` commit — were run by hand, each failing with the change
and passing without it). **{n2} kept, {n2 - nd2} of them detected** ({ab2} by the quick tier as it stood, the
rest after a strengthening listed below); **{nd2} not detected** (C13-r2-2, a real limit); **1 not kept**:
C32-r2-1 (`StringArray` handing out the live parameter slice) stopped being a property-breaking change
once `ParseFlags` was repaired (commit b8afcfe) — on the repaired tree nothing writes through that slice
and its own demonstration passes; on the tree it was written against, the object-level part of C32 reports
exactly its race (`String || ParseFlags(alias)`) — with and without the seed, which is how the genuine
defect behind it was found. Two agents (C06, and C16 change 2) independently re-invented a round-1 change.

What round 2 taught, now part of the machinery:
* **A reduction that is sound only for blocking locks** (C02-r2-2): the scheduler had no scheduling point
  while a lock is held just before `Unlock`, so a `TryLock` could never fail. mkoverlay now counts
  `TryLock`/`TryRLock` calls in the tree and sched.sh then builds the shim with a pre-unlock point (tag
  `vtrylock`); on the pinned tree (no TryLock) nothing changes.
* **State merging on observations hides hidden state** (C25-r2-2): C25's breadth-first search merges
  histories whose scopes *read* the same values; a change that adds a private copy is invisible until the
  shared value moves on, and the only history reaching that was pruned. C25 now also runs every history
  of <= 5 (thorough 6) writes/calls/returns with no merging at all; C27 got the same treatment
  (every history of <= 7 (thorough 9) mutating operations, unmerged) as a precaution.
* **Alphabets whose values never collide** (C11-r2-1): local values {{1,2}} and global values {{3,4}} were
  chosen disjoint to make reads attributable; a write dropped "because the value is already visible"
  needs them equal. One colliding leaf was added (and C25 now also sets the declared default value).
* **Text length is not line length** (C29-r2-1): a 70 KiB block that is ~350 KiB once JSON-encoded.
* **Blocks that must not matter** (C31-r2-2): Pre/PostBlock dimensions; **an append inside an append**
  (C33-r2-2); **method / nested forms of try blocks** (C05-r2-1/2); **programs whose every schedule is wrong
  in the same way** (C03-r2-1/2: the differential oracle needs literal expectations as well); **a pipe
  object closed twice** (C26-r2-1: counted pipe type).
* **C32 was vocabulary-bound** (C32-r2-1/2): each seed used a builtin no program mentioned. C32 now has an
  object-level part that does not depend on vocabulary: for every shared table of the interpreter
  (local and global variables, parameters, config, aliases, functions, private functions, FIDs, method
  tables, unit tests) and for a list of functions that must be stateless, EVERY unordered pair of
  operations is run by two threads on one instance under the race detector, all interleavings with <= 1
  preemption (about 500 drivers). On the pinned tree this immediately reported five genuine races; four are
  repaired (§6.4), one is recorded.
* The round-2 C28 agent found a genuine FID leak on the pinned tree (fixed, 218cab1); the C32 agent's
  remark about a HEAD race on `Variables.process` could not be reproduced by any explored schedule and is
  not recorded as a finding.

"""
r3text = f"""
**Round 3**: 13 more fresh sub-agents (C07 C08 C09 C17 C18 C19 C21 C23 C30 C35 C36 C37 C38) = 26 changes,
same brief and confirmation. **{n3} kept, {n3 - nd3} detected** ({ab3} by the quick tier as it stood). By now the agents
largely re-invent earlier changes (C17 ×2, C18 ×2, C30 change 1, C35 ×2, C37 change 1, C38 ×2 are round-1
changes again), which the checks catch as built. Not kept: C07-r2-2 swaps the relative precedence of `&&`
and `||`; C07 as stated speaks of parenthesised expressions and every operator still follows truthiness, so
the property holds on that tree and the check rightly stays silent (demanding a precedence would be asking
for more than the property). New in this round:
* **C19-r2-1** (a failing pipe constructor leaves the registry mutex held; the *next* pipe operation blocks
  for ever) is the change round 1 could not reach (C19-2): the agent showed that `pipe x --file /no/such/dir/y`
  makes a constructor fail from plain murex code. The child-process sequences of C19 now contain that
  operation, and a child murex is declared *blocked* when every one of its threads is asleep and it has
  consumed no CPU time for 25 s, or *spinning* when it has burnt more than 60 s of its own CPU time on a
  two-line program — both load-independent, unlike a wall-clock limit (a timeout alone stays inconclusive).
* While confirming the C19 seeds two more genuine defects of the pinned tree surfaced (the agent mentioned
  them in passing): `[*0]` on a table panics (`lines[-1]`; on csv/jsonl the panic is on an unrecovered
  goroutine and kills the shell) — repaired (3ed9b89), `*0` added to the argument alphabet; and
  `out <std:x> hi` (a temporary pipe of type std) never returns — recorded as a known finding of C19,
  detected by the spinning verdict.

"""
n4, nd4, ab4 = stats(rows4)
r4text = f"""
**Round 4** (interleaving-only brief): 8 fresh sub-agents for the properties decided by the scheduler or by
crash points (C01 C02 C03 C26 C27 C28 C32 C29), told that the change must be invisible in any
single-threaded use and in the common schedule and show only when two goroutines (or, for C29, two live
sessions / a crash) hit a specific window = 16 changes, named `<ID>-r4-<n>`. **{n4} kept, {n4 - nd4} detected**
({ab4} by the quick tier as it stood). What this round added:
* **Atomic operations are scheduling points now** (C28-r4-1: `atomic.AddUint32` split into a load and a
  store in consecutive statements — no lock, no channel, and nothing for the race detector either):
  mkoverlay puts a scheduling point before every statement that calls a `sync/atomic` function (11 sites;
  the hot state/flag words of `lang/state` and `lang/process` are left out — their readers already yield in
  the polling loop's Sleep). The duplicate FID is then found with one preemption.
* **Interactions through the file system** (C29-r4-1: `History.Write` without `O_APPEND`, position taken
  from an earlier `Stat`; C29-r4-2: the torn-line repair only on a session's first write): C29 gained (a)
  live-session cases in the crash enumeration — A records, B opens the file and crashes at every byte of its
  write, A records again — and (b) an E1 part: 2-3 live sessions recording at the same time through the
  real `History.Write`, with a scheduling point before *every statement* of that function (mkoverlay
  `stmtPointFuncs`: the sessions share nothing but the file, so no synchronisation operation exists to hang
  a point on), all interleavings with <= 2 preemptions; a later session must load exactly what was recorded.
* **A critical section that is atomic for the scheduler but shared among readers** (C27-r4-2: `Add` under
  `RLock`): two `Add`s inside the read lock never interleave under a cooperative scheduler (no point
  inside), so C27 cannot see the lost job; the race detector can: C32's object-level part now also covers
  the job table (every pair of Add / GarbageCollect / Get / GetLatest / GetFromCommandLine / List), and
  reports it. Recorded as detected by C32, not by C27.

"""
s = open('/verif/DESIGN.md').read()
i = s.index('**Round 1**')
j = s.index('### 6.6 Stated limits')
new = "**Round 1**\n\n" + table(rows1) + "\n" + r2text + table(rows2) + "\n" + r3text + table(rows3) + "\n" + r4text + table(rows4) + "\n\n"
open('/verif/DESIGN.md', 'w').write(s[:i] + new + s[j:])
print('round1', stats(rows1), 'round2', stats(rows2), 'round3', stats(rows3), 'round4', stats(rows4))
