// Package mx: the in-process murex execution seam (the same one test.RunMurexTests uses), with a
// per-case goroutine so that a caller left blocked by murex is observed instead of hanging the worker.
package mx

import (
	"bytes"
	"fmt"
	"os"
	"runtime"
	"strings"
	"sync"
	"sync/atomic"
	"syscall"
	"time"

	_ "github.com/lmorg/murex/builtins"
	"github.com/lmorg/murex/config"
	"github.com/lmorg/murex/config/defaults"
	"github.com/lmorg/murex/lang"
	"github.com/lmorg/murex/lang/ref"
	"github.com/lmorg/murex/lang/types"
	"github.com/lmorg/murex/utils/cache"
)

var once sync.Once

// Init prepares the interpreter once per worker process. HOME/TMPDIR point into dir so nothing
// escapes the worker's scratch directory.
func Init(dir string) {
	once.Do(func() {
		if dir != "" {
			os.MkdirAll(dir, 0755)
			os.Setenv("HOME", dir)
			os.Setenv("TMPDIR", dir)
			os.Setenv("MUREX_CONFIG_DIR", dir)
			os.Chdir(dir)
			cache.SetPath(dir + "/cache.db")
		}
		defaults.Config(config.InitConf, false)
		lang.InitEnv()
	})
}

type Result struct {
	Stdout, Stderr string
	Exit           int
	Err            string // error returned by Fork.Execute
	Hang           bool   // the caller was still blocked after the ceiling
	HangStack      string
	Crash          string // text written to fd 2 by crash.Handler ("Murex has crashed"), if captured
}

func (r Result) String() string {
	s := fmt.Sprintf("exit=%d stdout=%q stderr=%q", r.Exit, r.Stdout, r.Stderr)
	if r.Err != "" {
		s += " err=" + r.Err
	}
	if r.Hang {
		s += " HANG"
	}
	if r.Crash != "" {
		s += " CRASH"
	}
	return s
}

// Opt configures one run.
type Opt struct {
	Stdin     []byte // nil = F_NO_STDIN
	StdinType string
	Module    string
	Vars      map[string]string // set as str variables before execution
	Ceiling   time.Duration     // default 20s
	Setup     func(f *lang.Fork)
}

var seq int

// Run executes block in a fresh function-scope fork of the shell process.
func Run(block string, o *Opt) Result {
	if o == nil {
		o = &Opt{}
	}
	flags := lang.F_FUNCTION | lang.F_NEW_MODULE | lang.F_CREATE_STDOUT | lang.F_CREATE_STDERR
	if o.Stdin == nil {
		flags |= lang.F_NO_STDIN
	} else {
		flags |= lang.F_CREATE_STDIN
	}
	fork := lang.ShellProcess.Fork(flags)
	fork.Name.Set("verif")
	mod := o.Module
	if mod == "" {
		seq++
		mod = fmt.Sprintf("verif/m%d", seq)
	}
	fork.FileRef = &ref.File{Source: &ref.Source{Module: mod}}
	if o.Stdin != nil {
		dt := o.StdinType
		if dt == "" {
			dt = types.Generic
		}
		fork.Stdin.SetDataType(dt)
		fork.Stdin.Write(o.Stdin)
		fork.Stdin.Close()
	}
	for k, v := range o.Vars {
		fork.Variables.Set(fork.Process, k, v, types.String)
	}
	if o.Setup != nil {
		o.Setup(fork)
	}
	ceiling := o.Ceiling
	if ceiling == 0 {
		ceiling = 20 * time.Second
	}
	var res Result
	done := make(chan struct{})
	go func() {
		defer close(done)
		exit, err := fork.Execute([]rune(block))
		res.Exit = exit
		if err != nil {
			res.Err = err.Error()
		}
		bErr, _ := fork.Stderr.ReadAll()
		bOut, _ := fork.Stdout.ReadAll()
		res.Stdout, res.Stderr = string(bOut), string(bErr)
	}()
	timer := time.NewTimer(ceiling)
	select {
	case <-done:
		timer.Stop()
		return res
	case <-timer.C:
	}
	// The ceiling is not a verdict by itself (a loaded machine can stretch a microsecond case to
	// seconds). A hang is declared from state: the process gets CPU when it wants it (a ticker
	// goroutine keeps its pace) and yet consumes none (everything is blocked), four samples in a row.
	idle := 0
	hard := time.Now().Add(10*ceiling + 60*time.Second)
	for time.Now().Before(hard) {
		cpu0, t0, k0 := cpuTime(), time.Now(), ticks.Load()
		select {
		case <-done:
			return res
		case <-time.After(250 * time.Millisecond):
		}
		el := time.Since(t0)
		expected := int64(el / (10 * time.Millisecond))
		paced := ticks.Load()-k0 >= expected*7/10
		if paced && cpuTime()-cpu0 < 8*time.Millisecond {
			idle++
		} else {
			idle = 0
		}
		if idle >= 4 {
			break
		}
	}
	select {
	case <-done:
		return res
	default:
	}
	buf := make([]byte, 1<<20)
	buf = buf[:runtime.Stack(buf, true)]
	return Result{Hang: true, HangStack: relevantStack(string(buf))}
}

var ticks atomic.Int64

func init() {
	go func() {
		for {
			time.Sleep(10 * time.Millisecond)
			ticks.Add(1)
		}
	}()
}

func cpuTime() time.Duration {
	var ru syscall.Rusage
	syscall.Getrusage(syscall.RUSAGE_SELF, &ru)
	return time.Duration(ru.Utime.Nano() + ru.Stime.Nano())
}

func relevantStack(s string) string {
	var keep []string
	for _, g := range strings.Split(s, "\n\n") {
		if strings.Contains(g, "lmorg/murex/lang.") && (strings.Contains(g, "waitProcess") || strings.Contains(g, "Execute")) {
			if len(g) > 1500 {
				g = g[:1500]
			}
			keep = append(keep, g)
			if len(keep) == 2 {
				break
			}
		}
	}
	return strings.Join(keep, "\n\n")
}

// CaptureFD2 redirects file descriptor 2 (where crash.Handler and uncaught panics write) into a
// pipe for the duration of fn and returns what was written.
func CaptureFD2(fn func()) string {
	r, w, err := os.Pipe()
	if err != nil {
		fn()
		return ""
	}
	saved, _ := syscall.Dup(2)
	oldStderr := os.Stderr
	syscall.Dup2(int(w.Fd()), 2)
	os.Stderr = w
	var buf bytes.Buffer
	done := make(chan struct{})
	go func() {
		b := make([]byte, 65536)
		for {
			n, err := r.Read(b)
			buf.Write(b[:n])
			if err != nil {
				break
			}
		}
		close(done)
	}()
	fn()
	os.Stderr = oldStderr
	syscall.Dup2(saved, 2)
	syscall.Close(saved)
	w.Close()
	<-done
	r.Close()
	return buf.String()
}

// HasPanicText reports whether s contains one of murex's internal-panic reports.
func HasPanicText(s string) bool {
	return strings.Contains(s, "panic caught") || strings.Contains(s, "Murex has crashed") || strings.Contains(s, "goroutine ") && strings.Contains(s, "panic:")
}
