package vlib

// Seqs enumerates every sequence over {0..k-1} of length minLen..maxLen, shortest first and in
// odometer order (last position fastest). fn returns false to stop.
func Seqs(k, minLen, maxLen int, fn func(idx []int) bool) {
	for n := minLen; n <= maxLen; n++ {
		idx := make([]int, n)
		for {
			if !fn(idx) {
				return
			}
			i := n - 1
			for i >= 0 {
				idx[i]++
				if idx[i] < k {
					break
				}
				idx[i] = 0
				i--
			}
			if i < 0 {
				break
			}
		}
	}
}

// Strings enumerates every concatenation of minLen..maxLen alphabet entries.
func Strings(alpha []string, minLen, maxLen int, fn func(s string, idx []int) bool) {
	buf := make([]byte, 0, 64)
	Seqs(len(alpha), minLen, maxLen, func(idx []int) bool {
		buf = buf[:0]
		for _, i := range idx {
			buf = append(buf, alpha[i]...)
		}
		return fn(string(buf), idx)
	})
}

// Product enumerates the cartesian product of the given radices (last fastest).
func Product(radix []int, fn func(idx []int) bool) {
	for _, r := range radix {
		if r == 0 {
			return
		}
	}
	idx := make([]int, len(radix))
	for {
		if !fn(idx) {
			return
		}
		i := len(radix) - 1
		for i >= 0 {
			idx[i]++
			if idx[i] < radix[i] {
				break
			}
			idx[i] = 0
			i--
		}
		if i < 0 {
			return
		}
	}
}

// Clip shortens s for evidence samples.
func Clip(s string, n int) string {
	if len(s) <= n {
		return s
	}
	return s[:n] + "…"
}
