// Package vlib: shared plumbing of every check — registration, sharded workers, evidence files,
// known findings, violation artefacts. It knows nothing about murex.
package vlib

import (
	"encoding/json"
	"flag"
	"fmt"
	"os"
	"os/exec"
	"path/filepath"
	"regexp"
	"sort"
	"strconv"
	"strings"
	"time"
)

const Root = "/verif"

// evidenceDir: /verif/evidence, or a scratch directory when a mutant overlay is active so that
// demonstration runs never overwrite the evidence of the real tree.
func evidenceDir() string {
	if os.Getenv("VERIF_OVERLAY") != "" {
		return filepath.Join(Root, ".work", "mut-evidence")
	}
	return filepath.Join(Root, "evidence")
}

// Check is one registered property check.
type Check struct {
	ID     string
	Engine string // E1..E4
	Rule   string // how cases are enumerated / what is non-trivial (goes into evidence)
	// Shards returns the number of worker processes for a tier (0 => 16).
	Shards func(tier string) int
	// Run executes this worker's share of the enumeration.
	Run func(c *Ctx)
	// Replay re-runs one witness (as stored in a replay artefact) through the same oracle.
	Replay func(c *Ctx, witness string)
	// Assumptions listed in evidence.
	Assumptions []string
	// Post is run in the parent after merging (optional, e.g. cross-shard vacuity assertions).
	Post func(m *Merged) error
}

var registry = map[string]*Check{}

func Register(c *Check) { registry[c.ID] = c }

// Violation is one oracle failure found by a worker.
type Violation struct {
	Clause  string `json:"clause"`  // which clause of the oracle failed (stable identifier)
	Witness string `json:"witness"` // the failing input / program / history / schedule, canonical text
	Detail  string `json:"detail"`  // observed vs expected
}

// Partial is what one worker reports.
type Partial struct {
	Evaluations int64            `json:"evaluations"`
	Nontrivial  int64            `json:"nontrivial"`
	States      int64            `json:"states"`
	Transitions int64            `json:"transitions"`
	Outcomes    map[string]int64 `json:"outcomes"`
	Samples     []any            `json:"samples"`
	Violations  []Violation      `json:"violations"`
	NViolations int64            `json:"nviolations"`
	Exhaustive  bool             `json:"exhaustive"`
	Notes       []string         `json:"notes"`
	Extra       map[string]int64 `json:"extra"`
	HarnessErr  string           `json:"harness_err"`
}

// Ctx is handed to a check's Run in a worker.
type Ctx struct {
	ID       string
	Tier     string
	Seed     int64
	Shard    int
	NShards  int
	Deadline time.Time
	WorkDir  string // private scratch directory of this worker (removed by the parent)
	P        Partial
	seenViol map[string]bool
	counter  uint64
}

func (c *Ctx) Quick() bool { return c.Tier != "thorough" }

// Mine reports whether case number i (in the check's own global enumeration order) belongs to this shard.
func (c *Ctx) Mine(i uint64) bool { return int(i%uint64(c.NShards)) == c.Shard }

// Next is a convenience: returns true if the next case of a sequential enumeration is ours.
func (c *Ctx) Next() bool { i := c.counter; c.counter++; return c.Mine(i) }

// Expired reports that the internal deadline passed; the check must stop and the run is reported
// as not exhaustive (never as a violation).
func (c *Ctx) Expired() bool {
	if time.Now().After(c.Deadline) {
		if c.P.Exhaustive {
			c.P.Exhaustive = false
			c.Note("internal deadline reached; enumeration stopped early")
		}
		return true
	}
	return false
}

func (c *Ctx) Note(f string, a ...any) {
	s := fmt.Sprintf(f, a...)
	for _, n := range c.P.Notes {
		if n == s {
			return
		}
	}
	if len(c.P.Notes) < 40 {
		c.P.Notes = append(c.P.Notes, s)
	}
}

// Eval counts one evaluated case. nontrivial per the check's stated rule; outcome is a short class
// label of what was observed (for the distinct-outcomes count).
func (c *Ctx) Eval(nontrivial bool, outcome string) {
	c.P.Evaluations++
	if nontrivial {
		c.P.Nontrivial++
	}
	if outcome != "" {
		if len(c.P.Outcomes) < 5000 || c.P.Outcomes[outcome] > 0 {
			c.P.Outcomes[outcome]++
		}
	}
}

func (c *Ctx) Extra(k string, n int64) { c.P.Extra[k] += n }

func (c *Ctx) Sample(s any) {
	if len(c.P.Samples) < 6 {
		c.P.Samples = append(c.P.Samples, s)
	}
}

// Violation records an oracle failure.
func (c *Ctx) Violation(clause, witness, detail string) {
	c.P.NViolations++
	k := clause + "\x00" + witness
	if c.seenViol[k] {
		return
	}
	c.seenViol[k] = true
	if len(c.P.Violations) < 400 {
		if len(detail) > 2000 {
			detail = detail[:2000] + "…"
		}
		c.P.Violations = append(c.P.Violations, Violation{clause, witness, detail})
	}
}

func (c *Ctx) HarnessError(f string, a ...any) {
	c.P.HarnessErr = fmt.Sprintf(f, a...)
	c.flush()
	fmt.Fprintln(os.Stderr, "HARNESS ERROR:", c.P.HarnessErr)
	os.Exit(2)
}

var outFile string

func (c *Ctx) flush() {
	b, _ := json.Marshal(&c.P)
	if outFile != "" {
		os.WriteFile(outFile, b, 0644)
	}
}

// ---------------------------------------------------------------------------------------------

// Finding is a line of known_findings.jsonl.
type Finding struct {
	Status   string `json:"status"` // "known" or "fixed"
	Property string `json:"property"`
	Clause   string `json:"clause"`
	Witness  string `json:"witness,omitempty"`       // exact witness
	Pattern  string `json:"witness_regex,omitempty"` // or a regular expression over the witness (anchored)
	What     string `json:"what"`
	Commit   string `json:"commit,omitempty"`
	re       *regexp.Regexp
}

func loadFindings(id string) []Finding {
	var out []Finding
	b, _ := os.ReadFile(filepath.Join(Root, "known_findings.jsonl"))
	extra, _ := filepath.Glob(filepath.Join(Root, "known_findings.d", "*.jsonl"))
	for _, f := range extra {
		x, _ := os.ReadFile(f)
		b = append(append(b, '\n'), x...)
	}
	for _, l := range strings.Split(string(b), "\n") {
		l = strings.TrimSpace(l)
		if l == "" || strings.HasPrefix(l, "#") {
			continue
		}
		var f Finding
		if err := json.Unmarshal([]byte(l), &f); err != nil {
			fmt.Fprintln(os.Stderr, "known_findings.jsonl: bad line:", l)
			os.Exit(2)
		}
		if f.Property != id || f.Status != "known" {
			continue
		}
		if f.Pattern != "" {
			f.re = regexp.MustCompile(`\A(?s:` + f.Pattern + `)\z`)
		}
		out = append(out, f)
	}
	return out
}

func (f *Finding) matches(v Violation) bool {
	if f.Clause != v.Clause {
		return false
	}
	if f.re != nil {
		return f.re.MatchString(v.Witness)
	}
	return f.Witness == v.Witness
}

// Merged is the parent's view after all workers finished.
type Merged struct {
	Partial
	Workers int
}

// Main is the entry point of a harness binary.
func Main() {
	if len(os.Args) < 2 {
		fmt.Fprintln(os.Stderr, "usage: vh <ID> [--tier quick|thorough] [--replay file]")
		os.Exit(2)
	}
	id := os.Args[1]
	fs := flag.NewFlagSet("vh", flag.ExitOnError)
	tier := fs.String("tier", os.Getenv("VERIF_TIER"), "quick|thorough")
	worker := fs.String("worker", "", "i/N (internal)")
	out := fs.String("out", "", "partial result file (internal)")
	replay := fs.String("replay", "", "replay artefact")
	deadline := fs.Duration("deadline", 0, "internal deadline override")
	fs.Parse(os.Args[2:])
	if *tier == "" {
		*tier = "quick"
	}
	ck := registry[id]
	if ck == nil {
		var ids []string
		for k := range registry {
			ids = append(ids, k)
		}
		sort.Strings(ids)
		fmt.Fprintf(os.Stderr, "unknown check %q (this binary has %v)\n", id, ids)
		os.Exit(2)
	}
	seed, _ := strconv.ParseInt(os.Getenv("VERIF_SEED"), 10, 64)
	dl := *deadline
	if dl == 0 {
		dl = 8 * time.Minute
		if *tier == "thorough" {
			dl = 45 * time.Minute
		}
	}
	if *replay != "" {
		runReplay(ck, *replay, *tier, seed)
		return
	}
	if *worker != "" {
		var i, n int
		fmt.Sscanf(*worker, "%d/%d", &i, &n)
		outFile = *out
		wd := filepath.Join(Root, ".work", "run", fmt.Sprintf("%s-%d-%d", id, os.Getppid(), i))
		os.MkdirAll(wd, 0755)
		c := newCtx(id, *tier, seed, i, n, dl, wd)
		ck.Run(c)
		c.flush()
		return
	}
	parent(ck, *tier, seed, dl)
}

func newCtx(id, tier string, seed int64, i, n int, dl time.Duration, wd string) *Ctx {
	c := &Ctx{ID: id, Tier: tier, Seed: seed, Shard: i, NShards: n, Deadline: time.Now().Add(dl), WorkDir: wd, seenViol: map[string]bool{}}
	c.P.Outcomes = map[string]int64{}
	c.P.Extra = map[string]int64{}
	c.P.Exhaustive = true
	return c
}

func runReplay(ck *Check, file, tier string, seed int64) {
	b, err := os.ReadFile(file)
	if err != nil {
		fmt.Fprintln(os.Stderr, err)
		os.Exit(2)
	}
	var art struct {
		Violation Violation `json:"violation"`
	}
	if err := json.Unmarshal(b, &art); err != nil {
		fmt.Fprintln(os.Stderr, err)
		os.Exit(2)
	}
	if ck.Replay == nil {
		fmt.Fprintln(os.Stderr, "check has no replay function")
		os.Exit(2)
	}
	wd := filepath.Join(Root, ".work", "run", fmt.Sprintf("%s-replay-%d", ck.ID, os.Getpid()))
	os.MkdirAll(wd, 0755)
	defer os.RemoveAll(wd)
	c := newCtx(ck.ID, tier, seed, 0, 1, 10*time.Minute, wd)
	ck.Replay(c, art.Violation.Witness)
	if len(c.P.Violations) > 0 {
		for _, v := range c.P.Violations {
			fmt.Printf("REPRODUCED clause=%s witness=%q\n  %s\n", v.Clause, v.Witness, v.Detail)
		}
		os.RemoveAll(wd)
		os.Exit(1)
	}
	fmt.Println("replay: no violation")
}

func parent(ck *Check, tier string, seed int64, dl time.Duration) {
	t0 := time.Now()
	n := 16
	if ck.Shards != nil {
		if k := ck.Shards(tier); k > 0 {
			n = k
		}
	}
	self, _ := os.Executable()
	tmp := filepath.Join(Root, ".work", "run")
	os.MkdirAll(tmp, 0755)
	type res struct {
		i    int
		err  error
		file string
		log  string
	}
	ch := make(chan res, n)
	for i := 0; i < n; i++ {
		go func(i int) {
			f := filepath.Join(tmp, fmt.Sprintf("%s-%d-%d.json", ck.ID, os.Getpid(), i))
			lg := filepath.Join(tmp, fmt.Sprintf("%s-%d-%d.log", ck.ID, os.Getpid(), i))
			lf, _ := os.Create(lg)
			cmd := exec.Command(self, ck.ID, "--tier", tier, "--worker", fmt.Sprintf("%d/%d", i, n), "--out", f, "--deadline", dl.String())
			cmd.Stdout = lf
			cmd.Stderr = lf
			gmp := os.Getenv("VERIF_WORKER_GOMAXPROCS")
			if gmp == "" {
				gmp = "2"
			}
			cmd.Env = append(os.Environ(), "GOMAXPROCS="+gmp)
			// a worker checks its deadline between cases; one that is stuck inside a single case (code under
			// test spinning where no scheduling point or ceiling applies) is killed well after the deadline and
			// the run is reported as not exhaustive — never as a violation, and never by waiting for ever
			err := cmd.Start()
			stuck := false
			if err == nil {
				done := make(chan error, 1)
				go func() { done <- cmd.Wait() }()
				select {
				case err = <-done:
				case <-time.After(dl + dl/2 + 3*time.Minute):
					cmd.Process.Kill()
					<-done
					stuck = true
				}
			}
			lf.Close()
			if stuck {
				b, _ := json.Marshal(Partial{Notes: []string{fmt.Sprintf("worker %d did not return %v after its internal deadline and was killed: its cases are not covered (inconclusive)", i, dl/2+3*time.Minute)}})
				os.WriteFile(f, b, 0644)
				err = nil
			}
			ch <- res{i, err, f, lg}
		}(i)
	}
	m := &Merged{Workers: n}
	m.Outcomes = map[string]int64{}
	m.Extra = map[string]int64{}
	m.Exhaustive = true
	harnessErr := ""
	seen := map[string]bool{}
	for k := 0; k < n; k++ {
		r := <-ch
		b, rerr := os.ReadFile(r.file)
		var p Partial
		if rerr != nil || json.Unmarshal(b, &p) != nil || r.err != nil {
			lg, _ := os.ReadFile(r.log)
			if len(lg) > 4000 {
				lg = append(append(append([]byte{}, lg[:2500]...), []byte("\n[...]\n")...), lg[len(lg)-1500:]...)
			}
			harnessErr = fmt.Sprintf("worker %d failed: %v %s\n%s", r.i, r.err, p.HarnessErr, lg)
		}
		os.Remove(r.file)
		os.Remove(r.log)
		os.RemoveAll(filepath.Join(tmp, fmt.Sprintf("%s-%d-%d", ck.ID, os.Getpid(), r.i)))
		m.Evaluations += p.Evaluations
		m.Nontrivial += p.Nontrivial
		m.States += p.States
		m.Transitions += p.Transitions
		m.NViolations += p.NViolations
		for o, c := range p.Outcomes {
			m.Outcomes[o] += c
		}
		for o, c := range p.Extra {
			m.Extra[o] += c
		}
		if len(m.Samples) < 8 {
			for _, s := range p.Samples {
				if len(m.Samples) < 8 {
					m.Samples = append(m.Samples, s)
				}
			}
		}
		for _, v := range p.Violations {
			kk := v.Clause + "\x00" + v.Witness
			if !seen[kk] {
				seen[kk] = true
				m.Violations = append(m.Violations, v)
			}
		}
		if !p.Exhaustive {
			m.Exhaustive = false
		}
		for _, nn := range p.Notes {
			dup := false
			for _, x := range m.Notes {
				dup = dup || x == nn
			}
			if !dup {
				m.Notes = append(m.Notes, nn)
			}
		}
	}
	if harnessErr != "" {
		fmt.Fprintln(os.Stderr, "HARNESS ERROR:", harnessErr)
		os.Exit(2)
	}
	if ck.Post != nil {
		if err := ck.Post(m); err != nil {
			fmt.Fprintln(os.Stderr, "HARNESS ERROR:", err)
			os.Exit(2)
		}
	}
	sort.Slice(m.Violations, func(i, j int) bool {
		a, b := m.Violations[i], m.Violations[j]
		if len(a.Witness) != len(b.Witness) {
			return len(a.Witness) < len(b.Witness)
		}
		return a.Witness < b.Witness
	})
	findings := loadFindings(ck.ID)
	known := map[int]int{}
	var fresh []Violation
	for _, v := range m.Violations {
		hit := -1
		for i := range findings {
			if findings[i].matches(v) {
				hit = i
				break
			}
		}
		if hit >= 0 {
			known[hit]++
		} else {
			fresh = append(fresh, v)
		}
	}
	for i, f := range findings {
		if known[i] > 0 {
			fmt.Printf("KNOWN-FINDING: property=%s %s (%d witnesses this run)\n", ck.ID, f.What, known[i])
		}
	}
	os.MkdirAll(filepath.Join(evidenceDir(), "replays"), 0755)
	old, _ := filepath.Glob(filepath.Join(evidenceDir(), "replays", ck.ID+"-*.json"))
	for _, o := range old {
		os.Remove(o)
	}
	for i, v := range fresh {
		if i >= 10 {
			break
		}
		path := filepath.Join(evidenceDir(), "replays", fmt.Sprintf("%s-%d.json", ck.ID, i))
		art := map[string]any{"property": ck.ID, "tier": tier, "violation": v, "replay_cmd": fmt.Sprintf("./vcheck %s --replay %s", ck.ID, path)}
		b, _ := json.MarshalIndent(art, "", " ")
		os.WriteFile(path, b, 0644)
		fmt.Printf("VIOLATION property=%s replay=%s\n", ck.ID, path)
		fmt.Printf("  clause=%s witness=%q\n  %s\n", v.Clause, v.Witness, v.Detail)
	}
	if b, err := json.MarshalIndent(m.Violations, "", " "); err == nil {
		os.WriteFile(filepath.Join(Root, ".work", "last-"+ck.ID+"-violations.json"), b, 0644)
	}
	if len(fresh) > 10 {
		fmt.Printf("  (+%d further distinct violations not written)\n", len(fresh)-10)
	}
	writeEvidence(ck, m, tier, seed, time.Since(t0), len(fresh), known, findings)
	fmt.Printf("%s tier=%s evaluations=%d nontrivial=%d outcomes=%d states=%d transitions=%d exhaustive=%v violations=%d known=%d wall=%.1fs\n",
		ck.ID, tier, m.Evaluations, m.Nontrivial, len(m.Outcomes), m.States, m.Transitions, m.Exhaustive, len(fresh), len(m.Violations)-len(fresh), time.Since(t0).Seconds())
	if len(fresh) > 0 {
		os.Exit(1)
	}
}

func writeEvidence(ck *Check, m *Merged, tier string, seed int64, wall time.Duration, nviol int, known map[int]int, findings []Finding) {
	cov := map[string]any{
		"evaluations":         m.Evaluations,
		"distinct_nontrivial": m.Nontrivial,
		"distinct_outcomes":   len(m.Outcomes),
		"rule":                ck.Rule,
		"samples":             m.Samples,
		"exhaustive":          m.Exhaustive,
		"workers":             m.Workers,
	}
	if len(m.Samples) == 0 {
		cov["samples"] = []any{"(no case was evaluated)"}
	}
	if m.States > 0 {
		cov["states"] = m.States
		cov["transitions"] = m.Transitions
		// every explored transition is an execution of the real code: no separate model
		cov["traces_validated_against_impl"] = m.Evaluations
	}
	if len(m.Notes) > 0 {
		cov["notes"] = m.Notes
	}
	if len(m.Extra) > 0 {
		cov["counters"] = m.Extra
	}
	// the most frequent outcome classes, for the reader
	type oc struct {
		K string
		N int64
	}
	var ocs []oc
	for k, n := range m.Outcomes {
		ocs = append(ocs, oc{k, n})
	}
	sort.Slice(ocs, func(i, j int) bool { return ocs[i].N > ocs[j].N || ocs[i].N == ocs[j].N && ocs[i].K < ocs[j].K })
	if len(ocs) > 12 {
		ocs = ocs[:12]
	}
	top := map[string]int64{}
	for _, o := range ocs {
		top[o.K] = o.N
	}
	cov["top_outcomes"] = top
	var kf []string
	for i, f := range findings {
		if known[i] > 0 {
			kf = append(kf, fmt.Sprintf("%s: %s (%d witnesses)", f.Clause, f.What, known[i]))
		}
	}
	ev := map[string]any{
		"property_id": ck.ID,
		"tier":        tier,
		"seed":        seed,
		"level":       "model_checking",
		"engine":      ck.Engine,
		"coverage":    cov,
		"assumptions": append([]string{"no random choice is made anywhere; VERIF_SEED is recorded only"}, ck.Assumptions...),
		"wall_s":      wall.Seconds(),
		"violations":  nviol,
	}
	if len(kf) > 0 {
		ev["known_findings_seen"] = kf
	}
	b, _ := json.MarshalIndent(ev, "", " ")
	os.MkdirAll(evidenceDir(), 0755)
	os.WriteFile(filepath.Join(evidenceDir(), ck.ID+".json"), b, 0644)
}

// HarnessFlush writes the partial result now (used by watchdogs that are about to leave the process).
func (c *Ctx) HarnessFlush() { c.flush() }
