//go:build race

package sched

// RaceBuild: the harness is built with the race detector (C32). State dumpers read murex fields without
// locks from the scheduler's context, which the detector would rightly report, so they are disabled.
const RaceBuild = true
