//go:build !race

package sched

const RaceBuild = false
