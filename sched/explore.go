// Package sched: stateless depth-first exploration of thread interleavings of the real murex code
// under the vsched controlled scheduler, with iterative preemption bounding (CHESS-style).
// It only compiles under the source overlay (the vsched package is a virtual package of the murex module).
package sched

import (
	"fmt"
	"hash/fnv"
	"os"
	"strconv"
	"strings"
	"time"

	"verif/vlib"

	"verif/shim/vsched"
)

// Outcome is the oracle's verdict on one complete execution.
type Outcome struct {
	Key        string // canonical observation (for the distinct-outcomes count and determinism test)
	Clause     string // "" = no violation
	Detail     string
	NonTrivial bool
}

// Instance is one fresh run of a scenario.
type Instance struct {
	Dump    func() uint64                     // optional: hash of the shared state (enables state-hash pruning)
	Body    func()                            // thread 0
	Finish  func(e *vsched.Execution) Outcome // oracle, after the execution ended
	Monitor func()                            // optional: invariant evaluated at every scheduling point
}

type Scenario struct {
	Name string
	New  func() *Instance
	// PreemptAt restricts where a *preemption* (switching away from a still-enabled thread) is
	// offered; nil = at every scheduling point. Forced switches are never restricted.
	PreemptAt func(p *vsched.Point) bool
	MaxSteps  int64
}

type dev struct {
	idx, alt    int
	thread, nEn int // what the parent execution saw at that point (divergence detection)
}

type Stats struct {
	Execs, Points, Violations int64
	MaxThreads                int
	BoundCompleted            int
	Capped                    bool
}

type Explorer struct {
	C     *vlib.Ctx
	Sc    *Scenario
	Bound int
	St    Stats
	child uint64
	Whole bool // this worker explores the whole tree of the scenario (scenario-level sharding)
	// DevBounded: every non-default choice (also a forced switch to a thread other than the lowest
	// enabled one) counts against the bound, not only preemptions. Used for whole-interpreter drivers
	// whose polling loops offer a free alternative at almost every point.
	DevBounded bool
	visited    map[uint64]bool
	Pruned     int64
	// After is called after every recorded execution with its schedule (C32 reads the race log there).
	After func(schedule string)
}

func schedString(devs []dev) string {
	var parts []string
	for _, d := range devs {
		if d.idx < 0 {
			parts = append(parts, fmt.Sprintf("p%d", d.alt))
			continue
		}
		parts = append(parts, fmt.Sprintf("%d:%d", d.idx, d.alt))
	}
	return strings.Join(parts, ",")
}

// Witness encodes scenario + schedule: "<scenario>|<idx:alt,idx:alt,...>".
func Witness(sc string, devs []dev) string { return sc + "|" + schedString(devs) }

func ParseWitness(w string) (string, []dev, error) {
	i := strings.LastIndex(w, "|")
	if i < 0 {
		return "", nil, fmt.Errorf("bad witness")
	}
	var devs []dev
	if w[i+1:] != "" {
		for _, p := range strings.Split(w[i+1:], ",") {
			if len(p) == 2 && p[0] == 'p' {
				devs = append(devs, dev{idx: -1, alt: int(p[1] - '0'), thread: -1})
				continue
			}
			a, b, ok := strings.Cut(p, ":")
			x, e1 := strconv.Atoi(a)
			y, e2 := strconv.Atoi(b)
			if !ok || e1 != nil || e2 != nil {
				return "", nil, fmt.Errorf("bad witness element %q", p)
			}
			devs = append(devs, dev{idx: x, alt: y, thread: -1})
		}
	}
	return w[:i], devs, nil
}

// RunOnce executes the scenario under the given deviations (default choice 0 everywhere else).
func RunOnce(sc *Scenario, devs []dev) (*vsched.Execution, Outcome, string) {
	inst := sc.New()
	if RaceBuild {
		inst.Dump = nil
		inst.Monitor = nil
	}
	var vd []vsched.Dev
	policy := 0
	for _, d := range devs {
		if d.idx < 0 {
			policy = d.alt
			continue
		}
		vd = append(vd, vsched.Dev{Idx: d.idx, Alt: d.alt, Thread: d.thread, NEn: d.nEn})
	}
	e := vsched.Run(vsched.Config{Devs: vd, Policy: policy, MaxSteps: sc.MaxSteps, Monitor: inst.Monitor, Dump: inst.Dump}, inst.Body)
	diverged := e.Diverged
	if e.Horizon && os.Getenv("VERIF_DEBUG") != "" {
		n := len(e.Trace)
		for _, p := range e.Trace[n-30:] {
			fr := vsched.SiteFrames(p.Site)
			f := ""
			if len(fr) > 1 {
				f = fr[0] + " < " + fr[1]
			}
			fmt.Printf("t%d %v en=%v -> %d   %s\n", p.Thread, p.Kind, p.Enabled, p.Chosen, f)
		}
	}
	if e.Horizon {
		return e, Outcome{}, "step horizon reached (possible livelock in the harness or in murex; not a verdict)"
	}
	if diverged != "" {
		return e, Outcome{}, diverged
	}
	o := inst.Finish(e)
	if o.Clause == "" && len(e.Panics) > 0 {
		o.Clause, o.Detail = "no-goroutine-panic", vlib.Clip(e.Panics[0], 1500)
	}
	if o.Clause == "" && e.Livelock {
		o.Clause, o.Detail = "no-livelock", "every remaining thread spins on a condition nobody can change: "+strings.Join(e.Blocked, "; ")
	}
	if o.Clause == "" && e.Deadlock {
		o.Clause, o.Detail = "no-deadlock", strings.Join(e.Blocked, "; ")
	}
	return e, o, ""
}

func traceSig(e *vsched.Execution) uint64 {
	h := fnv.New64a()
	for _, p := range e.Trace {
		fmt.Fprintf(h, "%d/%d/%d/%v/%d;", p.Thread, p.Kind, p.Site, p.Enabled, p.Chosen)
	}
	return h.Sum64()
}

// ExploreStates: unbounded-preemption search of the reachable state graph of the driver. Every
// alternative at every scheduling point is explored unless the state of the closed system at that point
// (Point.Key) has been seen before in this worker: thread code is deterministic, so equal keys have equal
// futures. Requires Instance.Dump.
func (x *Explorer) ExploreStates() bool {
	x.SelfTest()
	x.visited = map[uint64]bool{}
	x.child = 0
	ok := x.exploreStates(nil, 0)
	x.C.P.States += int64(len(x.visited))
	return ok
}

func (x *Explorer) exploreStates(devs []dev, depth int) bool {
	if x.C.Expired() {
		return false
	}
	if x.C.P.NViolations >= 40 {
		x.C.P.Exhaustive = false
		return false
	}
	e, o, herr := RunOnce(x.Sc, devs)
	if herr != "" {
		x.C.HarnessError("%s schedule %s: %s", x.Sc.Name, schedString(devs), herr)
	}
	x.record(e, o, devs, len(devs))
	start := 0
	if len(devs) > 0 {
		start = devs[len(devs)-1].idx + 1
	}
	for i := start; i < len(e.Trace); i++ {
		p := &e.Trace[i]
		if vsched.DebugKeys {
			dbgDumps[p.DbgDump] = true
			for ti, l := range p.DbgLocals {
				dbgLocals[[2]uint64{uint64(ti), l}] = true
			}
		}
		if x.visited[p.Key] {
			x.Pruned++
			break // everything reachable from here has been (or is being) explored from the first visit
		}
		x.visited[p.Key] = true
		for alt := 1; alt < len(p.Enabled); alt++ {
			if depth == 0 {
				k := x.child
				x.child++
				if !x.Whole && !x.C.Mine(k) {
					continue
				}
			}
			nd := append(append([]dev{}, devs...), dev{i, alt, p.Thread, len(p.Enabled)})
			if !x.exploreStates(nd, depth+1) {
				return false
			}
		}
	}
	return true
}

// SelfTest: the same schedule twice must give identical point sequences and observations.
func (x *Explorer) SelfTest() {
	e1, o1, err1 := RunOnce(x.Sc, nil)
	e2, o2, err2 := RunOnce(x.Sc, nil)
	if err1 != "" || err2 != "" {
		x.C.HarnessError("%s: default schedule: %s %s", x.Sc.Name, err1, err2)
	}
	if traceSig(e1) != traceSig(e2) || o1.Key != o2.Key {
		x.C.HarnessError("%s: determinism self-test failed on the default schedule (%d vs %d points, %q vs %q)", x.Sc.Name, len(e1.Trace), len(e2.Trace), o1.Key, o2.Key)
	}
	// and a deviated one: the last point that offers an alternative
	for i := len(e1.Trace) - 1; i >= 0; i-- {
		if len(e1.Trace[i].Enabled) > 1 {
			d := []dev{{i, 1, e1.Trace[i].Thread, len(e1.Trace[i].Enabled)}}
			a, oa, ea := RunOnce(x.Sc, d)
			b, ob, eb := RunOnce(x.Sc, d)
			if ea != "" || eb != "" || traceSig(a) != traceSig(b) || oa.Key != ob.Key {
				x.C.HarnessError("%s: determinism self-test failed on schedule %s: %s %s", x.Sc.Name, schedString(d), ea, eb)
			}
			break
		}
	}
}

// Explore runs the iterative preemption-bounded DFS, bound 0..x.Bound, sharded over workers by the
// root's children. Returns false when the deadline stopped it.
func (x *Explorer) Explore() bool {
	x.SelfTest()
	x.St.BoundCompleted = -1
	for b := 0; b <= x.Bound; b++ {
		x.child = 0
		if !x.explore(nil, 0, b, 0) {
			x.St.Capped = true
			return false
		}
		if x.DevBounded {
			// the same bound around the second default schedule (youngest runnable thread first)
			x.child = 0
			if !x.explore([]dev{{idx: -1, alt: 1, thread: -1}}, 0, b, 0) {
				x.St.Capped = true
				return false
			}
		}
		x.St.BoundCompleted = b
	}
	return true
}

func (x *Explorer) explore(devs []dev, cost, bound, depth int) bool {
	if x.C.Expired() {
		return false
	}
	if x.C.P.NViolations >= 40 {
		// plenty of counterexamples already: stop this worker's search (the run fails anyway)
		x.C.P.Exhaustive = false
		x.C.Note("search stopped after 40 violations in this worker")
		return false
	}
	e, o, herr := RunOnce(x.Sc, devs)
	if herr != "" {
		x.C.HarnessError("%s schedule %s: %s", x.Sc.Name, schedString(devs), herr)
	}
	// count an execution only in the iteration whose bound equals its cost (no double counting)
	if cost == bound {
		x.record(e, o, devs, cost)
	}
	start := 0
	if len(devs) > 0 && devs[len(devs)-1].idx >= 0 {
		start = devs[len(devs)-1].idx + 1
	}
	for i := start; i < len(e.Trace); i++ {
		p := &e.Trace[i]
		if len(p.Enabled) < 2 {
			continue
		}
		c := cost
		if p.RunningEnabled {
			c++
			if c > bound {
				continue
			}
			if x.Sc.PreemptAt != nil && !x.Sc.PreemptAt(p) {
				continue
			}
		} else if x.DevBounded {
			c++
			if c > bound {
				continue
			}
		}
		for alt := 1; alt < len(p.Enabled); alt++ {
			if depth == 0 {
				// shard the root's children over the workers
				k := x.child
				x.child++
				if !x.Whole && !x.C.Mine(k) {
					continue
				}
			}
			nd := append(append([]dev{}, devs...), dev{i, alt, p.Thread, len(p.Enabled)})
			if !x.explore(nd, c, bound, depth+1) {
				return false
			}
		}
	}
	return true
}

func (x *Explorer) record(e *vsched.Execution, o Outcome, devs []dev, cost int) {
	if (len(devs) == 0 || len(devs) == 1 && devs[0].idx < 0) && x.C.Shard != 0 && !x.Whole {
		return // the root execution is counted by worker 0 only
	}
	x.St.Execs++
	x.St.Points += int64(len(e.Trace))
	if e.NThreads > x.St.MaxThreads {
		x.St.MaxThreads = e.NThreads
	}
	x.C.P.Transitions += int64(len(e.Trace))
	x.C.Eval(cost > 0 && o.NonTrivial, x.Sc.Name+": "+vlib.Clip(o.Key, 80))
	if x.After != nil {
		x.After(schedString(devs))
	}
	if x.St.Execs%997 == 1 {
		x.C.Sample(map[string]any{"scenario": x.Sc.Name, "schedule": schedString(devs), "points": len(e.Trace), "threads": e.NThreads, "observed": vlib.Clip(o.Key, 200)})
	}
	if o.Clause != "" {
		// re-execute 5 times from the recorded schedule before believing it
		for r := 0; r < 5; r++ {
			_, o2, herr := RunOnce(x.Sc, devs)
			if herr != "" || o2.Clause != o.Clause {
				x.C.HarnessError("%s: violation %q on schedule %s did not reproduce (run %d: %q %s)", x.Sc.Name, o.Clause, schedString(devs), r, o2.Clause, herr)
			}
		}
		x.St.Violations++
		x.C.Violation(o.Clause, Witness(x.Sc.Name, devs), o.Detail+"\nobserved: "+vlib.Clip(o.Key, 400))
	}
}

// Replay re-runs one witness.
func Replay(c *vlib.Ctx, scs []*Scenario, w string) {
	name, devs, err := ParseWitness(w)
	if err != nil {
		c.HarnessError("%v", err)
	}
	for _, sc := range scs {
		if sc.Name == name {
			e, o, herr := RunOnce(sc, devs)
			if herr != "" {
				c.HarnessError("%s", herr)
			}
			fmt.Printf("replayed %s: %d points, %d threads, observed %s\n", w, len(e.Trace), e.NThreads, vlib.Clip(o.Key, 300))
			if o.Clause != "" {
				c.Violation(o.Clause, w, o.Detail)
			}
			return
		}
	}
	c.HarnessError("scenario %q not found", name)
}

// RunAll explores every scenario with the given bound and fills the context counters.
func RunAll(c *vlib.Ctx, scs []*Scenario, bound int) { runAll(c, scs, bound, false, false) }

// RunAllByScenario shards by scenario instead of by subtree (many small scenarios).
func RunAllByScenario(c *vlib.Ctx, scs []*Scenario, bound int) { runAll(c, scs, bound, true, false) }

// RunAllDev: deviation-bounded (see Explorer.DevBounded), sharded by subtree.
func RunAllDev(c *vlib.Ctx, scs []*Scenario, bound int) { runAll(c, scs, bound, false, true) }

var dbgDumps = map[uint64]bool{}
var dbgLocals = map[[2]uint64]bool{}

// RunAllStates: unbounded-preemption reachable-state search (ExploreStates), sharded by scenario.
func RunAllStates(c *vlib.Ctx, scs []*Scenario) {
	var execs int64
	done := 0
	for i, sc := range scs {
		if only := os.Getenv("VERIF_ONLY"); only != "" {
			if !strings.Contains(sc.Name, only) {
				continue
			}
		} else if !c.Mine(uint64(i)) {
			continue
		}
		x := &Explorer{C: c, Sc: sc, Whole: true}
		vsched.DebugKeys = os.Getenv("VERIF_DEBUGKEYS") != ""
		t0 := time.Now()
		ok := x.ExploreStates()
		if vsched.DebugKeys {
			per := map[uint64]int{}
			for k := range dbgLocals {
				per[k[0]]++
			}
			fmt.Printf("distinct dumps=%d, distinct (thread,control-state)=%v\n", len(dbgDumps), per)
		}
		if os.Getenv("VERIF_ONLY") != "" {
			fmt.Printf("%s: execs=%d states=%d pruned=%d %v\n", sc.Name, x.St.Execs, len(x.visited), x.Pruned, time.Since(t0))
		}
		execs += x.St.Execs
		c.Extra("states-pruned", x.Pruned)
		if !ok {
			c.Note("scenario %s: stopped before the reachable-state search finished", sc.Name)
			break
		}
		done++
	}
	c.Extra("executions", execs)
	c.Extra("scenarios-fully-explored", int64(done))
	c.Note("unbounded preemptions: the search ends when every reachable state of the driver has been expanded")
}

// RunAllDevWhole: deviation-bounded, the caller has already selected this worker's scenarios.
func RunAllDevWhole(c *vlib.Ctx, scs []*Scenario, bound int) {
	minBound := bound
	var execs int64
	for _, sc := range scs {
		x := &Explorer{C: c, Sc: sc, Bound: bound, Whole: true, DevBounded: true}
		ok := x.Explore()
		execs += x.St.Execs
		if x.St.BoundCompleted < minBound {
			minBound = x.St.BoundCompleted
		}
		if !ok {
			c.Note("scenario %s: deadline reached at bound %d (completed bound %d)", sc.Name, bound, x.St.BoundCompleted)
			break
		}
	}
	c.P.States += execs
	c.Extra("executions", execs)
	c.Note("deviation bound completed for every scenario of this worker: %d (requested %d)", minBound, bound)
}

func runAll(c *vlib.Ctx, scs []*Scenario, bound int, byScenario, devBounded bool) {
	minBound := bound
	var execs int64
	for i, sc := range scs {
		if byScenario && !c.Mine(uint64(i)) {
			continue
		}
		x := &Explorer{C: c, Sc: sc, Bound: bound, Whole: byScenario, DevBounded: devBounded}
		ok := x.Explore()
		execs += x.St.Execs
		if x.St.BoundCompleted < minBound {
			minBound = x.St.BoundCompleted
		}
		c.Extra("executions", x.St.Execs)
		if x.St.MaxThreads > 0 {
			c.Extra("max-threads:"+sc.Name, 0)
		}
		if !ok {
			c.Note("scenario %s: deadline reached at preemption bound %d (completed bound %d)", sc.Name, bound, x.St.BoundCompleted)
			break
		}
	}
	c.P.States += execs // each complete execution is one explored schedule
	c.Note("preemption bound completed for every scenario by this worker: %d (requested %d)", minBound, bound)
}
