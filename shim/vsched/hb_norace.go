//go:build !race

package vsched

import "unsafe"

func HBRelease(p unsafe.Pointer) {}
func HBAcquire(p unsafe.Pointer) {}
