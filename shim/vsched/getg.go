package vsched

func getg() uintptr
