//go:build !vrace

package vsched

// gate: hand-off of the token (normal builds: a buffered channel). init is called by the token holder
// before any other goroutine can touch the gate; the `forever` gates are only ever waited on.
type gate struct{ c chan struct{} }

func (g *gate) init() { g.c = make(chan struct{}, 1) }

func (g *gate) wait() {
	if g.c == nil {
		g.c = make(chan struct{}, 1)
	}
	<-g.c
}

func (g *gate) open() { g.c <- struct{}{} }
