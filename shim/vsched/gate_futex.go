//go:build vrace

package vsched

import (
	"syscall"
	"unsafe"
)

// gate: futex hand-off without any Go-level synchronisation, so that (with this package compiled
// uninstrumented) the race detector sees no happens-before edge between scheduler hand-offs.
type gate struct{ w uint32 }

func (g *gate) init() {}

func (g *gate) wait() {
	for {
		if g.w != 0 {
			g.w = 0
			return
		}
		syscall.Syscall6(syscall.SYS_FUTEX, uintptr(unsafe.Pointer(&g.w)), 0 /*FUTEX_WAIT*/, 0, 0, 0, 0)
	}
}

func (g *gate) open() {
	g.w = 1
	syscall.Syscall6(syscall.SYS_FUTEX, uintptr(unsafe.Pointer(&g.w)), 1 /*FUTEX_WAKE*/, 1, 0, 0, 0)
}
