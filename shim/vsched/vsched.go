// Package vsched: cooperative controlled scheduler. PROTOTYPE.
package vsched

import (
	"fmt"
	"runtime"
	"syscall"
	"unsafe"
)

// gate: futex-based hand-off with no Go-level synchronisation (invisible to the race detector
// when this package is compiled without instrumentation).
type gate struct{ w uint32 }

func (g *gate) wait() {
	for {
		if g.w != 0 {
			g.w = 0
			return
		}
		syscall.Syscall6(syscall.SYS_FUTEX, uintptr(unsafe.Pointer(&g.w)), 0 /*FUTEX_WAIT*/, 0, 0, 0, 0)
	}
}

func (g *gate) open() {
	g.w = 1
	syscall.Syscall6(syscall.SYS_FUTEX, uintptr(unsafe.Pointer(&g.w)), 1 /*FUTEX_WAKE*/, 1, 0, 0, 0)
}

type OpKind int

const (
	OpStart OpKind = iota
	OpLock
	OpUnlock
	OpRLock
	OpRUnlock
	OpWait
	OpWGDone
	OpSend
	OpRecv
	OpYield
	OpGo
	OpContinue
	OpExit
)

var kindNames = [...]string{"start", "lock", "unlock", "rlock", "runlock", "wgwait", "wgdone", "send", "recv", "yield", "go", "cont", "exit"}

func (k OpKind) String() string { return kindNames[k] }

// Op is a pending operation of a parked thread.
type Op struct {
	Kind    OpKind
	Obj     any         // mutex / waitgroup / channel identity
	Enabled func() bool // nil = always
	Site    uint64
}

type Thread struct {
	ID       int
	goid     int64
	gate     gate
	pending  Op
	finished bool
	yielding bool
	blockedBy map[int]bool // fair scheduling: threads that must run before this one
	own  int64            // steps taken by this thread
	seen map[uint64]int64 // site -> foreign step count at last visit
}

type Point struct {
	Thread  int
	Kind    OpKind
	Site    uint64
	Enabled []int
	Chosen  int
}

type Explorer struct {
	threads  []*Thread
	cur      *Thread
	steps    int64
	Trace    []Point
	done     gate
	finishedRun bool
	Deadlock bool
	Horizon  bool
	Choose   func(p *Point) int // returns index into p.Enabled
	Panics   []string
}

var active *Explorer

func Active() *Explorer { return active }

func goid() int64 {
	var buf [64]byte
	n := runtime.Stack(buf[:], false)
	// "goroutine 123 ["
	var id int64
	for i := 10; i < n && buf[i] >= '0' && buf[i] <= '9'; i++ {
		id = id*10 + int64(buf[i]-'0')
	}
	return id
}

// Self returns the controlled thread of the calling goroutine or nil. Only the token holder can
// be a controlled running thread, so identity = "am I e.cur".
func Self() (*Explorer, *Thread) {
	e := active
	if e == nil {
		return nil, nil
	}
	c := e.cur
	if c == nil || c.goid != goid() {
		return nil, nil
	}
	return e, c
}

func site() uint64 {
	var pcs [6]uintptr
	n := runtime.Callers(4, pcs[:])
	h := uint64(1469598103934665603)
	for _, pc := range pcs[:n] {
		h = (h ^ uint64(pc)) * 1099511628211
	}
	return h
}

// Run executes main as thread 0 under the explorer and returns when all threads finished or deadlock.
func Run(choose func(p *Point) int, main func()) *Explorer {
	e := &Explorer{Choose: choose}
	if active != nil {
		panic("explorer already active")
	}
	active = e
	t := e.newThread()
	e.cur = t
	go e.body(t, main)
	t.gate.open()
	e.done.wait()
	active = nil
	return e
}

func (e *Explorer) newThread() *Thread {
	t := &Thread{ID: len(e.threads)}
	t.pending = Op{Kind: OpStart}
	e.threads = append(e.threads, t)
	return t
}

func (e *Explorer) body(t *Thread, fn func()) {
	t.gate.wait()
	t.goid = goid()
	defer func() {
		if r := recover(); r != nil {
			buf := make([]byte, 4096)
			buf = buf[:runtime.Stack(buf, false)]
			e.Panics = append(e.Panics, fmt.Sprintf("thread %d: %v\n%s", t.ID, r, buf))
		}
		t.finished = true
		e.schedule(t, true)
	}()
	fn()
}

// Go spawns a controlled thread (or a plain goroutine when inactive).
func Go(fn func()) {
	e, t := Self()
	if e == nil {
		go fn()
		return
	}
	n := e.newThread()
	go e.body(n, fn)
	e.point(t, Op{Kind: OpGo})
}

// PointOp is called by shims: the calling thread wants to perform op.
func PointOp(e *Explorer, t *Thread, op Op) { e.point(t, op) }

func (e *Explorer) point(t *Thread, op Op) {
	op.Site = site()
	// spin detection: same site again and nobody else stepped since
	foreign := e.steps - t.own
	if t.seen == nil {
		t.seen = map[uint64]int64{}
	}
	if v, ok := t.seen[op.Site]; ok && v == foreign && op.Kind != OpYield {
		t.yielding = true // completed a loop iteration with nobody else stepping
	}
	t.seen[op.Site] = foreign
	if op.Kind == OpYield {
		t.yielding = true
	}
	t.pending = op
	e.schedule(t, false)
}

func (th *Thread) enabled() bool {
	if th.finished {
		return false
	}
	if th.pending.Enabled != nil && !th.pending.Enabled() {
		return false
	}
	return true
}

// schedule: t holds the token; pick the next thread.
func (e *Explorer) schedule(t *Thread, exiting bool) {
	var en, enYield []int
	isEn := map[int]bool{}
	for _, th := range e.threads {
		if th.enabled() {
			isEn[th.ID] = true
		}
	}
	// a thread that just yielded must wait for every other currently enabled thread
	if t.yielding && !t.finished {
		t.blockedBy = map[int]bool{}
		for id := range isEn {
			if id != t.ID {
				t.blockedBy[id] = true
			}
		}
		t.yielding = false
	}
	for _, th := range e.threads {
		if !isEn[th.ID] {
			continue
		}
		blocked := false
		for id := range th.blockedBy {
			if isEn[id] {
				blocked = true
			}
		}
		if blocked {
			enYield = append(enYield, th.ID)
		} else {
			en = append(en, th.ID)
		}
	}
	if len(en) == 0 && len(enYield) > 0 {
		// priority cycle among yielders only: release them all
		en = enYield
		for _, id := range en {
			e.threads[id].blockedBy = nil
		}
	}
	if len(en) == 0 {
		unfinished := 0
		for _, th := range e.threads {
			if !th.finished {
				unfinished++
			}
		}
		if unfinished > 0 {
			e.Deadlock = true
		}
		e.finish()
		if !exiting {
			var forever gate
			forever.wait() // park forever (leaked)
		}
		return
	}
	// canonical order: current thread first if enabled
	for i, id := range en {
		if id == t.ID && i != 0 {
			copy(en[1:i+1], en[:i])
			en[0] = id
		}
	}
	p := Point{Thread: t.ID, Kind: t.pending.Kind, Site: t.pending.Site, Enabled: en}
	idx := 0
	if e.Choose != nil {
		idx = e.Choose(&p)
	}
	p.Chosen = en[idx]
	e.Trace = append(e.Trace, p)
	e.steps++
	if e.steps > 20000 {
		e.Horizon = true
		e.Deadlock = true
		e.finish()
		var forever gate
		forever.wait()
	}
	next := e.threads[p.Chosen]
	for _, th := range e.threads {
		delete(th.blockedBy, next.ID)
	}
	next.own++
	if next == t {
		return
	}
	e.cur = next
	next.gate.open()
	if exiting {
		return
	}
	t.gate.wait()
}

func (e *Explorer) finish() {
	if !e.finishedRun {
		e.finishedRun = true
		e.cur = nil
		e.done.open()
	}
}
