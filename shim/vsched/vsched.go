// Package vsched: cooperative controlled scheduler. It is compiled into the murex module as the virtual
// package verif/shim/vsched through a go build overlay; the rewritten murex sources
// call it at every synchronisation operation. Exactly one controlled thread runs at a time; at every
// scheduling point the Choose callback of the active explorer decides who runs next.
//
// No Go maps, channels (race builds) or mutexes are used here: in race-detector builds this package is
// compiled without instrumentation and its hand-offs must not create happens-before edges.
package vsched

import (
	"fmt"
	"runtime"
	"unsafe"
)

// execBarrier: every controlled thread releases it when it ends and Run acquires it once the
// execution is over, so (for the race detector) everything an execution did happens-before whatever
// the explorer and later executions do. No edge between threads of one execution is created.
var execBarrier byte

type OpKind uint8

const (
	OpStart OpKind = iota
	OpLock
	OpUnlock
	OpRLock
	OpRUnlock
	OpWait
	OpWGDone
	OpSend
	OpRecv
	OpYield
	OpGo
	OpUser
	OpExit
)

var kindNames = [...]string{"start", "lock", "unlock", "rlock", "runlock", "wgwait", "wgdone", "send", "recv", "yield", "go", "user", "exit"}

func (k OpKind) String() string { return kindNames[k] }

// Op is the operation a parked thread wants to perform next.
type Op struct {
	Kind    OpKind
	Obj     any         // mutex / waitgroup / channel identity (for the enabledness predicate)
	Enabled func() bool // nil = always enabled
	Site    uint64      // hash of the call-site PC chain
}

type siteSeen struct {
	site    uint64
	foreign int64
	dump    uint64
}

type Thread struct {
	ID        int
	g         uintptr
	gate      gate
	pending   Op
	finished  bool
	yielding  bool
	blockedBy []bool     // fair scheduling: ids that must be scheduled (or become disabled) before this one
	own       int64      // scheduling decisions that chose this thread
	local     uint64     // hash of (site, shared dump) at the points where this thread was resumed in its current operation
	bases     []siteSeen // (site, local hash on first arrival) in arrival order: a revisit is a loop back-edge
	cyc       [3]uint64  // the (at most 3) distinct sites of the thread's current tight loop
	cycN      int
	cycRun    int // consecutive arrivals at sites of cyc
	seen      []siteSeen
	Name      string
}

// Point is one scheduling decision.
type Point struct {
	Thread  int // thread that arrived at the point (token holder)
	Kind    OpKind
	Site    uint64
	Enabled []int // canonical order: the arriving thread first if it is still enabled, then ascending ids
	Chosen  int   // thread id chosen
	Choice  int   // index into Enabled
	// RunningEnabled: Enabled[0] is the arriving thread, i.e. choosing another index is a preemption.
	RunningEnabled bool
	Key            uint64 // state key before the choice (only with Config.Dump)
	DbgDump        uint64
	DbgLocals      []uint64
}

// Dev is one deviation from the default schedule: at scheduling point Idx take alternative Alt.
// Thread/NEn (when Thread >= 0) are what the parent execution saw there; a mismatch is a divergence.
type Dev struct{ Idx, Alt, Thread, NEn int }

type Config struct {
	Devs []Dev // the schedule: default choice 0 everywhere except at these points
	// Policy orders the alternatives at a point: the arriving thread always comes first when it is still
	// enabled; the others follow in ascending (0) or descending (1) thread id, i.e. at a forced switch
	// the default is the oldest (0) or the youngest (1) runnable thread.
	Policy   int
	Choose   func(p *Point) int // optional callback instead of Devs (must not be used in race builds)
	MaxSteps int64              // horizon; 0 = 1e6
	Monitor  func()             // called at every scheduling point with every controlled thread parked
	// Dump, when set, returns a hash of the shared state the driver's threads can observe. It enables
	// Point.Key, a hash of the complete state of the closed system (shared state + every thread's
	// control state, the latter derived from what the thread has observed at its own scheduling points).
	Dump func() uint64
}

type Execution struct {
	cfg           Config
	devK          int
	threads       []*Thread
	cur           *Thread
	steps         int64
	Trace         []Point
	Steps         int64
	done          gate
	finished      bool
	Deadlock      bool   // no enabled thread, some unfinished
	Livelock      bool   // only spinning threads remain and the state they spin on does not change
	sinceProgress int    // scheduling points since a thread last arrived outside its current tight loop, ended or started
	spinCount     int    // yields since the last sign of progress
	spinDump      uint64 // shared-state dump at the last sign of progress
	spinThreads   int    // finished*100000 + created threads at the last sign of progress
	spinning      []bool // threads that have yielded since the last sign of progress
	Horizon       bool   // MaxSteps reached (harness error, not a verdict)
	Diverged      string
	Panics        []string
	Blocked       []string // description of the threads that were blocked at a deadlock
	NThreads      int
	Yields        int64
}

var active *Execution

// DebugKeys makes Point carry the components of Key (diagnostics only).
var DebugKeys bool

func Active() bool { return active != nil }

// Self returns the controlled thread of the calling goroutine, or nil when the caller is not a
// controlled thread (no explorer active, or an uncontrolled goroutine). Only the token holder can be a
// running controlled thread, so identity is "am I the goroutine of e.cur".
func Self() (*Execution, *Thread) {
	e := active
	if e == nil {
		return nil, nil
	}
	c := e.cur
	if c == nil || c.g != getg() {
		return nil, nil
	}
	return e, c
}

func site(skip int) uint64 {
	var pcs [8]uintptr
	n := runtime.Callers(skip, pcs[:])
	h := uint64(1469598103934665603)
	for _, pc := range pcs[:n] {
		h = (h ^ uint64(pc)) * 1099511628211
	}
	if h == 0 {
		h = 1
	}
	// remember the frames of every distinct site once (open-addressed table, no Go map)
	i := h & (siteTabSize - 1)
	for siteTab[i].hash != 0 && siteTab[i].hash != h {
		i = (i + 1) & (siteTabSize - 1)
	}
	if siteTab[i].hash == 0 {
		siteTab[i].hash = h
		siteTab[i].n = copy(siteTab[i].pcs[:], pcs[:n])
	}
	return h
}

const spinRunLimit = 5000    // rounds of a <=3-site loop before a thread counts as a spinner
const spinQuietLimit = 60000 // points without any thread leaving its loop, ending or starting

const siteTabSize = 1 << 16

type siteEnt struct {
	hash uint64
	pcs  [8]uintptr
	n    int
}

var siteTab [siteTabSize]siteEnt

// SiteFrames returns the function names (innermost first) of a scheduling-point site.
func SiteFrames(h uint64) []string {
	i := h & (siteTabSize - 1)
	for siteTab[i].hash != 0 && siteTab[i].hash != h {
		i = (i + 1) & (siteTabSize - 1)
	}
	if siteTab[i].hash == 0 {
		return nil
	}
	var out []string
	frames := runtime.CallersFrames(siteTab[i].pcs[:siteTab[i].n])
	for {
		f, more := frames.Next()
		out = append(out, f.Function)
		if !more {
			break
		}
	}
	return out
}

// Run executes main as thread 0 under the scheduler and returns when every controlled thread has
// finished, or at a deadlock, or at the horizon.
func Run(cfg Config, main func()) *Execution {
	if active != nil {
		panic("vsched: an execution is already active")
	}
	if cfg.MaxSteps == 0 {
		cfg.MaxSteps = 1000000
	}
	e := &Execution{cfg: cfg}
	e.done.init()
	resetHooks()
	t := e.newThread()
	e.cur = t
	active = e
	go e.body(t, main)
	t.gate.open()
	e.done.wait()
	HBAcquire(unsafe.Pointer(&execBarrier))
	active = nil
	if e.Diverged == "" && e.devK < len(e.cfg.Devs) && !e.Horizon {
		e.Diverged = fmt.Sprintf("replay diverged: execution ended at point %d before the deviation at %d", e.steps, e.cfg.Devs[e.devK].Idx)
	}
	e.Steps = e.steps
	e.NThreads = len(e.threads)
	return e
}

// reset hooks: other shim packages (vchan) keep per-execution tables.
var resetFns []func()

func OnReset(f func()) { resetFns = append(resetFns, f) }
func resetHooks() {
	for _, f := range resetFns {
		f()
	}
}

func (e *Execution) newThread() *Thread {
	t := &Thread{ID: len(e.threads)}
	e.sinceProgress = 0
	t.gate.init()
	t.pending = Op{Kind: OpStart}
	e.threads = append(e.threads, t)
	return t
}

func (e *Execution) body(t *Thread, fn func()) {
	t.gate.wait()
	t.g = getg()
	defer func() {
		if r := recover(); r != nil {
			buf := make([]byte, 8192)
			buf = buf[:runtime.Stack(buf, false)]
			e.Panics = append(e.Panics, fmt.Sprintf("thread %d: %v\n%s", t.ID, r, buf))
		}
		t.finished = true
		e.sinceProgress = 0
		HBRelease(unsafe.Pointer(&execBarrier))
		t.pending = Op{Kind: OpExit}
		e.schedule(t, true)
	}()
	fn()
}

// Go spawns fn as a new controlled thread (a plain goroutine when the caller is not controlled).
func Go(fn func()) {
	e, t := Self()
	if e == nil {
		go fn()
		return
	}
	n := e.newThread()
	go e.body(n, fn)
	e.point(t, Op{Kind: OpGo}, 3)
}

// GoNamed is Go with a label (drivers).
func GoNamed(name string, fn func()) {
	e, t := Self()
	if e == nil {
		go fn()
		return
	}
	n := e.newThread()
	n.Name = name
	go e.body(n, fn)
	e.point(t, Op{Kind: OpGo}, 3)
}

// PointOp is called by the shims: the calling controlled thread wants to perform op.
func PointOp(e *Execution, t *Thread, op Op) { e.point(t, op, 4) }

// UserPoint is a scheduling point placed by a driver (start of an operation).
func UserPoint() {
	if e, t := Self(); e != nil {
		e.point(t, Op{Kind: OpUser}, 3)
	}
}

// Yield marks the caller as making no progress until somebody else moves (used by Sleep).
func Yield() {
	if e, t := Self(); e != nil {
		e.point(t, Op{Kind: OpYield}, 4)
	}
}

// ThreadID of the calling controlled thread, -1 if none.
func ThreadID() int {
	if _, t := Self(); t != nil {
		return t.ID
	}
	return -1
}

func (e *Execution) point(t *Thread, op Op, skip int) {
	op.Site = site(skip)
	// spin detection: back at the same site while nobody else has taken a step since the last visit =
	// a complete loop iteration on unchanged state.
	foreign := e.steps - t.own
	var d uint64
	if e.cfg.Dump != nil {
		d = e.cfg.Dump()
	}
	found := false
	for i := range t.seen {
		if t.seen[i].site == op.Site {
			if op.Kind != OpYield {
				if e.cfg.Dump != nil {
					// with a dump: a whole loop iteration during which the shared state did not change
					// (whoever else ran in between) is a spin
					if t.seen[i].dump == d {
						t.yielding = true
					}
				} else if t.seen[i].foreign == foreign {
					t.yielding = true
				}
			}
			t.seen[i].foreign = foreign
			t.seen[i].dump = d
			found = true
			break
		}
	}
	if !found {
		t.seen = append(t.seen, siteSeen{op.Site, foreign, d})
	}
	if op.Kind == OpYield {
		t.yielding = true
	}
	// tight-loop tracking (used for the livelock verdict when the driver supplies no dump): a polling
	// loop touches two or three sites (lock, unlock, sleep) over and over; real work does not
	inCyc := false
	for k := 0; k < t.cycN; k++ {
		if t.cyc[k] == op.Site {
			inCyc = true
		}
	}
	switch {
	case inCyc:
		t.cycRun++
	case t.cycN < len(t.cyc):
		t.cyc[t.cycN] = op.Site
		t.cycN++
		t.cycRun++
	default:
		t.cyc[0], t.cycN, t.cycRun = op.Site, 1, 1
		e.sinceProgress = 0 // a thread left its loop: something is happening
	}
	e.sinceProgress++
	if !t.yielding {
		// arriving somewhere new, or after the shared state changed: progress
		e.spinCount = 0
		for i := range e.spinning {
			e.spinning[i] = false
		}
	}
	t.pending = op
	e.schedule(t, false)
}

func (th *Thread) enabled() bool {
	if th.finished {
		return false
	}
	if th.pending.Enabled != nil && !th.pending.Enabled() {
		return false
	}
	return true
}

func (e *Execution) describe(th *Thread) string {
	where := ""
	for _, f := range SiteFrames(th.pending.Site) {
		if len(f) > 6 && f[:6] != "verif/" {
			where = " in " + f
			break
		}
	}
	return fmt.Sprintf("t%d(%s) at %v on %T%s", th.ID, th.Name, th.pending.Kind, th.pending.Obj, where)
}

// schedule: t holds the token and has arrived at a point (or is exiting); pick who runs next.
func (e *Execution) schedule(t *Thread, exiting bool) {
	if e.cfg.Monitor != nil && !e.finished {
		e.cfg.Monitor()
	}
	n := len(e.threads)
	isEn := make([]bool, n)
	anyEn := false
	for _, th := range e.threads {
		if th.enabled() {
			isEn[th.ID] = true
			anyEn = true
		}
	}
	// fair yield (Musuvathi & Qadeer 2008): a thread that just yielded waits for every other thread that
	// is enabled right now to be scheduled once (or to become disabled).
	if t.yielding && !t.finished && e.spinCheck(t, isEn) {
		e.Livelock = true
		e.finish()
		if !exiting {
			var forever gate
			forever.wait()
		}
		return
	}
	if t.yielding && !t.finished {
		e.Yields++
		t.blockedBy = make([]bool, n)
		for id := 0; id < n; id++ {
			if isEn[id] && id != t.ID {
				t.blockedBy[id] = true
			}
		}
		t.yielding = false
	}
	var en, enYield []int
	for _, th := range e.threads {
		if !isEn[th.ID] {
			continue
		}
		blocked := false
		for id, b := range th.blockedBy {
			if b && id < n && isEn[id] {
				blocked = true
				break
			}
		}
		if blocked {
			enYield = append(enYield, th.ID)
		} else {
			en = append(en, th.ID)
		}
	}
	if len(en) == 0 && len(enYield) > 0 {
		// only yielders remain and they wait for each other: release them all
		en = enYield
		for _, id := range en {
			e.threads[id].blockedBy = nil
		}
	}
	if e.cfg.Dump == nil && anyEn && e.sinceProgress > spinQuietLimit {
		// no dump available (whole-interpreter drivers): livelock = every enabled thread has been going
		// round a loop of at most three sites for a long time
		all := true
		for _, th := range e.threads {
			if isEn[th.ID] && th.cycRun < spinRunLimit {
				all = false
				break
			}
		}
		if all {
			e.Livelock = true
			for _, th := range e.threads {
				if isEn[th.ID] {
					e.Blocked = append(e.Blocked, e.describe(th)+" (spinning)")
				}
			}
			e.finish()
			if !exiting {
				var forever gate
				forever.wait()
			}
			return
		}
	}
	if !anyEn || len(en) == 0 {
		for _, th := range e.threads {
			if !th.finished {
				e.Deadlock = true
				e.Blocked = append(e.Blocked, e.describe(th))
			}
		}
		e.finish()
		if !exiting {
			var forever gate
			forever.wait() // park for good (leaked goroutine; only happens on deadlocked executions)
		}
		return
	}
	if e.cfg.Policy == 1 {
		for i, j := 0, len(en)-1; i < j; i, j = i+1, j-1 {
			en[i], en[j] = en[j], en[i]
		}
	}
	// canonical order: the arriving thread first when it is still enabled
	running := false
	for i, id := range en {
		if id == t.ID {
			copy(en[1:i+1], en[:i])
			en[0] = id
			running = true
			break
		}
	}
	p := Point{Thread: t.ID, Kind: t.pending.Kind, Site: t.pending.Site, Enabled: en, RunningEnabled: running}
	var dump uint64
	if e.cfg.Dump != nil {
		dump = e.cfg.Dump()
		k := mix(0x9e3779b97f4a7c15, dump)
		for _, th := range e.threads {
			k = mix(k, th.local)
			k = mix(k, th.pending.Site)
			f := uint64(th.pending.Kind) << 2
			if th.finished {
				f |= 1
			}
			if isEn[th.ID] {
				f |= 2
			}
			k = mix(k, f)
			for id, b := range th.blockedBy {
				if b {
					k = mix(k, uint64(id)+0x100)
				}
			}
		}
		k = mix(k, uint64(t.ID))
		p.Key = k
		if DebugKeys {
			p.DbgDump = dump
			for _, th := range e.threads {
				p.DbgLocals = append(p.DbgLocals, mix(th.local, th.pending.Site))
			}
		}
	}
	idx := 0
	if e.cfg.Choose != nil {
		idx = e.cfg.Choose(&p)
	} else if e.devK < len(e.cfg.Devs) && e.cfg.Devs[e.devK].Idx == int(e.steps) {
		d := e.cfg.Devs[e.devK]
		e.devK++
		idx = d.Alt
		if d.Thread >= 0 && (d.Thread != p.Thread || d.NEn != len(en)) {
			e.Diverged = fmt.Sprintf("replay diverged at point %d: expected thread %d with %d enabled, got thread %d with %d", e.steps, d.Thread, d.NEn, p.Thread, len(en))
			idx = -1
		}
	}
	if idx < 0 || idx >= len(en) {
		if e.Diverged == "" {
			e.Diverged = fmt.Sprintf("choice %d out of range at step %d (enabled %v)", idx, e.steps, en)
		}
		e.Deadlock = false
		e.finish()
		if !exiting {
			var forever gate
			forever.wait()
		}
		return
	}
	p.Choice = idx
	p.Chosen = en[idx]
	if true {
		e.Trace = append(e.Trace, p)
	}
	e.steps++
	if e.steps > e.cfg.MaxSteps {
		e.Horizon = true
		e.finish()
		if !exiting {
			var forever gate
			forever.wait()
		}
		return
	}
	next := e.threads[p.Chosen]
	for _, th := range e.threads {
		if next.ID < len(th.blockedBy) {
			th.blockedBy[next.ID] = false
		}
	}
	next.own++
	if e.cfg.Dump != nil {
		next.observe(dump)
	}
	if next == t {
		return
	}
	e.cur = next
	next.gate.open()
	if exiting {
		return
	}
	t.gate.wait()
}

// observe folds what the thread sees when it is resumed at its pending site into its control-state
// hash. Coming back to a site already visited in the current operation is a loop back-edge; the loops of
// the code under the object-level drivers (polling loops of streams.Stdin) carry no state from one
// iteration to the next, so the hash is rewound to its value at the first arrival (stated assumption of
// the reachable-state search; the bounded DFS does not depend on it).
func (th *Thread) observe(dump uint64) {
	s := th.pending.Site
	for k := range th.bases {
		if th.bases[k].site == s {
			th.local = uint64(th.bases[k].foreign)
			th.bases = th.bases[:k+1]
			th.local = mix(mix(th.local, s), dump)
			return
		}
	}
	th.bases = append(th.bases, siteSeen{site: s, foreign: int64(th.local)})
	th.local = mix(mix(th.local, s), dump)
}

// OpBoundary is called by a driver thread when it starts a new operation: its control state is then
// fully described by tag (operation index and whatever else the driver carries over).
func OpBoundary(tag uint64) {
	if _, t := Self(); t != nil {
		t.local = mix(0x1234567, tag)
		t.bases = t.bases[:0]
	}
}

// spinCheck is called when t yields (completed a polling iteration on unchanged state, or slept).
// Livelock = for a long stretch every step was taken by threads that keep yielding, no thread ended
// or started, (with a dump) the shared state never changed, and every enabled thread is one of the
// spinners: deterministic code will repeat this for ever.
func (e *Execution) spinCheck(t *Thread, isEn []bool) bool {
	fin := 0
	for _, th := range e.threads {
		if th.finished {
			fin++
		}
	}
	progress := fin*100000 + len(e.threads)
	var d uint64
	if e.cfg.Dump != nil {
		d = e.cfg.Dump()
	}
	if progress != e.spinThreads || d != e.spinDump {
		e.spinThreads, e.spinDump, e.spinCount = progress, d, 0
		for i := range e.spinning {
			e.spinning[i] = false
		}
	}
	for len(e.spinning) < len(e.threads) {
		e.spinning = append(e.spinning, false)
	}
	e.spinning[t.ID] = true
	e.spinCount++
	limit := 20000
	if e.cfg.Dump != nil {
		limit = 200
	}
	if e.spinCount <= limit {
		return false
	}
	for id, en := range isEn {
		if en && !e.spinning[id] {
			return false
		}
	}
	for id, en := range isEn {
		if en {
			e.Blocked = append(e.Blocked, e.describe(e.threads[id])+" (spinning)")
		}
	}
	return true
}

func mix(h, v uint64) uint64 {
	h ^= v + 0x9e3779b97f4a7c15 + (h << 6) + (h >> 2)
	h *= 0xff51afd7ed558ccd
	h ^= h >> 33
	return h
}

func (e *Execution) finish() {
	if !e.finished {
		e.finished = true
		e.cur = nil
		e.done.open()
	}
}
