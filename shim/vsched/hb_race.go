//go:build race

package vsched

import (
	"runtime"
	"unsafe"
)

// Happens-before annotations for operations the shims emulate without performing the real primitive
// (the rendezvous of an unbuffered channel): they give the race detector exactly the edge the real
// operation would have created.
func HBRelease(p unsafe.Pointer) { runtime.RaceReleaseMerge(p) }
func HBAcquire(p unsafe.Pointer) { runtime.RaceAcquire(p) }
