// Package vtime: time.Sleep shim. PROTOTYPE.
package vtime

import (
	"time"

	"github.com/lmorg/murex/zz_verif/vsched"
)

func Sleep(d time.Duration) {
	e, t := vsched.Self()
	if e == nil {
		time.Sleep(d)
		return
	}
	vsched.PointOp(e, t, vsched.Op{Kind: vsched.OpYield})
}
