// Package vtime: time.Sleep as a scheduling point with yield semantics (durations are not modelled:
// a sleeper may resume at any later scheduling point once the others have had a chance to run).
package vtime

import (
	"time"

	"verif/shim/vsched"
)

func Sleep(d time.Duration) {
	if !vsched.Active() {
		time.Sleep(d)
		return
	}
	if vsched.ThreadID() < 0 {
		time.Sleep(d)
		return
	}
	vsched.Yield()
}
