// Package vchan: channel operation shims. PROTOTYPE: logical rendezvous table for unbuffered
// channels between controlled threads; real ops otherwise.
package vchan

import (
	"reflect"

	"github.com/lmorg/murex/zz_verif/vsched"
)

type chanState struct {
	senders   int // controlled threads parked wanting to send
	receivers int
}

var table = map[uintptr]*chanState{}

func state(c any) *chanState {
	p := reflect.ValueOf(c).Pointer()
	s := table[p]
	if s == nil {
		s = &chanState{}
		table[p] = s
	}
	return s
}

// Prototype strategy: a Send on an unbuffered channel is enabled when a controlled receiver is
// parked on it; the sender then hands the value over by performing the real send from a helper
// goroutine-free path: receiver is granted first (it blocks in the real recv while holding no
// token), so we instead use a buffered mailbox per channel pointer.

type mailbox struct {
	vals []any
}

var boxes = map[uintptr]*mailbox{}

func box(c any) *mailbox {
	p := reflect.ValueOf(c).Pointer()
	b := boxes[p]
	if b == nil {
		b = &mailbox{}
		boxes[p] = b
	}
	return b
}

func Send[T any](c chan<- T, v T) {
	e, t := vsched.Self()
	if e == nil {
		c <- v
		return
	}
	if cap(c) > 0 {
		vsched.PointOp(e, t, vsched.Op{Kind: vsched.OpSend, Obj: c, Enabled: func() bool { return len(c) < cap(c) }})
		c <- v
		return
	}
	s, b := state(c), box(c)
	s.senders++
	// rendezvous: enabled when a receiver is waiting
	vsched.PointOp(e, t, vsched.Op{Kind: vsched.OpSend, Obj: c, Enabled: func() bool { return s.receivers > 0 }})
	s.senders--
	s.receivers-- // claim one receiver
	b.vals = append(b.vals, v)
}

func recv[T any](c <-chan T) (T, bool) {
	e, t := vsched.Self()
	if e == nil {
		v, ok := <-c
		return v, ok
	}
	if cap(c) > 0 {
		vsched.PointOp(e, t, vsched.Op{Kind: vsched.OpRecv, Obj: c, Enabled: func() bool { return len(c) > 0 }})
		v, ok := <-c
		return v, ok
	}
	s, b := state(c), box(c)
	s.receivers++
	// announce, then wait until a value has been deposited for us
	vsched.PointOp(e, t, vsched.Op{Kind: vsched.OpRecv, Obj: c, Enabled: func() bool { return len(b.vals) > 0 }})
	v := b.vals[0].(T)
	b.vals = b.vals[1:]
	return v, true
}

func Recv[T any](c <-chan T) T { v, _ := recv(c); return v }

func Recv2[T any](c <-chan T) (T, bool) { return recv(c) }
