// Package vchan: channel operations of the rewritten murex sources. Between controlled threads an
// unbuffered channel is a logical rendezvous (a sender is enabled when a receiver is parked on the
// channel, the value travels through a per-channel mailbox); buffered channels use the real channel
// with enabledness read from len/cap. Every operation first tries the real non-blocking operation so
// that channels shared with uncontrolled goroutines (context.Done, runtime timers) keep working.
package vchan

import (
	"reflect"
	"unsafe"

	"verif/shim/vsched"
)

type box struct {
	key       uintptr
	vals      []any
	receivers int
	closed    bool
	fwd, back byte // addresses used for the happens-before annotations (send -> receive, receiver parked -> send completes)
}

// per-execution table (no Go map: see vsched package comment)
var boxes []*box

func init() { vsched.OnReset(func() { boxes = boxes[:0] }) }

func boxOf(c any) *box {
	p := reflect.ValueOf(c).Pointer()
	for _, b := range boxes {
		if b.key == p {
			return b
		}
	}
	b := &box{key: p}
	boxes = append(boxes, b)
	return b
}

func Send[T any](c chan<- T, v T) {
	e, t := vsched.Self()
	if e == nil {
		c <- v
		return
	}
	if cap(c) > 0 {
		vsched.PointOp(e, t, vsched.Op{Kind: vsched.OpSend, Obj: c, Enabled: func() bool { return len(c) < cap(c) }})
		c <- v
		return
	}
	b := boxOf(c)
	sentReal := false
	vsched.PointOp(e, t, vsched.Op{Kind: vsched.OpSend, Obj: c, Enabled: func() bool {
		if sentReal || b.receivers > 0 {
			return true
		}
		if b.closed {
			return true // will panic like the real thing
		}
		select {
		case c <- v: // an uncontrolled goroutine is receiving
			sentReal = true
			return true
		default:
			return false
		}
	}})
	if sentReal {
		return
	}
	if b.closed {
		panic("send on closed channel")
	}
	b.receivers--
	vsched.HBAcquire(unsafe.Pointer(&b.back))
	vsched.HBRelease(unsafe.Pointer(&b.fwd))
	b.vals = append(b.vals, v)
}

func recv[T any](c <-chan T) (T, bool) {
	e, t := vsched.Self()
	if e == nil {
		v, ok := <-c
		return v, ok
	}
	if cap(c) > 0 {
		b := boxOf(c)
		vsched.PointOp(e, t, vsched.Op{Kind: vsched.OpRecv, Obj: c, Enabled: func() bool { return len(c) > 0 || b.closed }})
		v, ok := <-c
		return v, ok
	}
	b := boxOf(c)
	b.receivers++
	vsched.HBRelease(unsafe.Pointer(&b.back))
	var realV T
	realOK, gotReal := false, false
	vsched.PointOp(e, t, vsched.Op{Kind: vsched.OpRecv, Obj: c, Enabled: func() bool {
		if gotReal || len(b.vals) > 0 || b.closed {
			return true
		}
		select {
		case v, ok := <-c: // closed for real (context.Done) or an uncontrolled sender
			realV, realOK, gotReal = v, ok, true
			return true
		default:
			return false
		}
	}})
	if len(b.vals) > 0 {
		v := b.vals[0].(T)
		b.vals = b.vals[1:]
		vsched.HBAcquire(unsafe.Pointer(&b.fwd))
		return v, true
	}
	b.receivers--
	if gotReal {
		return realV, realOK
	}
	// closed through Close below: the real channel is closed too, so the real receive returns at
	// once and gives the race detector the close -> receive edge
	v, ok := <-c
	return v, ok
}

func Recv[T any](c <-chan T) T { v, _ := recv(c); return v }

func Recv2[T any](c <-chan T) (T, bool) { return recv(c) }

// Close closes the real channel and records it for the logical rendezvous.
func Close[T any](c chan<- T) {
	if e, _ := vsched.Self(); e != nil {
		boxOf(c).closed = true
	}
	close(c)
}
