// Package vsync replaces "sync" in the rewritten murex sources. Outside an exploration every type
// delegates to the real primitive; inside, each operation is a scheduling point and blocking is decided
// by the scheduler from the logical state kept here. The real primitive is still operated (always
// uncontended at that moment) so that uncontrolled goroutines keep mutual exclusion and, in race builds,
// the program's own happens-before edges are exactly the real ones.
package vsync

import (
	"sync"
	"sync/atomic"

	"verif/shim/vsched"
)

type Locker = sync.Locker

type Mutex struct {
	in    sync.Mutex
	owner *vsched.Thread
}

func (m *Mutex) Lock() {
	e, t := vsched.Self()
	if e == nil {
		m.in.Lock()
		return
	}
	vsched.PointOp(e, t, vsched.Op{Kind: vsched.OpLock, Obj: m, Enabled: func() bool { return m.owner == nil }})
	m.owner = t
	m.in.Lock()
}

func (m *Mutex) Unlock() {
	e, t := vsched.Self()
	if e == nil {
		m.in.Unlock()
		return
	}
	if unlockPoint {
		vsched.PointOp(e, t, vsched.Op{Kind: vsched.OpUnlock, Obj: m})
	}
	m.owner = nil
	m.in.Unlock()
	vsched.PointOp(e, t, vsched.Op{Kind: vsched.OpUnlock, Obj: m})
}

func (m *Mutex) TryLock() bool {
	e, t := vsched.Self()
	if e == nil {
		return m.in.TryLock()
	}
	vsched.PointOp(e, t, vsched.Op{Kind: vsched.OpLock, Obj: m})
	if m.owner != nil {
		return false
	}
	if !m.in.TryLock() {
		return false
	}
	m.owner = t
	return true
}

type RWMutex struct {
	in      sync.RWMutex
	writer  *vsched.Thread
	readers int
}

func (m *RWMutex) Lock() {
	e, t := vsched.Self()
	if e == nil {
		m.in.Lock()
		return
	}
	vsched.PointOp(e, t, vsched.Op{Kind: vsched.OpLock, Obj: m, Enabled: func() bool { return m.writer == nil && m.readers == 0 }})
	m.writer = t
	m.in.Lock()
}

func (m *RWMutex) Unlock() {
	e, t := vsched.Self()
	if e == nil {
		m.in.Unlock()
		return
	}
	if unlockPoint {
		vsched.PointOp(e, t, vsched.Op{Kind: vsched.OpUnlock, Obj: m})
	}
	m.writer = nil
	m.in.Unlock()
	vsched.PointOp(e, t, vsched.Op{Kind: vsched.OpUnlock, Obj: m})
}

func (m *RWMutex) TryLock() bool {
	e, t := vsched.Self()
	if e == nil {
		return m.in.TryLock()
	}
	vsched.PointOp(e, t, vsched.Op{Kind: vsched.OpLock, Obj: m})
	if m.writer != nil || m.readers != 0 || !m.in.TryLock() {
		return false
	}
	m.writer = t
	return true
}

func (m *RWMutex) TryRLock() bool {
	e, t := vsched.Self()
	if e == nil {
		return m.in.TryRLock()
	}
	vsched.PointOp(e, t, vsched.Op{Kind: vsched.OpRLock, Obj: m})
	if m.writer != nil || !m.in.TryRLock() {
		return false
	}
	m.readers++
	return true
}

func (m *RWMutex) RLock() {
	e, t := vsched.Self()
	if e == nil {
		m.in.RLock()
		return
	}
	vsched.PointOp(e, t, vsched.Op{Kind: vsched.OpRLock, Obj: m, Enabled: func() bool { return m.writer == nil }})
	m.readers++
	m.in.RLock()
}

func (m *RWMutex) RUnlock() {
	e, t := vsched.Self()
	if e == nil {
		m.in.RUnlock()
		return
	}
	if unlockPoint {
		vsched.PointOp(e, t, vsched.Op{Kind: vsched.OpRUnlock, Obj: m})
	}
	m.readers--
	m.in.RUnlock()
	vsched.PointOp(e, t, vsched.Op{Kind: vsched.OpRUnlock, Obj: m})
}

func (m *RWMutex) RLocker() Locker { return (*rlocker)(m) }

type rlocker RWMutex

func (r *rlocker) Lock()   { (*RWMutex)(r).RLock() }
func (r *rlocker) Unlock() { (*RWMutex)(r).RUnlock() }

type WaitGroup struct {
	in sync.WaitGroup
	n  atomic.Int64
}

func (w *WaitGroup) Add(d int) {
	w.n.Add(int64(d))
	w.in.Add(d)
}

func (w *WaitGroup) Done() {
	w.n.Add(-1)
	w.in.Done()
	if e, t := vsched.Self(); e != nil {
		vsched.PointOp(e, t, vsched.Op{Kind: vsched.OpWGDone, Obj: w})
	}
}

func (w *WaitGroup) Wait() {
	e, t := vsched.Self()
	if e == nil {
		w.in.Wait()
		return
	}
	vsched.PointOp(e, t, vsched.Op{Kind: vsched.OpWait, Obj: w, Enabled: func() bool { return w.n.Load() == 0 }})
	w.in.Wait()
}

func (w *WaitGroup) Go(f func()) {
	w.Add(1)
	vsched.Go(func() {
		defer w.Done()
		f()
	})
}

// Once: the real sync.Once would block a controlled thread on its internal mutex while another
// controlled thread is parked inside Do, so it is rebuilt on the shim Mutex.
type Once struct {
	done atomic.Bool
	m    Mutex
}

func (o *Once) Do(f func()) {
	// no lock-free fast path: the mutex hand-over is what orders f's writes before later callers
	o.m.Lock()
	defer o.m.Unlock()
	if !o.done.Load() {
		defer o.done.Store(true)
		f()
	}
}
