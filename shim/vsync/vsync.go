// Package vsync: sync shim. PROTOTYPE.
package vsync

import (
	"sync"

	"github.com/lmorg/murex/zz_verif/vsched"
)

type Locker = sync.Locker
type Once = sync.Once

type Mutex struct {
	in    sync.Mutex
	owner *vsched.Thread
}

func (m *Mutex) Lock() {
	e, t := vsched.Self()
	if e == nil {
		m.in.Lock()
		return
	}
	vsched.PointOp(e, t, vsched.Op{Kind: vsched.OpLock, Obj: m, Enabled: func() bool { return m.owner == nil }})
	m.owner = t
	m.in.Lock()
}

func (m *Mutex) Unlock() {
	e, t := vsched.Self()
	if e == nil {
		m.in.Unlock()
		return
	}
	m.owner = nil
	m.in.Unlock()
	vsched.PointOp(e, t, vsched.Op{Kind: vsched.OpUnlock, Obj: m})
}

type RWMutex struct {
	in      sync.RWMutex
	writer  *vsched.Thread
	readers int
}

func (m *RWMutex) Lock() {
	e, t := vsched.Self()
	if e == nil {
		m.in.Lock()
		return
	}
	vsched.PointOp(e, t, vsched.Op{Kind: vsched.OpLock, Obj: m, Enabled: func() bool { return m.writer == nil && m.readers == 0 }})
	m.writer = t
	m.in.Lock()
}

func (m *RWMutex) Unlock() {
	e, t := vsched.Self()
	if e == nil {
		m.in.Unlock()
		return
	}
	m.writer = nil
	m.in.Unlock()
	vsched.PointOp(e, t, vsched.Op{Kind: vsched.OpUnlock, Obj: m})
}

func (m *RWMutex) RLock() {
	e, t := vsched.Self()
	if e == nil {
		m.in.RLock()
		return
	}
	vsched.PointOp(e, t, vsched.Op{Kind: vsched.OpRLock, Obj: m, Enabled: func() bool { return m.writer == nil }})
	m.readers++
	m.in.RLock()
}

func (m *RWMutex) RUnlock() {
	e, t := vsched.Self()
	if e == nil {
		m.in.RUnlock()
		return
	}
	m.readers--
	m.in.RUnlock()
	vsched.PointOp(e, t, vsched.Op{Kind: vsched.OpRUnlock, Obj: m})
}

type WaitGroup struct {
	in sync.WaitGroup
	n  int
}

func (w *WaitGroup) Add(d int) {
	w.n += d
	w.in.Add(d)
}

func (w *WaitGroup) Done() {
	w.n--
	w.in.Done()
	if e, t := vsched.Self(); e != nil {
		vsched.PointOp(e, t, vsched.Op{Kind: vsched.OpWGDone, Obj: w})
	}
}

func (w *WaitGroup) Wait() {
	e, t := vsched.Self()
	if e == nil {
		w.in.Wait()
		return
	}
	vsched.PointOp(e, t, vsched.Op{Kind: vsched.OpWait, Obj: w, Enabled: func() bool { return w.n == 0 }})
	w.in.Wait()
}
