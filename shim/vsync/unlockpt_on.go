//go:build vtrylock

package vsync

const unlockPoint = true
