//go:build !vtrylock

package vsync

// unlockPoint: no scheduling point while a lock is held just before its release. Sound as long as the
// code under test only blocks on locks (a blocked Lock is indistinguishable from one scheduled later);
// mkoverlay counts TryLock/TryRLock calls and sched.sh switches this on when there is one.
const unlockPoint = false
