// Package jobsconc: C27 = the sequential explicit-state search of checks/jobs plus an interleaving
// search of concurrent job-table operations on the real lang.NewJobs() under the controlled scheduler.
package jobsconc

import (
	"fmt"
	"sort"
	"strings"

	"verif/checks/jobs"
	"verif/sched"
	"verif/vlib"

	"github.com/lmorg/murex/lang"
	"verif/shim/vsched"
)

// thread operations: add a new running job; gc; finish initial job i then gc (what deregisterProcess does)
type jop struct {
	kind string
	i    int
}

func (o jop) String() string {
	if o.kind == "fin" {
		return fmt.Sprintf("fin%d", o.i)
	}
	return o.kind
}

type jsc struct {
	init    string // one letter per initial job: R running, T already terminated (not yet collected)
	threads [][]jop
}

func (s jsc) name() string {
	var ts []string
	for _, t := range s.threads {
		var o []string
		for _, x := range t {
			o = append(o, x.String())
		}
		ts = append(ts, strings.Join(o, ";"))
	}
	return "init=" + s.init + " " + strings.Join(ts, " || ")
}

func newProc() *lang.Process {
	p := lang.NewTestProcess()
	return p
}

func (s jsc) scenario() *sched.Scenario {
	return &sched.Scenario{Name: s.name(), New: func() *sched.Instance {
		table := lang.NewJobs()
		var initial []*lang.Process
		type added struct {
			p       *lang.Process
			firstID string
		}
		var adds []*added
		running := map[*lang.Process]bool{}
		firstID := map[*lang.Process]string{}
		idOf := func(p *lang.Process) string {
			for _, j := range table.List() {
				if j.Process == p {
					return j.JobId
				}
			}
			return ""
		}
		body := func() {
			for i, ch := range s.init {
				p := newProc()
				initial = append(initial, p)
				table.Add(p)
				if ch == 'R' {
					running[p] = true
					firstID[p] = fmt.Sprintf("%%%d", i+1)
				} else {
					p.SetTerminatedState(true)
				}
			}
			for ti, ops := range s.threads {
				ops := ops
				vsched.GoNamed(fmt.Sprintf("scope%d", ti), func() {
					for _, o := range ops {
						vsched.UserPoint()
						switch o.kind {
						case "add":
							p := newProc()
							a := &added{p: p}
							adds = append(adds, a)
							running[p] = true
							table.Add(p)
							a.firstID = idOf(p)
						case "gc":
							table.GarbageCollect()
						case "fin":
							p := initial[o.i]
							p.SetTerminatedState(true)
							delete(running, p)
							table.GarbageCollect()
						}
					}
				})
			}
		}
		fin := func(e *vsched.Execution) sched.Outcome {
			var listed []string
			out := sched.Outcome{NonTrivial: true}
			if e.Deadlock || e.Livelock || len(e.Panics) > 0 {
				return out
			}
			list := table.List()
			seen := map[*lang.Process]int{}
			for _, j := range list {
				seen[j.Process]++
				listed = append(listed, j.JobId)
			}
			sort.Strings(listed)
			var addIDs []string
			for _, a := range adds {
				addIDs = append(addIDs, a.firstID)
			}
			out.Key = fmt.Sprintf("listed=%v first-ids-of-added=%v", listed, addIDs)
			fail := func(cl, d string) sched.Outcome { out.Clause, out.Detail = cl, d; return out }
			for _, a := range adds {
				firstID[a.p] = a.firstID
			}
			for p := range running {
				if seen[p] != 1 {
					return fail("lists-exactly-running", fmt.Sprintf("a job that is still running is listed %d times (jobs lists %v)", seen[p], listed))
				}
				want := firstID[p]
				if want == "" {
					return fail("id-stable-while-running", "a job that was just added and is running was not listed by jobs")
				}
				if got := idOf(p); got != want {
					return fail("id-stable-while-running", fmt.Sprintf("a running job changed its id from %s to %q", want, got))
				}
				var n int
				fmt.Sscanf(want, "%%%d", &n)
				if q, err := table.Get(n); err != nil || q != p {
					return fail("id-stable-while-running", fmt.Sprintf("Get(%d) does not return the running job that owns %s (err %v)", n, want, err))
				}
			}
			for _, j := range list {
				if !running[j.Process] {
					return fail("lists-exactly-running", fmt.Sprintf("jobs lists %s, a job that has finished", j.JobId))
				}
			}
			return out
		}
		return &sched.Instance{Body: body, Finish: fin}
	}}
}

func scenarios(quick bool) []*sched.Scenario {
	inits := []string{"", "R", "T", "RT", "TR", "RR", "TT", "RTT"}
	ops := func(init string) [][]jop {
		seqs := [][]jop{{{"add", 0}}, {{"gc", 0}}, {{"add", 0}, {"gc", 0}}, {{"gc", 0}, {"add", 0}}, {{"add", 0}, {"add", 0}}}
		for i, ch := range init {
			if ch == 'R' {
				seqs = append(seqs, []jop{{"fin", i}}, []jop{{"fin", i}, {"add", 0}})
			}
		}
		return seqs
	}
	var out []*sched.Scenario
	for _, in := range inits {
		if quick && len(in) > 2 {
			continue
		}
		o := ops(in)
		for i, a := range o {
			for j, b := range o {
				if j < i {
					continue // unordered pairs
				}
				// the same initial job cannot be finished by both threads
				dup := false
				for _, x := range a {
					for _, y := range b {
						if x.kind == "fin" && y.kind == "fin" && x.i == y.i {
							dup = true
						}
					}
				}
				if dup {
					continue
				}
				out = append(out, jsc{init: in, threads: [][]jop{a, b}}.scenario())
			}
		}
	}
	return out
}

func init() {
	vlib.Register(&vlib.Check{
		ID: "C27", Engine: "E3+E1",
		Rule: jobs.RuleBFS + "; PLUS interleaving search: two concurrent scopes each running <= 2 operations from {add a job, garbage-collect, finish initial job i then garbage-collect} on a table with 0-2 (thorough 0-3) initial jobs (running / finished-not-collected), on the real lang.NewJobs() under the controlled scheduler, ALL interleavings with <= 2 preemptions; at quiescence jobs must list exactly the running jobs, each under the id it had when it was first listed, and Get(id) must return it; non-trivial (BFS) = transitions in a state where a finished job has a lower id than a running one or an add that re-uses an id; (interleavings) = executions with at least one preemption",
		Run: func(c *vlib.Ctx) {
			if c.Shard == 0 {
				jobs.RunBFS(c)
			}
			if c.Quick() {
				jobs.RunExhaustive(c, 4, 7)
			} else {
				jobs.RunExhaustive(c, 4, 9)
			}
			sched.RunAllByScenario(c, scenarios(c.Quick()), 2)
		},
		Replay: func(c *vlib.Ctx, w string) {
			if strings.Contains(w, "init=") {
				sched.Replay(c, scenarios(false), w)
				return
			}
			jobs.ReplayBFS(c, w)
		},
		Assumptions: []string{"sequential part: at most N jobs ever added; a job finishes by SetTerminatedState(true) and never restarts", "concurrent part: two scopes, <= 2 operations each, <= 2 preemptions; scheduling points at every mutex operation of the job table and of Process.SetTerminatedState/HasTerminated"},
	})
}
