// Package pipes: C01 (every byte exactly once, in order) and C02 (data type set once) — interleaving
// exploration of the real streams.Stdin under the controlled scheduler.
package pipes

import (
	"bytes"
	"fmt"
	"hash/fnv"
	"io"
	"strings"

	"verif/sched"
	"verif/vlib"

	"github.com/lmorg/murex/builtins/pipes/streams"
	"verif/shim/vsched"
)

type pipeSc struct {
	writers  [][]string
	reader   string // read1 read2 read64 readall writeto readline
	max      int    // DefaultMaxBufferSize for this stream (0 = murex's production value)
	stats    bool   // third thread sampling Stats() twice
	lateOpen bool   // second writer is opened by the first writer (fork of a running process)
}

func (p pipeSc) name() string {
	var w []string
	for _, ch := range p.writers {
		w = append(w, fmt.Sprintf("%q", ch))
	}
	n := fmt.Sprintf("w=%s r=%s max=%d", strings.Join(w, "+"), p.reader, p.max)
	if p.stats {
		n += " stats"
	}
	if p.lateOpen {
		n += " lateopen"
	}
	return n
}

type pipeObs struct {
	read      bytes.Buffer
	readEvts  []string
	statsSeen [][2]uint64
	writeErrs []string
	w, r      uint64
}

var prodMax = streams.DefaultMaxBufferSize

func (p pipeSc) scenario() *sched.Scenario {
	return &sched.Scenario{Name: p.name(), New: func() *sched.Instance {
		o := &pipeObs{}
		var s *streams.Stdin
		body := func() {
			if p.max > 0 {
				streams.DefaultMaxBufferSize = p.max
			} else {
				streams.DefaultMaxBufferSize = prodMax
			}
			s = streams.NewStdin()
			nOpen := len(p.writers)
			if p.lateOpen {
				nOpen = 1
			}
			for i := 0; i < nOpen; i++ {
				s.Open()
			}
			writer := func(chunks []string) func() {
				return func() {
					for ci, c := range chunks {
						vsched.OpBoundary(uint64(ci) + 1)
						n, err := s.Write([]byte(c))
						if err != nil || n != len(c) {
							o.writeErrs = append(o.writeErrs, fmt.Sprintf("Write(%q)=%d,%v", c, n, err))
						}
					}
					vsched.OpBoundary(1000)
					s.Close()
				}
			}
			for i, w := range p.writers {
				if p.lateOpen && i > 0 {
					continue
				}
				w := w
				if p.lateOpen && i == 0 && len(p.writers) > 1 {
					first := writer(w)
					second := writer(p.writers[1])
					vsched.GoNamed("writer0", func() {
						s.Open() // the child is registered before the parent goes on (as createProcess does)
						vsched.GoNamed("writer1", second)
						first()
					})
					continue
				}
				vsched.GoNamed(fmt.Sprintf("writer%d", i), writer(w))
			}
			vsched.GoNamed("reader", func() {
				switch p.reader {
				case "readall":
					b, err := s.ReadAll()
					o.read.Write(b)
					o.readEvts = append(o.readEvts, fmt.Sprintf("ReadAll=%d,%v", len(b), err))
				case "writeto":
					n, err := s.WriteTo(&o.read)
					o.readEvts = append(o.readEvts, fmt.Sprintf("WriteTo=%d,%v", n, err))
				case "readline":
					err := s.ReadLine(func(b []byte) { o.read.Write(b) })
					o.readEvts = append(o.readEvts, fmt.Sprintf("ReadLine=%v", err))
				default:
					size := map[string]int{"read1": 1, "read2": 2, "read64": 64}[p.reader]
					buf := make([]byte, size)
					for {
						vsched.OpBoundary(2000) // everything the reader carries between calls is in o.read (part of the dump)
						n, err := s.Read(buf)
						o.read.Write(buf[:n])
						if err == io.EOF {
							if n > 0 {
								o.readEvts = append(o.readEvts, "data-with-EOF")
							}
							break
						}
						if err != nil {
							o.readEvts = append(o.readEvts, "err:"+err.Error())
							break
						}
					}
				}
			})
			if p.stats {
				vsched.GoNamed("stats", func() {
					for i := 0; i < 2; i++ {
						vsched.OpBoundary(3000 + uint64(i))
						w, r := s.Stats()
						o.statsSeen = append(o.statsSeen, [2]uint64{w, r})
					}
				})
			}
		}
		finish := func(e *vsched.Execution) sched.Outcome {
			streams.DefaultMaxBufferSize = prodMax // never leak the tiny limit into later scenarios
			if s != nil && !e.Deadlock && !e.Livelock {
				o.w, o.r = s.Stats()
			}
			return p.check(o, e)
		}
		dump := func() uint64 {
			if s == nil {
				return 0
			}
			// the harness-side observations are part of the state too (what has been read so far)
			h := fnv.New64a()
			h.Write(o.read.Bytes())
			fmt.Fprint(h, o.statsSeen, o.readEvts, o.writeErrs)
			return streams.VerifDump(s) ^ h.Sum64()
		}
		return &sched.Instance{Body: body, Finish: finish, Dump: dump}
	}}
}

func (p pipeSc) check(o *pipeObs, e *vsched.Execution) sched.Outcome {
	got := o.read.String()
	out := sched.Outcome{Key: fmt.Sprintf("read=%q stats=%d/%d seen=%v evts=%v", got, o.w, o.r, o.statsSeen, o.readEvts)}
	// non-trivial: the reader took a step between two writer steps or a writer had to wait (yield)
	out.NonTrivial = true
	if e.Deadlock || e.Livelock || len(e.Panics) > 0 {
		return out // reported by the explorer as no-deadlock / no-goroutine-panic
	}
	total := 0
	for _, w := range p.writers {
		for _, c := range w {
			total += len(c)
		}
	}
	fail := func(cl, d string) sched.Outcome { out.Clause, out.Detail = cl, d; return out }
	if len(o.writeErrs) > 0 {
		return fail("write-accepted", strings.Join(o.writeErrs, "; "))
	}
	want := got
	if p.reader == "readline" {
		// ReadLine re-terminates every line: compare modulo one trailing newline
		if !matchInterleaving(p.writers, strings.TrimSuffix(got, "\n")) && !matchInterleaving(p.writers, got) {
			return fail("bytes-once-in-order", fmt.Sprintf("ReadLine delivered %q which is not an order-preserving interleaving of the writers' chunks %q", got, p.writers))
		}
	} else {
		if len(got) != total {
			return fail("bytes-once-in-order", fmt.Sprintf("reader obtained %d bytes %q, writers wrote %d bytes %q", len(got), got, total, p.writers))
		}
		if !matchInterleaving(p.writers, want) {
			return fail("bytes-once-in-order", fmt.Sprintf("reader obtained %q which is not an order-preserving interleaving of the writers' chunks %q", got, p.writers))
		}
	}
	for _, ev := range o.readEvts {
		if ev == "data-with-EOF" || strings.HasPrefix(ev, "err:") {
			return fail("eof-only-when-drained", ev)
		}
	}
	if o.w != uint64(total) {
		return fail("byte-counters", fmt.Sprintf("bytes written counter = %d, written %d", o.w, total))
	}
	if p.reader != "readline" && o.r != uint64(total) {
		return fail("byte-counters", fmt.Sprintf("bytes read counter = %d, read %d", o.r, total))
	}
	var pw, pr uint64
	for _, s := range o.statsSeen {
		if s[0] < pw || s[1] < pr || s[0] > uint64(total) || s[1] > s[0] {
			return fail("byte-counters", fmt.Sprintf("intermediate Stats() not monotone / bounded: %v (total %d)", o.statsSeen, total))
		}
		pw, pr = s[0], s[1]
	}
	return out
}

// interleaved: some thread other than the previous one ran between two steps of a thread.
func interleaved(e *vsched.Execution) bool {
	switches := 0
	for i := 1; i < len(e.Trace); i++ {
		if e.Trace[i].Chosen != e.Trace[i-1].Chosen && e.Trace[i-1].RunningEnabled {
			switches++
		}
	}
	return switches > 0
}

// matchInterleaving: got is a concatenation of all chunks, each writer's chunks in order, each chunk contiguous.
func matchInterleaving(writers [][]string, got string) bool {
	idx := make([]int, len(writers))
	var match func(pos int) bool
	match = func(pos int) bool {
		if pos == len(got) {
			for i, w := range writers {
				for _, c := range w[idx[i]:] {
					if c != "" {
						return false
					}
				}
			}
			return true
		}
		for i, w := range writers {
			j := idx[i]
			for j < len(w) && w[j] == "" {
				j++
			}
			if j < len(w) && strings.HasPrefix(got[pos:], w[j]) {
				save := idx[i]
				idx[i] = j + 1
				if match(pos + len(w[j])) {
					return true
				}
				idx[i] = save
			}
		}
		return false
	}
	return match(0)
}

// RaceScenarios: object-level drivers re-used by C32 under the race detector.
func RaceScenarios() []*sched.Scenario {
	return append(c01Scenarios(true), c02Scenarios(true)...)
}

func c01Scenarios(quick bool) []*sched.Scenario {
	var ps []pipeSc
	if quick {
		ps = []pipeSc{
			{writers: [][]string{{"ab", "c"}}, reader: "read1", max: 2},
			{writers: [][]string{{"ab", "c"}, {"XYZ"}}, reader: "read2", max: 2},
			{writers: [][]string{{"ab", ""}, {"X", "Y"}}, reader: "readall", max: 2},
			{writers: [][]string{{"abcde"}, {"X"}}, reader: "read64", max: 2},
			{writers: [][]string{{"\x00", "\xff\xfe"}}, reader: "read1", max: 4, stats: true},
			{writers: [][]string{{"bcd", "efghi"}}, reader: "writeto", max: 2},
			{writers: [][]string{{"a\n", "b"}, {"X\n"}}, reader: "readline", max: 4},
			{writers: [][]string{{"ab"}, {"X"}}, reader: "read1", max: 2, lateOpen: true},
			{writers: [][]string{{"a", "b", "c"}}, reader: "read2", max: 0},
			{writers: [][]string{{"ab"}, {"XY"}}, reader: "writeto", max: 2, stats: true},
			{writers: [][]string{{"", "a"}, {""}}, reader: "readall", max: 4},
			{writers: [][]string{{"abc"}, {"XYZ"}}, reader: "read2", max: 4, lateOpen: true},
		}
	} else {
		chunks := [][]string{{"ab", "c"}, {"", "a"}, {"\x00", "\xff\xfe"}, {"bcd"}, {"efghi"}, {"a", "b", "c"}, {"X"}, {"a\n", "b"}}
		second := [][]string{nil, {"X"}, {"XY", "Z"}, {""}}
		for _, c1 := range chunks {
			for _, c2 := range second {
				for _, r := range []string{"read1", "read2", "read64", "readall", "writeto", "readline"} {
					for _, m := range []int{2, 4, 0} {
						w := [][]string{c1}
						if c2 != nil {
							w = append(w, c2)
						}
						ps = append(ps, pipeSc{writers: w, reader: r, max: m})
					}
				}
			}
		}
		for _, r := range []string{"read1", "read64", "readall"} {
			ps = append(ps, pipeSc{writers: [][]string{{"ab", "c"}, {"X"}}, reader: r, max: 2, stats: true})
			ps = append(ps, pipeSc{writers: [][]string{{"ab", "c"}, {"XY"}}, reader: r, max: 2, lateOpen: true})
		}
	}
	var out []*sched.Scenario
	for _, p := range ps {
		out = append(out, p.scenario())
	}
	return out
}

func init() {
	vlib.Register(&vlib.Check{
		ID: "C01", Engine: "E1",
		Rule: "each driver (writers with fixed chunk lists, one reader of a given kind, optional Stats sampler, tiny back-pressure limit) is run on a fresh streams.Stdin under the controlled scheduler; ALL interleavings with at most B preemptions (switches away from a runnable thread, offered at every lock/unlock/spawn point) are enumerated by stateless DFS; evaluations = complete executions; non-trivial = executions containing at least one preemption (the default run-to-completion schedules are the trivial ones); states = executions, transitions = scheduling points",
		Run: func(c *vlib.Ctx) {
			if c.Quick() {
				sched.RunAll(c, c01Scenarios(true), 3)
				return
			}
			// thorough: (a) unbounded preemptions — reachable-state search with state-hash pruning — for
			// every single-writer driver (the product space of two-writer drivers is too large to finish);
			// (b) every driver with preemption bound 3
			var single []*sched.Scenario
			all := c01Scenarios(false)
			for _, sc := range all {
				if !strings.Contains(sc.Name, "]+[") {
					single = append(single, sc)
				}
			}
			sched.RunAllStates(c, single)
			sched.RunAllByScenario(c, all, 3)
		},
		Replay:      func(c *vlib.Ctx, w string) { sched.Replay(c, append(c01Scenarios(true), c01Scenarios(false)...), w) },
		Assumptions: []string{"scheduling points = every sync.Mutex/RWMutex/WaitGroup/channel/Sleep/go operation of the murex module (source overlay); atomics and plain memory accesses are not scheduling points (C32 covers unsynchronised accesses)", "behaviour after ForceClose and mixing Read with ReadAll on one stream are not asserted (statement silent)", "back-pressure limit set to 2 or 4 bytes through the package variable streams.DefaultMaxBufferSize: same code path as the 1 MiB production limit"},
	})
}
