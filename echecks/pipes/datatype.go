package pipes

import (
	"fmt"
	"strings"

	"verif/sched"
	"verif/vlib"

	"github.com/lmorg/murex/builtins/pipes/streams"
	"github.com/lmorg/murex/lang/stdio"
	"verif/shim/vsched"
)

// C02 driver: writers declare types then close; readers ask for the type; optional ForceClose thread.
type dtSc struct {
	writers    [][]string // each writer: sequence of SetDataType arguments, then Close
	readers    []int      // number of GetDataType calls per reader thread
	forceClose bool
	tee        bool
}

func (p dtSc) name() string {
	n := fmt.Sprintf("set=%q get=%v", p.writers, p.readers)
	if p.forceClose {
		n += " forceclose"
	}
	if p.tee {
		n += " tee"
	}
	return n
}

type call struct {
	kind       string // set get close force
	arg, res   string
	start, end int
	thread     string
}

func valid(t string) bool { return t != "" && t != "null" }

func (p dtSc) scenario() *sched.Scenario {
	return &sched.Scenario{Name: p.name(), New: func() *sched.Instance {
		var calls []*call
		clock := 0
		begin := func(th, kind, arg string) *call {
			clock++
			c := &call{kind: kind, arg: arg, start: clock, end: 1 << 30, thread: th}
			calls = append(calls, c)
			return c
		}
		finish := func(c *call, res string) { clock++; c.end = clock; c.res = res }
		var final string
		var s stdio.Io
		body := func() {
			streams.DefaultMaxBufferSize = prodMax
			base := streams.NewStdin()
			s = base
			if p.tee {
				t, _ := streams.NewTee(base)
				s = t
			}
			for range p.writers {
				s.Open()
			}
			for i, w := range p.writers {
				w, th := w, fmt.Sprintf("writer%d", i)
				vsched.GoNamed(th, func() {
					for _, t := range w {
						c := begin(th, "set", t)
						s.SetDataType(t)
						finish(c, "")
					}
					c := begin(th, "close", "")
					s.Close()
					finish(c, "")
				})
			}
			for i, n := range p.readers {
				n, th := n, fmt.Sprintf("reader%d", i)
				vsched.GoNamed(th, func() {
					for k := 0; k < n; k++ {
						c := begin(th, "get", "")
						r := s.GetDataType()
						finish(c, r)
					}
				})
			}
			if p.forceClose {
				vsched.GoNamed("forcer", func() {
					c := begin("forcer", "force", "")
					s.ForceClose()
					finish(c, "")
				})
			}
		}
		fin := func(e *vsched.Execution) sched.Outcome {
			if !e.Deadlock && !e.Livelock && s != nil {
				final = s.GetDataType() // everything closed: returns the stored type or *
			}
			return p.check(calls, final, e)
		}
		return &sched.Instance{Body: body, Finish: fin}
	}}
}

func (p dtSc) check(calls []*call, final string, e *vsched.Execution) sched.Outcome {
	var gets []string
	for _, c := range calls {
		if c.kind == "get" {
			gets = append(gets, c.thread+"="+c.res)
		}
	}
	out := sched.Outcome{Key: fmt.Sprintf("gets=%v final=%s", gets, final), NonTrivial: true}
	if e.Deadlock || e.Livelock || len(e.Panics) > 0 {
		return out
	}
	fail := func(cl, d string) sched.Outcome { out.Clause, out.Detail = cl, d; return out }
	forced := func(before int) bool {
		for _, c := range calls {
			if c.kind == "force" && c.start < before {
				return true
			}
		}
		return false
	}
	// the candidates for "first valid declaration": valid sets not preceded in real time by another valid set
	first := map[string]bool{}
	anyValid := false
	for _, c := range calls {
		if c.kind != "set" || !valid(c.arg) {
			continue
		}
		anyValid = true
		preceded := false
		for _, d := range calls {
			if d != c && d.kind == "set" && valid(d.arg) && d.end < c.start {
				preceded = true
			}
		}
		if !preceded {
			first[c.arg] = true
		}
	}
	seen := ""
	for _, c := range calls {
		if c.kind != "get" {
			continue
		}
		if c.res != "*" {
			if !first[c.res] {
				return fail("first-declaration-wins", fmt.Sprintf("%s GetDataType returned %q which is not a first valid declaration (candidates %v)", c.thread, c.res, keys(first)))
			}
			if seen != "" && seen != c.res {
				return fail("never-changes", fmt.Sprintf("GetDataType returned %q and %q in one execution", seen, c.res))
			}
			seen = c.res
			continue
		}
		// "*": only when no valid declaration had completed before the call began …
		for _, d := range calls {
			if d.kind == "set" && valid(d.arg) && d.end < c.start {
				return fail("declared-type-returned", fmt.Sprintf("%s GetDataType returned * although SetDataType(%q) had completed before the call", c.thread, d.arg))
			}
		}
		// … and, when the * is the reader-side abort after ForceClose, no valid declaration had completed
		// before the ForceClose began either: the aborting reader looks at the type after it has seen the
		// cancellation, so a type declared before the cancellation is there to be seen
		for _, f := range calls {
			if f.kind != "force" || f.start > c.end {
				continue
			}
			for _, d := range calls {
				if d.kind == "set" && valid(d.arg) && d.end < f.start {
					return fail("declared-type-returned", fmt.Sprintf("%s GetDataType returned * after ForceClose although SetDataType(%q) had completed before the ForceClose began", c.thread, d.arg))
				}
			}
		}
		// … and only once every writer has (at least begun to) close, or after ForceClose
		if !forced(c.end) {
			for i := range p.writers {
				th := fmt.Sprintf("writer%d", i)
				closed := false
				for _, d := range calls {
					if d.kind == "close" && d.thread == th && d.start < c.end {
						closed = true
					}
				}
				if !closed {
					return fail("waits-for-declaration", fmt.Sprintf("%s GetDataType returned * while %s had neither declared a type nor closed", c.thread, th))
				}
			}
		}
	}
	// a non-* result, once seen by anybody, must also be seen by every later call
	for _, a := range calls {
		for _, b := range calls {
			if a.kind == "get" && b.kind == "get" && a.res != "*" && a.end < b.start && b.res != a.res {
				return fail("never-changes", fmt.Sprintf("GetDataType returned %q and later %q", a.res, b.res))
			}
		}
	}
	if anyValid && !first[final] && !p.forceClose {
		return fail("first-declaration-wins", fmt.Sprintf("final type %q is not a first valid declaration (candidates %v)", final, keys(first)))
	}
	if !anyValid && final != "*" {
		return fail("generic-when-undeclared", fmt.Sprintf("no valid declaration but final type is %q", final))
	}
	if seen != "" && final != seen {
		return fail("never-changes", fmt.Sprintf("readers saw %q, final type is %q", seen, final))
	}
	return out
}

func keys(m map[string]bool) string {
	var k []string
	for s := range m {
		k = append(k, s)
	}
	// tiny sets; order-insensitive text
	if len(k) == 2 && k[0] > k[1] {
		k[0], k[1] = k[1], k[0]
	}
	return strings.Join(k, ",")
}

func c02Scenarios(quick bool) []*sched.Scenario {
	ps := []dtSc{
		{writers: [][]string{{"json"}}, readers: []int{1}},
		{writers: [][]string{{"json"}, {"str"}}, readers: []int{2}},
		{writers: [][]string{{"", "json"}, {"null", "str"}}, readers: []int{1, 1}},
		{writers: [][]string{{""}, {"null"}}, readers: []int{1}},
		{writers: [][]string{{"json"}, {"str"}}, readers: []int{1}, forceClose: true},
		{writers: [][]string{{"json", "str"}}, readers: []int{2}, tee: true},
		{writers: [][]string{{}, {"str"}}, readers: []int{1, 1}},
		{writers: [][]string{{"null"}, {}}, readers: []int{2}, forceClose: true},
		{writers: [][]string{{"null", "json"}}, readers: []int{1}, tee: true},
		{writers: [][]string{{"", "str"}, {"json"}}, readers: []int{1}, tee: true},
	}
	if !quick {
		types := [][]string{{}, {""}, {"null"}, {"json"}, {"str"}, {"", "json"}, {"json", "str"}}
		for _, a := range types {
			for _, b := range types {
				for _, r := range [][]int{{1}, {2}, {1, 1}} {
					ps = append(ps, dtSc{writers: [][]string{a, b}, readers: r})
				}
			}
			ps = append(ps, dtSc{writers: [][]string{a, {"str"}}, readers: []int{1}, forceClose: true})
			ps = append(ps, dtSc{writers: [][]string{a, {"str"}}, readers: []int{1}, tee: true})
		}
	}
	var out []*sched.Scenario
	seen := map[string]bool{}
	for _, p := range ps {
		if !seen[p.name()] {
			seen[p.name()] = true
			out = append(out, p.scenario())
		}
	}
	return out
}

func init() {
	vlib.Register(&vlib.Check{
		ID: "C02", Engine: "E1",
		Rule: "drivers of 1-2 writers (SetDataType arguments from {'', null, json, str}, then Close), 1-2 readers (1-2 GetDataType calls), optional ForceClose thread, optional Tee, on a fresh streams.Stdin; ALL interleavings with at most B preemptions enumerated by stateless DFS; each call is stamped with a logical clock at invocation and return and the oracle is the real-time-order reading of the statement (a linearizability-style check); non-trivial = executions containing at least one preemption",
		Run: func(c *vlib.Ctx) {
			b := 3
			if !c.Quick() {
				b = 4
			}
			sched.RunAll(c, c02Scenarios(c.Quick()), b)
		},
		Replay:      func(c *vlib.Ctx, w string) { sched.Replay(c, c02Scenarios(false), w) },
		Assumptions: []string{"scheduling points = every sync/channel/Sleep/go operation of the murex module (source overlay)", "after ForceClose a reader may get * (documented reader-side abort); the secondary stream of a Tee is not asserted"},
	})
}
