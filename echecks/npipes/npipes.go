// Package npipes: C26 — named-pipe registry under every interleaving of its operations with the
// asynchronous close timers, on the real pipes.Named object.
package npipes

import (
	"fmt"
	"sort"
	"strings"

	"verif/sched"
	"verif/vlib"

	"github.com/lmorg/murex/builtins/pipes/streams"
	"github.com/lmorg/murex/lang/pipes"
	"github.com/lmorg/murex/lang/stdio"
	"verif/shim/vsched"
)

type op struct {
	kind string // create close delete get getw dump
	name string
}

func (o op) String() string {
	if o.kind == "dump" {
		return "dump"
	}
	return o.kind + " " + o.name
}

type rec struct {
	op         op
	thread     int
	start, end int
	ok         bool            // the operation returned no error
	dump       map[string]bool // for dump
}

type npSc struct{ threads [][]op }

func (p npSc) name() string {
	var parts []string
	for _, t := range p.threads {
		var s []string
		for _, o := range t {
			s = append(s, o.String())
		}
		parts = append(parts, strings.Join(s, "; "))
	}
	return strings.Join(parts, " || ")
}

func (p npSc) scenario() *sched.Scenario {
	return &sched.Scenario{Name: p.name(), New: func() *sched.Instance {
		var recs []*rec
		clock := 0
		var n pipes.Named
		var final map[string]string
		run := func(th int, ops []op) {
			for _, o := range ops {
				vsched.UserPoint()
				clock++
				r := &rec{op: o, thread: th, start: clock, end: 1 << 30}
				recs = append(recs, r)
				switch o.kind {
				case "create":
					r.ok = n.CreatePipe(o.name, "vcounted", "") == nil
				case "close":
					r.ok = n.Close(o.name) == nil
				case "delete":
					r.ok = n.Delete(o.name) == nil
				case "get", "getw":
					io, err := n.Get(o.name)
					r.ok = err == nil && io != nil
					if r.ok && o.kind == "getw" {
						io.Write([]byte("x"))
					}
				case "dump":
					r.ok = true
					r.dump = map[string]bool{}
					for k := range n.Dump() {
						r.dump[k] = true
					}
				}
				clock++
				r.end = clock
			}
		}
		body := func() {
			closeCounters = closeCounters[:0]
			n = pipes.NewNamed()
			if len(p.threads) == 1 {
				run(0, p.threads[0])
				return
			}
			for i, t := range p.threads {
				i, t := i, t
				vsched.GoNamed(fmt.Sprintf("main%d", i), func() { run(i, t) })
			}
		}
		fin := func(e *vsched.Execution) sched.Outcome {
			if !e.Deadlock && !e.Livelock && len(e.Panics) == 0 {
				final = n.Dump()
			}
			return check(recs, final, e)
		}
		return &sched.Instance{Body: body, Finish: fin}
	}}
}

// countedPipe: a std stream whose Close calls are counted per instance (a registered pipe type, exactly
// like the test-only types murex's own tests register): the registry must close a pipe at most once.
type countedPipe struct {
	*streams.Stdin
	closes *int
}

func (p *countedPipe) Close() {
	*p.closes++
	p.Stdin.Close()
}

var closeCounters []*int

func init() {
	stdio.RegisterPipe("vcounted", func(string) (stdio.Io, error) {
		n := new(int)
		closeCounters = append(closeCounters, n)
		return &countedPipe{Stdin: streams.NewStdin(), closes: n}, nil
	})
}

type nstate struct {
	present bool
	pending int // close timers started while this pipe has been continuously present: they must still delete it
	stale   int // close timers that may already have fired harmlessly while the name was absent (or may still fire)
}

// gone: the name just became absent; every timer still pending may now fire without any effect.
func (s *nstate) gone() {
	s.present = false
	s.stale += s.pending
	s.pending = 0
}

// apply one observed operation to the model; returns an error text when the observation cannot be
// explained (with any firing of the pending timers).
func apply(st map[string]*nstate, r *rec) string {
	observe := func(name string, present bool) string {
		s := st[name]
		if s == nil {
			s = &nstate{}
			st[name] = s
		}
		if present {
			if !s.present {
				return fmt.Sprintf("%v behaved as if pipe %q exists, but it does not", r.op, name)
			}
			return ""
		}
		if s.present {
			if s.pending > 0 {
				s.pending-- // a close timer has fired
				s.gone()
				return ""
			}
			if s.stale > 0 {
				s.stale-- // a timer left over from an earlier incarnation of the name has fired
				s.gone()
				return ""
			}
			return fmt.Sprintf("%v behaved as if pipe %q is missing, but it is live and was never closed", r.op, name)
		}
		return ""
	}
	name := r.op.name
	switch r.op.kind {
	case "create":
		if r.ok {
			if msg := observe(name, false); msg != "" {
				return "names-unique: " + msg
			}
			st[name].present = true
		} else if msg := observe(name, true); msg != "" {
			return msg
		}
	case "close":
		if msg := observe(name, r.ok); msg != "" {
			return "missing-pipe-errors: " + msg
		}
		if r.ok {
			st[name].pending++
		}
	case "delete":
		if msg := observe(name, r.ok); msg != "" {
			return "missing-pipe-errors: " + msg
		}
		if r.ok {
			st[name].gone()
		}
	case "get", "getw":
		if msg := observe(name, r.ok); msg != "" {
			return "missing-pipe-errors: " + msg
		}
	case "dump":
		for _, nm := range []string{"p", "q"} {
			if msg := observe(nm, r.dump[nm]); msg != "" {
				return "registry-contents: " + msg
			}
		}
		if !r.dump["null"] {
			return "registry-contents: the null pipe disappeared"
		}
	}
	return ""
}

// linearize: is there an order of the recorded operations, consistent with real time, under which every
// observation and the final registry are explained by the model?
func linearize(recs []*rec, final map[string]string) string {
	n := len(recs)
	used := make([]bool, n)
	lastMsg := ""
	var try func(st map[string]*nstate, done int) bool
	try = func(st map[string]*nstate, done int) bool {
		if done == n {
			for nm, s := range st {
				_, inFinal := final[nm]
				switch {
				case s.present && s.pending == 0 && s.stale == 0 && !inFinal:
					lastMsg = fmt.Sprintf("registry-contents: live pipe %q is missing from the registry at quiescence", nm)
					return false
				case !s.present && inFinal:
					lastMsg = fmt.Sprintf("registry-contents: pipe %q is in the registry at quiescence but was removed", nm)
					return false
				case s.present && s.pending > 0 && inFinal:
					lastMsg = fmt.Sprintf("closed-pipe-disappears: pipe %q was closed, every timer has finished, and it is still registered", nm)
					return false
				}
			}
			for nm := range final {
				if nm != "null" && st[nm] == nil {
					lastMsg = fmt.Sprintf("registry-contents: unknown pipe %q in the registry", nm)
					return false
				}
			}
			return true
		}
		for i := 0; i < n; i++ {
			if used[i] {
				continue
			}
			// real-time order: i cannot go next if an unused op finished before i started
			ok := true
			for j := 0; j < n; j++ {
				if !used[j] && j != i && recs[j].end < recs[i].start {
					ok = false
					break
				}
			}
			if !ok {
				continue
			}
			cp := map[string]*nstate{}
			for k, v := range st {
				c := *v
				cp[k] = &c
			}
			if msg := apply(cp, recs[i]); msg != "" {
				lastMsg = msg
				continue
			}
			used[i] = true
			if try(cp, done+1) {
				used[i] = false
				return true
			}
			used[i] = false
		}
		return false
	}
	if try(map[string]*nstate{}, 0) {
		return ""
	}
	return lastMsg
}

func check(recs []*rec, final map[string]string, e *vsched.Execution) sched.Outcome {
	var obs []string
	for _, r := range recs {
		s := fmt.Sprintf("%v=%v", r.op, r.ok)
		if r.dump != nil {
			var k []string
			for nm := range r.dump {
				k = append(k, nm)
			}
			sort.Strings(k)
			s = "dump=" + strings.Join(k, "+")
		}
		obs = append(obs, s)
	}
	var fk []string
	for nm := range final {
		fk = append(fk, nm)
	}
	sort.Strings(fk)
	out := sched.Outcome{Key: fmt.Sprintf("%v final=%v", obs, fk), NonTrivial: e.NThreads > 1}
	if e.Deadlock || e.Livelock || len(e.Panics) > 0 {
		return out
	}
	for _, r := range recs {
		if r.end == 1<<30 {
			out.Clause, out.Detail = "op-returns", fmt.Sprintf("%v never returned", r.op)
			return out
		}
	}
	for _, k := range closeCounters {
		if *k > 1 {
			out.Clause, out.Detail = "pipe-closed-once", fmt.Sprintf("the registry closed one pipe object %d times (its writer count goes negative)", *k)
			return out
		}
	}
	if msg := linearize(recs, final); msg != "" {
		cl, _, _ := strings.Cut(msg, ":")
		out.Clause, out.Detail = cl, msg
	}
	return out
}

var alpha = []op{{"create", "p"}, {"close", "p"}, {"delete", "p"}, {"get", "p"}, {"dump", ""}, {"create", "q"}, {"close", "q"}, {"delete", "q"}, {"getw", "p"}}

// RaceScenarios: the two-thread drivers, re-used by C32 under the race detector.
func RaceScenarios() []*sched.Scenario {
	var out []*sched.Scenario
	for _, sc := range scenarios(true) {
		if strings.Contains(sc.Name, " || ") {
			out = append(out, sc)
		}
	}
	return out
}

func scenarios(quick bool) []*sched.Scenario {
	var out []*sched.Scenario
	maxLen := 3
	if !quick {
		maxLen = 4
	}
	vlib.Seqs(len(alpha), 1, maxLen, func(idx []int) bool {
		var ops []op
		for _, i := range idx {
			ops = append(ops, alpha[i])
		}
		out = append(out, npSc{threads: [][]op{ops}}.scenario())
		return true
	})
	// two concurrent scopes, ≤2 operations each, on the colliding name p
	red := alpha[:5]
	var seqs [][]op
	vlib.Seqs(len(red), 1, 2, func(idx []int) bool {
		var ops []op
		for _, i := range idx {
			ops = append(ops, red[i])
		}
		seqs = append(seqs, ops)
		return true
	})
	for i, a := range seqs {
		for j, b := range seqs {
			if quick && (i+j)%3 != 0 && len(a)+len(b) == 4 {
				continue // quick tier: every pair with ≤3 ops in total and a third of the 2+2 pairs
			}
			out = append(out, npSc{threads: [][]op{a, b}}.scenario())
		}
	}
	return out
}

func init() {
	vlib.Register(&vlib.Check{
		ID: "C26", Engine: "E1",
		Rule: "every operation sequence of length <= L over {create,close,delete,get,get+write,dump} x names {p,q} issued by one thread, and every pair of sequences of <= 2 operations on the colliding name p issued by two threads, on a fresh pipes.Named; the close timers (go closePipe: Sleep 2 s then delete) are controlled threads that may run at any scheduling point; ALL interleavings with <= B preemptions are enumerated; oracle = no goroutine panic, no deadlock, and the observed results + final registry must be explained by some real-time-consistent linearization of a registry model in which a closed pipe may disappear at any moment after Close; non-trivial = executions with a timer thread or a second main thread and at least one preemption",
		Run: func(c *vlib.Ctx) {
			b := 2
			sched.RunAllByScenario(c, scenarios(c.Quick()), b)
		},
		Replay:      func(c *vlib.Ctx, w string) { sched.Replay(c, scenarios(false), w) },
		Assumptions: []string{"the 2 s grace period and the 100 ms lookup retries are modelled as yields (a sleeper resumes at any later scheduling point), not as durations", "data written to / read from a looked-up pipe is not asserted here (C01)"},
	})
}
