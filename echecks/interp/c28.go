package interp

import (
	"fmt"
	"sort"

	"verif/sched"
	"verif/vlib"

	"github.com/lmorg/murex/lang"
	"verif/shim/vsched"
)

var c28Programs = []string{
	"out x",
	"out x -> regexp m/x/",
	"a [1..2] -> foreach v { out $v }",
	"function vg { out x -> regexp m/x/ }; vg",
	"try { false; out never }",
	"trypipe { out a -> regexp m/z/ -> out never }",
	"a [1..3] -> foreach v { if { $v == 2 } then { break foreach }; out $v }",
	"function vr { out 1; return 3; out 2 }; vr",
	"true || out a || out b",
	"if { false } then { out 1 } else { out 2 -> regexp m/2/ }",
	"out ${ out sub }",
	"v = %[1,2]; out @v",
	"trypipe { true || out a || out b }",
	"try { true || out a || out b; out c }",
	"function vtp { runmode trypipe function; out 1 || out 2 || out 3 }; vtp",
	"trypipe { false || out a -> regexp m/a/ || out b }",
	"function vtc (x: int) { out $x }; vtc notanumber; out after",
}

func c28Scenario(a, b string) *sched.Scenario {
	return &sched.Scenario{Name: a + " || " + b, PreemptAt: SharedVisible, MaxSteps: 400000, New: func() *sched.Instance {
		var baseline map[uint32]*lang.Process
		seen := map[uint32]*lang.Process{} // keeps every process object alive: addresses are never reused
		viol := ""
		monitor := func() {
			if viol != "" {
				return
			}
			for fid, p := range lang.VerifFIDs() {
				if p == nil {
					continue
				}
				if q, ok := seen[fid]; ok && q != p {
					// (no method that takes a lock may be called from the monitor)
					viol = fmt.Sprintf("FID %d was assigned to two different process objects (%p and %p)", fid, q, p)
				}
				seen[fid] = p
				if p.Id != fid {
					viol = fmt.Sprintf("process %p carries Id %d but is registered under FID %d", p, p.Id, fid)
				}
			}
		}
		var ra, rb Result
		body := func() {
			ResetGlobals()
			baseline = lang.VerifFIDs()
			vsched.GoNamed("session-a", func() { ra = RunBlock(a, "verif/c28a") })
			vsched.GoNamed("session-b", func() { rb = RunBlock(b, "verif/c28b") })
		}
		fin := func(e *vsched.Execution) sched.Outcome {
			o := sched.Outcome{Key: fmt.Sprintf("a:%q/%d b:%q/%d", ra.Out, ra.Exit, rb.Out, rb.Exit), NonTrivial: true}
			if e.Deadlock || e.Livelock || len(e.Panics) > 0 {
				return o
			}
			if viol != "" {
				o.Clause, o.Detail = "fid-unique", viol
				return o
			}
			var left []string
			for fid, p := range lang.VerifFIDs() {
				if _, ok := baseline[fid]; !ok {
					left = append(left, fmt.Sprintf("%d:%s", fid, p.Name.String()))
				}
			}
			if len(left) > 0 {
				sort.Strings(left)
				o.Clause, o.Detail = "fid-released", fmt.Sprintf("after both programs finished and every goroutine ended the FID table still holds %v", left)
			}
			return o
		}
		return &sched.Instance{Body: body, Finish: fin, Monitor: monitor}
	}}
}

func c28Scenarios(quick bool) []*sched.Scenario {
	var out []*sched.Scenario
	for i, a := range c28Programs {
		for j, b := range c28Programs {
			// quick tier: every program against the simplest one and against a second copy of itself
			if quick && j != 0 && j != i {
				continue
			}
			out = append(out, c28Scenario(a, b))
		}
	}
	return out
}

func init() {
	vlib.Register(&vlib.Check{
		ID: "C28", Engine: "E1",
		Rule: "two session threads each execute one program (pipelines, functions, nested blocks, try/trypipe failures, early break/return, || skips) through the real interpreter under the controlled scheduler; ALL schedules with at most B deviations from the default schedule are enumerated; a monitor evaluated at EVERY scheduling point snapshots the FID table and requires that no FID is ever held by two different process objects and that every entry's Id equals its key; at quiescence (every goroutine, including the asynchronous deregistration ones, has ended) the table must contain nothing that was registered during the run; non-trivial = schedules with at least one deviation",
		Run: func(c *vlib.Ctx) {
			Init(c.WorkDir)
			b := 1
			if !c.Quick() {
				b = 2
			}
			runC28(c, c28Scenarios(c.Quick()), b)
		},
		Replay: func(c *vlib.Ctx, w string) {
			Init(c.WorkDir)
			sched.Replay(c, c28Scenarios(false), w)
		},
		Assumptions: []string{"preemptions only at shared-visible operations; forced switches everywhere", "FID table read through a verif-tagged overlay accessor (lang.VerifFIDs) without locking while all threads are parked"},
	})
}

func runC28(c *vlib.Ctx, scs []*sched.Scenario, b int) {
	// scenario-level sharding with deviation bounding
	var mine []*sched.Scenario
	for i, s := range scs {
		if c.Mine(uint64(i)) {
			mine = append(mine, s)
		}
	}
	sched.RunAllDevWhole(c, mine, b)
}
