// Package interp: whole-interpreter drivers under the controlled scheduler (C03, C28, C32).
package interp

import (
	"strings"
	"sync"

	_ "github.com/lmorg/murex/builtins"
	"github.com/lmorg/murex/config"
	"github.com/lmorg/murex/config/defaults"
	"github.com/lmorg/murex/lang"
	"github.com/lmorg/murex/lang/pipes"
	"github.com/lmorg/murex/lang/ref"
	"github.com/lmorg/murex/utils/cache"
	"verif/shim/vsched"
)

var once sync.Once

func Init(dir string) {
	once.Do(func() {
		cache.SetPath(dir + "/cache.db")
		defaults.Config(config.InitConf, false)
		lang.InitEnv()
	})
}

type Result struct {
	Out, Err string
	Exit     int
}

// ResetGlobals puts the session-wide state the programs touch back to its initial value so that every
// execution starts from the same state.
func ResetGlobals() {
	lang.GlobalPipes = pipes.NewNamed()
	lang.GlobalVariables = lang.NewGlobals()
}

// RunBlock executes block in a fresh function-scope fork (the seam test.RunMurexTests uses).
func RunBlock(block string, module string) Result { return RunBlockWith(block, module, nil) }

// RunBlockWith calls afterFork once the fork and its (production-sized) output streams exist and
// before the block runs.
func RunBlockWith(block string, module string, afterFork func()) Result {
	fork := lang.ShellProcess.Fork(lang.F_FUNCTION | lang.F_NEW_MODULE | lang.F_NO_STDIN | lang.F_CREATE_STDOUT | lang.F_CREATE_STDERR)
	fork.Name.Set("verif")
	fork.FileRef = &ref.File{Source: &ref.Source{Module: module}}
	if afterFork != nil {
		afterFork()
	}
	exitNum, _ := fork.Execute([]rune(block))
	bErr, _ := fork.Stderr.ReadAll()
	bOut, _ := fork.Stdout.ReadAll()
	return Result{string(bOut), string(bErr), exitNum}
}

// sharedVisible: preemptions are offered only at operations on objects that two threads can see.
var sharedFrames = []string{
	"streams.(*Stdin).", "streams.(*Tee).", "lang.waitProcess", "lang.(*funcID).", "pipes.(*Named).",
	"lang.(*jobs).", "lang.(*Process).HasTerminated", "lang.(*Process).SetTerminatedState", "lang.destroyProcess",
	"lang.deregisterProcess", "lang.(*Variables).", "lang.executeProcess", "lang.runMode", "lang.(*Fork).Execute",
	"state.(*State)", "lang.(*Process).HasCancelled", "process.(*", "null.(*Null)",
}

var siteClass sync.Map // site hash -> bool

func SharedVisible(p *vsched.Point) bool {
	switch p.Kind {
	case vsched.OpGo, vsched.OpStart, vsched.OpYield, vsched.OpSend, vsched.OpRecv, vsched.OpUser:
		return true
	}
	if v, ok := siteClass.Load(p.Site); ok {
		return v.(bool)
	}
	shared := false
	for _, f := range vsched.SiteFrames(p.Site) {
		for _, s := range sharedFrames {
			if strings.Contains(f, s) {
				shared = true
			}
		}
	}
	siteClass.Store(p.Site, shared)
	return shared
}
