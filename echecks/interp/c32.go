package interp

import (
	"fmt"
	"os"
	"regexp"
	"sort"
	"strings"

	"verif/echecks/npipes"
	"verif/echecks/pipes"
	"verif/sched"
	"verif/vlib"

	"verif/shim/vsched"
)

// C32: every explored schedule is judged by the Go race detector. The harness is built with -race,
// the scheduler shims are compiled WITHOUT instrumentation and hand the token over with raw futex
// waits, so the only happens-before edges the detector sees are the program's own (real mutexes, real
// buffered channels, goroutine creation, and explicit annotations for the emulated rendezvous).

type c32Prog struct {
	name     string
	sessions []string // one controlled thread per session, each executes its block
}

var c32Programs = []c32Prog{
	{"pipeline", []string{"out x -> regexp m/x/"}},
	{"foreach", []string{"a [1..3] -> foreach v { out $v }"}},
	{"function", []string{"function vh { out x -> regexp m/x/ }; vh; vh"}},
	{"variables", []string{"v = 1; out $v; $v = 2; out $v"}},
	{"bg-global", []string{"$GLOBAL.vgg = 1; bg { $GLOBAL.vgg = 2 }; out $GLOBAL.vgg"}},
	{"foreach-parallel", []string{"a [1..3] -> foreach --parallel 2 v { out $v }"}},
	{"named-pipe", []string{"pipe vp; bg { <vp> -> set x }; out hi -> <vp>; !pipe vp"}},
	{"two-sessions-global", []string{"$GLOBAL.vgs = 1; out $GLOBAL.vgs", "$GLOBAL.vgs = 2; out $GLOBAL.vgs"}},
	{"two-sessions-config", []string{"config set shell max-suggestions 5", "config get shell max-suggestions"}},
	{"two-sessions-function", []string{"function vk { out a }; vk", "function vk { out b }; vk"}},
	{"try-abort", []string{"try { out a -> regexp m/z/; out never }"}},
	{"two-sessions-pipe", []string{"pipe vq; out 1 -> <vq>; !pipe vq", "pipe vr; !pipe vr"}},
	{"global-typed-reassign", []string{"global path vpp = /a/b; bg { global path vpp = /c/d }; out $vpp; out $vpp"}},
	{"two-sessions-typed", []string{"global int vti = 1; global int vti = 2", "out $vti; out $vti"}},
	{"set-while-block-compiles", []string{"a [1..2] -> foreach i { out $i } -> set vz; out $vz"}},
	{"bg-local", []string{"bg { vla = 1 }; vlb = 2; out $vlb"}},
	// two stages of one pipeline inside a function share the function's parameters: one expands them, the
	// other parses (and, for an alias, rewrites) its copy
	{"params-shared-by-stages", []string{"function vra { out $1 $2 $PARAMS | args a %{AllowAdditional: true, Flags: {--bool: bool, -b: --bool}} }; vra -b foo"}},
}

var c32More = []c32Prog{
	// whole-table dumps while another job writes the table
	{"runtime-aliases-vs-alias", []string{"bg { alias vra=out a }; runtime --aliases -> null"}},
	{"runtime-globals-vs-global", []string{"bg { global vrg = 1 }; runtime --globals -> null"}},
	{"runtime-fids-vs-alias-flag", []string{"bg { runtime --fids -> null }; tout json ({\"a\":{\"b\":1}}) -> struct-keys -d 1 -> null"}},
	{"two-writers-one-structure", []string{"set json vjs = ({\"k\": 1}); bg { $vjs.k = 2 }; $vjs.k = 3; out $vjs"}},
	{"args", []string{"args %{AllowAdditional: true} fl; out $fl", "args %{AllowAdditional: true} fm; out $fm"}},
	{"alias", []string{"alias vz=out z; vz", "alias vy=out y; vy"}},
	{"subshell", []string{"out ${ out sub } @{ a [1..2] }"}},
	{"switch", []string{"switch { case { false } { out 1 } default { out 2 } }"}},
	{"format", []string{"tout json [3,1,2] -> msort -> format yaml"}},
	{"bg-pipeline", []string{"bg { a [1..3] -> foreach v { out $v } }; out fg"}},
	{"global-read-write", []string{"global vgw = a; bg { global vgw = b }; out $vgw; out $vgw"}},
	{"two-foreach", []string{"a [1..2] -> foreach v { out $v }", "a [1..2] -> foreach w { out $w }"}},
}

var canaryCounter int

func canaryScenario() *sched.Scenario {
	return &sched.Scenario{Name: "canary", New: func() *sched.Instance {
		return &sched.Instance{
			Body: func() {
				vsched.GoNamed("c1", func() { canaryCounter++ })
				vsched.GoNamed("c2", func() { canaryCounter++ })
			},
			Finish: func(e *vsched.Execution) sched.Outcome { return sched.Outcome{Key: "canary"} },
		}
	}}
}

func c32Scenario(p c32Prog) *sched.Scenario {
	return &sched.Scenario{Name: p.name, PreemptAt: SharedVisible, MaxSteps: 400000, New: func() *sched.Instance {
		res := make([]Result, len(p.sessions))
		body := func() {
			ResetGlobals()
			if len(p.sessions) == 1 {
				res[0] = RunBlock(p.sessions[0], "verif/c32")
				return
			}
			for i, s := range p.sessions {
				i, s := i, s
				vsched.GoNamed(fmt.Sprintf("session%d", i), func() { res[i] = RunBlock(s, fmt.Sprintf("verif/c32-%d", i)) })
			}
		}
		fin := func(e *vsched.Execution) sched.Outcome {
			k := ""
			for _, r := range res {
				k += fmt.Sprintf("%q/%d ", r.Out, r.Exit)
			}
			return sched.Outcome{Key: k, NonTrivial: true}
		}
		return &sched.Instance{Body: body, Finish: fin}
	}}
}

// ---- race log handling -------------------------------------------------------------------------

var raceLogOff int64

func raceLogPath() string {
	for _, kv := range strings.Fields(os.Getenv("GORACE")) {
		if strings.HasPrefix(kv, "log_path=") {
			return fmt.Sprintf("%s.%d", strings.TrimPrefix(kv, "log_path="), os.Getpid())
		}
	}
	return ""
}

func newRaceReports() []string {
	p := raceLogPath()
	if p == "" {
		return nil
	}
	b, err := os.ReadFile(p)
	if err != nil || int64(len(b)) <= raceLogOff {
		return nil
	}
	txt := string(b[raceLogOff:])
	raceLogOff = int64(len(b))
	var out []string
	for _, blk := range strings.Split(txt, "==================") {
		if strings.Contains(blk, "WARNING: DATA RACE") {
			out = append(out, blk)
		}
	}
	return out
}

var (
	reAccess = regexp.MustCompile(`(?m)^(Write|Read|Previous write|Previous read|Atomic write|Atomic read|Previous atomic write|Previous atomic read) at 0x[0-9a-f]+ by (goroutine \d+|main goroutine):\n((?:  .*\n      .*\n)+)`)
	reFrame  = regexp.MustCompile(`(?m)^  (\S+)\(.*\)\n      (\S+):(\d+)`)
)

// signature: for each of the two accesses the innermost frame that is murex code; "" when an access
// has no murex frame at all.
func signature(report string) (sig string, murex bool, detail string) {
	var tops []string
	harness := false
	for _, m := range reAccess.FindAllStringSubmatch(report, -1) {
		kind := strings.ToLower(strings.TrimPrefix(m[1], "Previous "))
		top, first := "", ""
		for _, f := range reFrame.FindAllStringSubmatch(m[3], -1) {
			fn := f[1]
			if first == "" {
				first = fn
			}
			if strings.HasPrefix(fn, "github.com/lmorg/murex/") && top == "" {
				top = strings.TrimPrefix(fn, "github.com/lmorg/murex/")
			}
		}
		// an access only counts as murex's when the accessing function itself is murex code or a
		// runtime/stdlib helper called by it (map access, append...), not harness code
		if strings.HasPrefix(first, "verif/") {
			top = ""
			harness = true
		}
		if top != "" {
			murex = true
		}
		tops = append(tops, kind+" "+top)
	}
	if harness {
		murex = false // the harness itself touches the location: not a race of murex code with murex code
	}
	sort.Strings(tops)
	return strings.Join(tops, " <-> "), murex, vlib.Clip(report, 1800)
}

// object-level drivers of C01/C02/C26 run under the race detector as well (preemption bound 1)
func objectLevel(c *vlib.Ctx, seen map[string]bool) {
	scs := append(pipes.RaceScenarios(), npipes.RaceScenarios()...)
	WarmObjects()
	scs = append(scs, ObjectPairScenarios()...)
	if c.Quick() {
		// quick tier: the data-type drivers, four byte-stream drivers and the registry pairs of one
		// operation per thread
		var q []*sched.Scenario
		n01 := 0
		for _, sc := range scs {
			switch {
			case strings.HasPrefix(sc.Name, "set="):
				q = append(q, sc)
			case strings.HasPrefix(sc.Name, "w="):
				if n01 < 4 {
					q = append(q, sc)
				}
				n01++
			case strings.Count(sc.Name, ";") <= 1:
				// registry pairs with at most three operations in total
				q = append(q, sc)
			}
		}
		scs = q
	}
	objOnly := os.Getenv("VERIF_C32_OBJ") // debugging aid: only the object-level drivers whose name contains this
	for i, sc := range scs {
		if objOnly != "" {
			if !strings.Contains(sc.Name, objOnly) || c.Shard != 0 {
				continue
			}
		} else if !c.Mine(uint64(i)) {
			continue
		}
		sc := sc
		x := &sched.Explorer{C: c, Sc: sc, Bound: 1, Whole: true}
		x.After = func(schedule string) {
			for _, r := range newRaceReports() {
				sig, murex, detail := signature(r)
				if !murex {
					c.Extra("harness-only race reports ignored", 1)
					continue
				}
				if seen[sig] {
					continue
				}
				seen[sig] = true
				c.Violation("no-data-race", sig, fmt.Sprintf("object-level driver %q schedule %s\n%s", sc.Name, schedule, detail))
			}
		}
		if !x.Explore() {
			c.Note("driver %s: deadline reached", sc.Name)
			return
		}
		c.P.States += x.St.Execs
		c.Extra("object-level executions", x.St.Execs)
	}
}

func runC32(c *vlib.Ctx, progs []c32Prog, bound int) {
	Init(c.WorkDir)
	if raceLogPath() == "" {
		c.HarnessError("GORACE log_path is not set (run through scripts/sched.sh)")
	}
	// canary: two explorer-serialised unsynchronised increments MUST be reported, otherwise the
	// detector is blinded by the harness and nothing this check says can be believed
	newRaceReports()
	sched.RunOnce(canaryScenario(), nil)
	ok := false
	for _, r := range newRaceReports() {
		if strings.Contains(r, "canaryScenario") {
			ok = true
		}
	}
	if !ok {
		c.HarnessError("race canary was not reported: the race detector does not see through the scheduler")
	}
	c.Extra("canary-reported", 1)
	seen := map[string]bool{}
	only := os.Getenv("VERIF_C32_ONLY")
	if only == "" {
		objectLevel(c, seen)
	}
	if os.Getenv("VERIF_C32_OBJ") != "" {
		return
	}
	for i, p := range progs {
		if only != "" && p.name != only {
			continue
		}
		if !c.Mine(uint64(i)) {
			continue
		}
		sc := c32Scenario(p)
		x := &sched.Explorer{C: c, Sc: sc, Bound: bound, Whole: true, DevBounded: true}
		x.After = func(sched string) {
			for _, r := range newRaceReports() {
				sig, murex, detail := signature(r)
				if !murex {
					c.Extra("harness-only race reports ignored", 1)
					continue
				}
				if seen[sig] {
					continue
				}
				seen[sig] = true
				c.Violation("no-data-race", sig, fmt.Sprintf("program %q schedule %s\n%s", p.name+": "+strings.Join(p.sessions, " || "), sched, detail))
			}
		}
		if !x.Explore() {
			c.Note("program %s: deadline reached (completed bound %d)", p.name, x.St.BoundCompleted)
			break
		}
		c.P.States += x.St.Execs
	}
}

func init() {
	vlib.Register(&vlib.Check{
		ID: "C32", Engine: "E1",
		Rule: "each listed program (sequential pipelines/functions plus concurrent vocabulary: bg, foreach --parallel, named pipes, two sessions sharing globals/config/functions/pipes) is executed by the real interpreter, built with the Go race detector, under the controlled scheduler whose hand-offs are invisible to the detector; ALL schedules with at most B deviations from the default schedule are enumerated and the detector's log is read after every execution; a report counts when at least one of the two accesses is made by murex code; distinct races are keyed by the unordered pair of innermost murex functions; non-trivial = schedules with at least one deviation; a built-in canary race must be reported or the check exits 2",
		Run: func(c *vlib.Ctx) {
			progs, b := append(append([]c32Prog{}, c32Programs[4:9]...), c32Programs[11:]...), 1 // quick: the concurrent vocabulary
			if !c.Quick() {
				progs, b = append(append([]c32Prog{}, c32Programs...), c32More...), 2
			}
			runC32(c, progs, b)
		},
		Assumptions: []string{"only accesses executed by the explored programs and schedules are seen; the detector's shadow history is finite (history_size=5)", "preemptions only at shared-visible operations; forced switches everywhere", "unbuffered channel rendezvous is emulated and annotated with the happens-before edges the real operation creates"},
	})
}
