package interp

// C32, object-level part: for every shared table of the interpreter (variables, parameters, config,
// aliases, functions, private functions, FIDs, methods, unit tests) EVERY unordered pair of its exported
// operations is run by two threads on one instance, under the race detector, over all interleavings with
// at most one preemption. The whole-interpreter programs only reach the operations their vocabulary
// happens to use; this closes the space "any two operations of one table".

import (
	"fmt"
	"sync"

	"verif/sched"
	"verif/shim/vsched"

	"github.com/lmorg/murex/config"
	"github.com/lmorg/murex/lang"
	"github.com/lmorg/murex/lang/parameters"
	"github.com/lmorg/murex/lang/ref"
	"github.com/lmorg/murex/lang/types"
	"github.com/lmorg/murex/utils/ansi"
	"github.com/lmorg/murex/utils/escape"
	mxjson "github.com/lmorg/murex/utils/json"
	"github.com/lmorg/murex/utils/parser"
)

type objOp struct {
	name string
	f    func(o any)
}

type objKind struct {
	name string
	mk   func() any
	ops  []objOp
}

// the job table's type is unexported; these are the methods the interpreter calls
type jobsTable interface {
	Add(*lang.Process)
	GarbageCollect()
	Get(int) (*lang.Process, error)
	GetLatest() (*lang.Process, error)
	GetFromCommandLine(string) (*lang.Process, error)
	List() []*lang.JobT
}

type varsObj struct {
	p *lang.Process
	v *lang.Variables
}

// test processes created by one execution: deregistered (and their context timers released) at its end
var (
	objProcs   []*lang.Process
	objProcsMu sync.Mutex
)

func newProc() *lang.Process {
	p := lang.NewTestProcess()
	objProcsMu.Lock()
	objProcs = append(objProcs, p)
	objProcsMu.Unlock()
	return p
}

func releaseProcs() {
	objProcsMu.Lock()
	for _, p := range objProcs {
		lang.GlobalFIDs.Deregister(p.Id)
		p.Done()
	}
	objProcs = nil
	objProcsMu.Unlock()
}

var objFileRef = &ref.File{Source: &ref.Source{Module: "verif/c32obj"}}

func varsOps() []objOp {
	return []objOp{
		{"Set a", func(o any) { x := o.(*varsObj); x.v.Set(x.p, "a", "1", types.String) }},
		{"Set b(new)", func(o any) { x := o.(*varsObj); x.v.Set(x.p, "b", 2, types.Integer) }},
		{"Set j.k", func(o any) { x := o.(*varsObj); x.v.Set(x.p, "j.k", "3", types.Json) }},
		{"GetString a", func(o any) { o.(*varsObj).v.GetString("a") }},
		{"GetValue j", func(o any) { o.(*varsObj).v.GetValue("j") }},
		{"GetValue j.k", func(o any) { o.(*varsObj).v.GetValue("j.k") }},
		{"GetDataType a", func(o any) { o.(*varsObj).v.GetDataType("a") }},
		{"Unset a", func(o any) { o.(*varsObj).v.Unset("a") }},
		{"Unset c", func(o any) { o.(*varsObj).v.Unset("c") }},
		{"Dump", func(o any) { o.(*varsObj).v.Dump() }},
	}
}

func objKinds() []objKind {
	return []objKind{
		{"local-variables", func() any {
			p := newProc()
			p.Variables.Set(p, "a", "0", types.String)
			p.Variables.Set(p, "c", "0", types.String)
			p.Variables.Set(p, "j", `{"k": 1}`, types.Json)
			return &varsObj{p, p.Variables}
		}, varsOps()},
		{"global-variables", func() any {
			p := newProc()
			lang.GlobalVariables.Set(p, "a", "0", types.String)
			lang.GlobalVariables.Set(p, "c", "0", types.String)
			lang.GlobalVariables.Set(p, "j", `{"k": 1}`, types.Json)
			return &varsObj{p, lang.GlobalVariables}
		}, varsOps()},
		{"parameters", func() any {
			p := new(parameters.Parameters)
			p.DefineParsed([]string{"-b", "foo", "7"})
			return p
		}, []objOp{
			{"String 0", func(o any) { o.(*parameters.Parameters).String(0) }},
			{"StringArray+read", func(o any) {
				for _, s := range o.(*parameters.Parameters).StringArray() {
					_ = len(s)
				}
			}},
			{"StringAll", func(o any) { o.(*parameters.Parameters).StringAll() }},
			{"ByteAll", func(o any) { o.(*parameters.Parameters).ByteAll() }},
			{"RuneArray", func(o any) { o.(*parameters.Parameters).RuneArray() }},
			{"Int 2", func(o any) { o.(*parameters.Parameters).Int(2) }},
			{"Len", func(o any) { o.(*parameters.Parameters).Len() }},
			{"ParseFlags(alias)", func(o any) {
				o.(*parameters.Parameters).ParseFlags(&parameters.Arguments{AllowAdditional: true, Flags: map[string]string{"--bool": "bool", "-b": "--bool"}})
			}},
			{"DefineParsed", func(o any) { o.(*parameters.Parameters).DefineParsed([]string{"x", "y"}) }},
			{"Prepend", func(o any) { o.(*parameters.Parameters).Prepend([]string{"z"}) }},
			{"CopyFrom", func(o any) {
				src := new(parameters.Parameters)
				src.DefineParsed([]string{"q"})
				o.(*parameters.Parameters).CopyFrom(src)
			}},
			{"copy-of", func(o any) { new(parameters.Parameters).CopyFrom(o.(*parameters.Parameters)) }},
		}},
		// a function-scoped Config (what two pipeline stages or bg jobs of one function share) with a local
		// override of the non-global option already in place, plus the session-level table behind it
		{"config", func() any {
			config.InitConf.Define("verif", "loc", config.Properties{Description: "verif: non-global option", Default: "d", DataType: types.String})
			config.InitConf.Define("verif", "glo", config.Properties{Description: "verif: global option", Default: "d", DataType: types.String, Global: true})
			c := config.InitConf.Copy()
			c.Set("verif", "loc", "x", objFileRef)
			return c
		}, []objOp{
			{"Get loc", func(o any) { o.(*config.Config).Get("verif", "loc", types.String) }},
			{"GetFileRef loc", func(o any) { o.(*config.Config).GetFileRef("verif", "loc", types.String) }},
			{"Set loc", func(o any) { o.(*config.Config).Set("verif", "loc", "y", objFileRef) }},
			{"Default loc", func(o any) { o.(*config.Config).Default("verif", "loc", objFileRef) }},
			{"Get glo", func(o any) { o.(*config.Config).Get("verif", "glo", types.String) }},
			{"Set glo", func(o any) { o.(*config.Config).Set("verif", "glo", "y", objFileRef) }},
			{"Get other", func(o any) { o.(*config.Config).Get("shell", "max-suggestions", types.Integer) }},
			{"Set other", func(o any) { o.(*config.Config).Set("shell", "max-suggestions", 7, objFileRef) }},
			{"Copy", func(o any) { o.(*config.Config).Copy() }},
			{"DataType", func(o any) { o.(*config.Config).DataType("verif", "loc") }},
			{"ExistsAndGlobal", func(o any) { o.(*config.Config).ExistsAndGlobal("verif", "loc") }},
			{"DumpRuntime", func(o any) { o.(*config.Config).DumpRuntime() }},
			{"DumpConfig", func(o any) { o.(*config.Config).DumpConfig() }},
			{"Define", func(o any) {
				o.(*config.Config).Define("verif", "opt", config.Properties{Description: "d", Default: 1, DataType: types.Integer})
			}},
			{"root Get loc", func(o any) { config.InitConf.Get("verif", "loc", types.String) }},
			{"root Set loc", func(o any) { config.InitConf.Set("verif", "loc", "z", objFileRef) }},
		}},
		{"aliases", func() any {
			lang.GlobalAliases.Add("va", []string{"out", "a"}, objFileRef)
			return nil
		}, []objOp{
			{"Add va", func(any) { lang.GlobalAliases.Add("va", []string{"out", "b"}, objFileRef) }},
			{"Add vb", func(any) { lang.GlobalAliases.Add("vb", []string{"out", "b"}, objFileRef) }},
			{"Exists", func(any) { lang.GlobalAliases.Exists("va") }},
			{"Get+read", func(any) {
				for _, s := range lang.GlobalAliases.Get("va") {
					_ = len(s)
				}
			}},
			{"Delete", func(any) { lang.GlobalAliases.Delete("va") }},
			{"Dump+read", func(any) {
				for _, a := range lang.GlobalAliases.Dump() {
					_ = len(a.Alias)
				}
			}},
			{"UpdateMap", func(any) { lang.GlobalAliases.UpdateMap(map[string]bool{}) }},
		}},
		{"functions", func() any {
			lang.MxFunctions.Define("vf", nil, []rune("out f"), objFileRef)
			return nil
		}, []objOp{
			{"Define vf", func(any) { lang.MxFunctions.Define("vf", nil, []rune("out g"), objFileRef) }},
			{"Define vg", func(any) { lang.MxFunctions.Define("vg", nil, []rune("out g"), objFileRef) }},
			{"Exists", func(any) { lang.MxFunctions.Exists("vf") }},
			{"Block+read", func(any) {
				b, _ := lang.MxFunctions.Block("vf")
				for _, r := range b {
					_ = r
				}
			}},
			{"Summary", func(any) { lang.MxFunctions.Summary("vf") }},
			{"Undefine", func(any) { lang.MxFunctions.Undefine("vf") }},
			{"Dump", func(any) { lang.MxFunctions.Dump() }},
			{"UpdateMap", func(any) { lang.MxFunctions.UpdateMap(map[string]bool{}) }},
		}},
		{"private-functions", func() any {
			lang.PrivateFunctions.Define("vp", nil, []rune("out p"), objFileRef)
			return nil
		}, []objOp{
			{"Define vp", func(any) { lang.PrivateFunctions.Define("vp", nil, []rune("out q"), objFileRef) }},
			{"Define vq", func(any) { lang.PrivateFunctions.Define("vq", nil, []rune("out q"), objFileRef) }},
			{"Exists", func(any) { lang.PrivateFunctions.Exists("vp", objFileRef) }},
			{"ExistsString", func(any) { lang.PrivateFunctions.ExistsString("vp", "verif/c32obj") }},
			{"BlockString", func(any) { lang.PrivateFunctions.BlockString("vp", "verif/c32obj") }},
			{"Summary", func(any) { lang.PrivateFunctions.Summary("vp", objFileRef) }},
			{"Undefine", func(any) { lang.PrivateFunctions.Undefine("vp", objFileRef) }},
			{"Dump", func(any) { lang.PrivateFunctions.Dump() }},
		}},
		{"fids", func() any {
			return newProc()
		}, []objOp{
			{"Register(new)", func(any) { newProc() }},
			{"Deregister", func(o any) { lang.GlobalFIDs.Deregister(o.(*lang.Process).Id) }},
			{"Proc", func(o any) { lang.GlobalFIDs.Proc(o.(*lang.Process).Id) }},
			{"ListAll", func(any) { lang.GlobalFIDs.ListAll() }},
			{"List", func(any) { lang.GlobalFIDs.List() }},
			{"Dump", func(any) { lang.GlobalFIDs.Dump() }},
		}},
		{"methods", func() any {
			lang.MethodStdin.Define("vm", types.String)
			return nil
		}, []objOp{
			{"Define same", func(any) { lang.MethodStdin.Define("vm", types.String) }},
			{"Define new", func(any) { lang.MethodStdin.Define("vn", types.String) }},
			{"Exists", func(any) { lang.MethodStdin.Exists("vm", types.String) }},
			{"Get+read", func(any) {
				for _, s := range lang.MethodStdin.Get(types.String) {
					_ = len(s)
				}
			}},
			{"Types+read", func(any) {
				for _, s := range lang.MethodStdin.Types("vm") {
					_ = len(s)
				}
			}},
			{"Dump", func(any) { lang.MethodStdin.Dump() }},
		}},
		// functions that have no business sharing anything: a scratch buffer or cache hoisted to package
		// scope shows up as a race between two calls
		{"stateless-functions", func() any { return nil }, []objOp{
			{"float->str", func(any) { types.ConvertGoType(2306.1428571428573, types.String) }},
			{"float->str 2", func(any) { types.ConvertGoType(5603.2857142857141, types.String) }},
			{"int->str", func(any) { types.ConvertGoType(7, types.String) }},
			{"str->int", func(any) { types.ConvertGoType("12", types.Integer) }},
			{"str->num", func(any) { types.ConvertGoType("1.5", types.Number) }},
			{"str->bool", func(any) { types.ConvertGoType("true", types.Boolean) }},
			{"bool->str", func(any) { types.ConvertGoType(true, types.String) }},
			{"str->json", func(any) { types.ConvertGoType(`{"a": [1, 2]}`, types.Json) }},
			{"escape.CommandLine", func(any) { escape.CommandLine([]string{"a b", "c'd"}) }},
			{"escape.Table", func(any) { escape.Table([]string{"a b", "c\"d"}) }},
			{"parser.Parse", func(any) { parser.Parse([]rune("out 'x' | grep { y } > f"), 0) }},
			{"json.Marshal", func(any) { mxjson.Marshal(map[string]any{"a": []any{1, "b"}}, false) }},
			{"json.UnmarshalMurex", func(any) { var v any; mxjson.UnmarshalMurex([]byte(`{"a": [1, "b"]}`), &v) }},
			{"ansi.ExpandConsts", func(any) { ansi.ExpandConsts("{RED}x{RESET}") }},
		}},
		{"jobs", func() any {
			j := lang.NewJobs()
			p := newProc()
			j.Add(p)
			return j
		}, []objOp{
			{"Add", func(o any) { o.(jobsTable).Add(newProc()) }},
			{"Add finished", func(o any) {
				p := newProc()
				p.SetTerminatedState(true)
				o.(jobsTable).Add(p)
			}},
			{"GarbageCollect", func(o any) { o.(jobsTable).GarbageCollect() }},
			{"Get 1", func(o any) { o.(jobsTable).Get(1) }},
			{"GetLatest", func(o any) { o.(jobsTable).GetLatest() }},
			{"GetFromCommandLine", func(o any) { o.(jobsTable).GetFromCommandLine("x") }},
			{"List", func(o any) { o.(jobsTable).List() }},
		}},
		{"unit-tests", func() any {
			lang.GlobalUnitTests.Add("vf", &lang.UnitTestPlan{StdoutMatch: "f\n"}, objFileRef)
			return nil
		}, []objOp{
			{"Add", func(any) { lang.GlobalUnitTests.Add("vf", &lang.UnitTestPlan{StdoutMatch: "g\n"}, objFileRef) }},
			{"Dump", func(any) { lang.GlobalUnitTests.Dump() }},
		}},
	}
}

// WarmObjects runs every operation once outside the scheduler so that one-time initialisation (cached host
// name, lazily built tables, sync.Once bodies) does not make the first execution differ from the later ones.
func WarmObjects() {
	for _, k := range objKinds() {
		ResetGlobals()
		o := k.mk()
		for _, op := range k.ops {
			op.f(o)
		}
		releaseProcs()
	}
}

// ObjectPairScenarios: one scenario per table and unordered pair of its operations.
func ObjectPairScenarios() []*sched.Scenario {
	var out []*sched.Scenario
	for _, k := range objKinds() {
		k := k
		for i := range k.ops {
			for j := i; j < len(k.ops); j++ {
				a, b := k.ops[i], k.ops[j]
				out = append(out, &sched.Scenario{Name: fmt.Sprintf("obj %s: %s || %s", k.name, a.name, b.name), New: func() *sched.Instance {
					return &sched.Instance{
						Body: func() {
							ResetGlobals()
							o := k.mk()
							vsched.GoNamed("t0", func() { a.f(o) })
							vsched.GoNamed("t1", func() { b.f(o) })
						},
						Finish: func(e *vsched.Execution) sched.Outcome {
							releaseProcs()
							return sched.Outcome{Key: "done", NonTrivial: true}
						},
					}
				}})
			}
		}
	}
	return out
}
