package interp

import (
	"os"
	"fmt"
	"strings"

	"github.com/lmorg/murex/builtins/pipes/streams"

	"verif/sched"
	"verif/vlib"

	"verif/shim/vsched"
)

var c03Quick = []string{
	"out x",
	"out x -> regexp m/x/",
	"tout json [1,2,3] -> format json",
	"a [1..3] -> foreach v { out $v }",
	"%[a b c] -> msort -> [1]",
	"a [1..3] -> match 2 -> count",
	"out x -> set v; out $v",
	"v = 1 + 2; out $v",
	"if { out x -> regexp m/x/ } then { out yes }",
	"function vf { out x -> regexp m/x/ }; vf; vf",
	"try { out a; out b -> regexp m/b/ }",
	"out a && out b || out c; out d",
	"false || out e -> cast str",
	"switch { case { false } { out 1 } default { out 2 } }",
	// the method form of `if` decides on the exit number of the stage before it, which must have finished
	"function vtf { out yes; return 1 }; vtf -> if { out T } { out F }",
	// a downstream stage that never reads its stdin finishes first: the statement after the pipeline
	// still has to wait for the upstream stage (both write to stderr, one after the other)
	"function vse { out ${out sub} -> null; err first }; vse -> out mid; err second",
}

// programs run with an 8-byte back-pressure limit (package variable streams.DefaultMaxBufferSize, the
// same code path as the 1 MiB production limit) so that writers block on full pipes
var c03SmallBuf = []string{
	// foreach writes one element per Write call, so its stdout pipe fills up and the writer blocks
	"a [1..9] -> foreach v { out $v } -> set x; out $x",
	"a [1..9] -> foreach v { out $v } -> count",
	"a [1..9] -> foreach v { out $v } -> regexp m/[3-6]/",
	"a [1..9] -> set v; out $v",
}

const smallBufPrefix = "[8-byte pipes] "

// expected stdout (and, where given, stderr) of programs whose sequential meaning is beyond doubt. The
// property itself is differential (every schedule = the free-running result); the literal expectation
// additionally catches a change that makes *every* explored schedule wrong in the same way while the
// rare free-running schedule is still right (seeded change C03-r2-1 did exactly that).
type c03Expect struct {
	out    string
	err    string
	hasErr bool
}

var c03Expected = map[string]c03Expect{
	"out x":                                                             {out: "x\n"},
	"out x -> regexp m/x/":                                              {out: "x\n"},
	"a [1..3] -> foreach v { out $v }":                                  {out: "1\n2\n3\n"},
	"%[a b c] -> msort -> [1]":                                          {out: "b"},
	"a [1..3] -> match 2 -> count":                                      {out: "1"},
	"out x -> set v; out $v":                                            {out: "x\n"},
	"v = 1 + 2; out $v":                                                 {out: "3\n"},
	"if { out x -> regexp m/x/ } then { out yes }":                      {out: "yes\n"},
	"function vf { out x -> regexp m/x/ }; vf; vf":                      {out: "x\nx\n"},
	"try { out a; out b -> regexp m/b/ }":                               {out: "a\nb\n"},
	"out a && out b || out c; out d":                                    {out: "a\nb\nd\n"},
	"false || out e -> cast str":                                        {out: "e\n"},
	"function vtf { out yes; return 1 }; vtf -> if { out T } { out F }": {out: "F\n"},
	"function vse { out ${out sub} -> null; err first }; vse -> out mid; err second": {out: "mid\n", err: "first\nsecond\n", hasErr: true},
	"function vlong { a [1..300] -> foreach i { out $i -> null }; err first }; vlong -> out mid; err second": {out: "mid\n", err: "first\nsecond\n", hasErr: true},
	"a [1..9] -> foreach v { out $v } -> set x; out $x":                              {out: "1\n2\n3\n4\n5\n6\n7\n8\n9\n"},
	"a [1..9] -> foreach v { out $v } -> count":                                      {out: "9"},
	"a [1..9] -> foreach v { out $v } -> regexp m/[3-6]/":                            {out: "3\n4\n5\n6\n"},
	"a [1..9] -> set v; out $v":                                                      {out: "1\n2\n3\n4\n5\n6\n7\n8\n9\n"},
}

func c03Programs(quick bool) []string {
	if quick {
		return c03Quick
	}
	stages := []string{"out x", "tout json [1,2,3]", "a [1..3]", "%[a b c]"}
	filters := []string{"-> foreach v { out $v }", "-> format json", "-> msort", "-> [1]", "-> match a", "-> count", "-> cast str", "-> set v", "-> regexp m/a/"}
	progs := append([]string{}, c03Quick...)
	for _, s := range stages {
		progs = append(progs, s)
		for _, f := range filters {
			progs = append(progs, s+" "+f)
			for _, g := range filters[:5] {
				// two stages of one pipeline never bind the same loop variable here (see c03SharedVar)
				progs = append(progs, s+" "+f+" "+strings.ReplaceAll(g, "v { out $v }", "w { out $w }"))
			}
			progs = append(progs, "try { "+s+"; "+s+" "+f+" }")
			progs = append(progs, "function vf { "+s+" "+f+" }; vf && out ok || out no")
			progs = append(progs, "if { "+s+" "+f+" } then { "+s+" }")
		}
	}
	seen := map[string]bool{}
	var out []string
	for _, p := range progs {
		if !seen[p] {
			seen[p] = true
			out = append(out, p)
		}
	}
	return out
}

func c03Scenario(prog string, free Result) *sched.Scenario {
	return &sched.Scenario{Name: prog, PreemptAt: SharedVisible, MaxSteps: 200000, New: func() *sched.Instance {
		var res Result
		done := false
		body := func() {
			ResetGlobals()
			src := prog
			var after func()
			if strings.HasPrefix(prog, smallBufPrefix) {
				src = strings.TrimPrefix(prog, smallBufPrefix)
				// only the pipes created while the block runs are small: the block's own stdout/stderr,
				// which the harness drains after Execute returns, keep the production size
				after = func() { streams.DefaultMaxBufferSize = 8 }
				defer func() { streams.DefaultMaxBufferSize = prodMaxBuf }()
			}
			res = RunBlockWith(src, "verif/c03", after)
			done = true
		}
		fin := func(e *vsched.Execution) sched.Outcome {
			o := sched.Outcome{Key: fmt.Sprintf("out=%q err=%q exit=%d", res.Out, res.Err, res.Exit), NonTrivial: true}
			if e.Deadlock || e.Livelock || len(e.Panics) > 0 {
				return o
			}
			if !done {
				o.Clause, o.Detail = "always-finishes", "Execute did not return"
				return o
			}
			if exp, ok := c03Expected[strings.TrimPrefix(prog, smallBufPrefix)]; ok && (res.Out != exp.out || exp.hasErr && res.Err != exp.err) {
				o.Clause = "sequential-meaning"
				o.Detail = fmt.Sprintf("this schedule: out=%q err=%q exit=%d; the program means out=%q", res.Out, res.Err, res.Exit, exp.out)
				return o
			}
			if res != free {
				o.Clause = "same-result-under-any-schedule"
				o.Detail = fmt.Sprintf("this schedule: out=%q err=%q exit=%d; free-running: out=%q err=%q exit=%d", res.Out, res.Err, res.Exit, free.Out, free.Err, free.Exit)
			}
			return o
		}
		return &sched.Instance{Body: body, Finish: fin}
	}}
}

// c03Long: programs run under the two default schedules only (deviation bound 0). Their point is length: the
// upstream stage still has thousands of steps (hundreds of forced switches) to go when the downstream stage is
// done, so a wait that gives up after N polls is exposed without any deviation — and exploring deviations of
// a 50 000-step execution is out of reach anyway.
var c03Long = []string{
	"function vlong { a [1..300] -> foreach i { out $i -> null }; err first }; vlong -> out mid; err second",
}

// c03SharedVar: two foreach stages of ONE pipeline using the same loop variable. murex keeps a loop variable in
// the function's variable table, so the second stage's `$v` reads whatever the first stage assigned last: the
// output depends on the schedule (even free-running murex prints 1 2 3 most of the time and 1 2 1 now and
// then). Run last, under the two default schedules only, and listed as a known finding.
var c03SharedVar = []string{
	"tout json [1,2,3] -> foreach v { out $v } -> foreach v { out $v }",
}

var prodMaxBuf = streams.DefaultMaxBufferSize

func c03Scenarios(quick bool) []*sched.Scenario {
	progs := c03Programs(quick)
	for _, p := range c03SmallBuf {
		progs = append(progs, smallBufPrefix+p)
	}
	return c03ScenariosOf(progs)
}

func c03ScenariosOf(progs []string) []*sched.Scenario {
	var out []*sched.Scenario
	only := os.Getenv("VERIF_C03_ONLY") // debugging aid: only the programs containing this text
	for _, p := range progs {
		if only != "" && !strings.Contains(p, only) {
			continue
		}
		ResetGlobals()
		// the reference result is the free-running one with production-size pipes
		src := strings.TrimPrefix(p, smallBufPrefix)
		free := RunBlock(src, "verif/c03")
		free2 := RunBlock(src, "verif/c03")
		if free != free2 {
			// a program whose free-running result is not even repeatable is itself a finding
			free.Err = "<<unstable free-running result>>" + free.Err
		}
		out = append(out, c03Scenario(p, free))
	}
	return out
}

func init() {
	vlib.Register(&vlib.Check{
		ID: "C03", Engine: "E1",
		Rule: "each listed sequential murex program (stages out/tout/a/%[] x filters foreach/format/msort/index/match/count/cast/set/regexp, if/switch/function/try/&&/||) is executed by the real interpreter (whole module instrumented) under the controlled scheduler; ALL schedules with at most B deviations from the default schedule (a deviation = a preemption, offered at operations on shared-visible objects (streams, process table, wait channels, variable tables, goroutine start, or a forced switch to a thread other than the lowest-numbered enabled one) are enumerated by stateless DFS (plus one long program — an upstream stage of 300 loop iterations in front of a stage that ignores its stdin — under the two default schedules only); every schedule must terminate and give the same (stdout, stderr, exit number) as the free-running execution (and, for the programs with a literal expectation, that expectation); non-trivial = schedules with at least one deviation",
		Run: func(c *vlib.Ctx) {
			Init(c.WorkDir)
			b := 1
			if !c.Quick() {
				b = 2
			}
			sched.RunAllDev(c, c03Scenarios(c.Quick()), b)
			if c.Shard == 0 {
				sched.RunAllDevWhole(c, c03ScenariosOf(c03Long), 0)
				if !c.Quick() {
					sched.RunAllDevWhole(c, c03ScenariosOf(c03SharedVar), 0)
				}
			}
		},
		Replay: func(c *vlib.Ctx, w string) {
			Init(c.WorkDir)
			sched.Replay(c, append(append(c03Scenarios(false), c03ScenariosOf(c03Long)...), c03ScenariosOf(c03SharedVar)...), w)
		},
		Assumptions: []string{"preemptions only at shared-visible operations (listed in echecks/interp/interp.go); forced switches everywhere", "builtin vocabulary as listed; no external commands, no timers", "programs have one writer per stream at a time"},
	})
}
