// Package histconc: C29 = the crash-point enumeration of checks/histfile plus an interleaving search of two
// live sessions recording a command at the same time in one history file. The sessions interact only through
// the file system, which has no Go synchronisation operation to hang a scheduling point on, so mkoverlay puts
// a scheduling point before every statement of History.Write (cmd/mkoverlay: stmtPointFuncs).
package histconc

import (
	"fmt"
	"os"
	"path/filepath"
	"sort"
	"strings"

	"verif/checks/histfile"
	"verif/sched"
	"verif/vlib"

	"github.com/lmorg/murex/lang"
	"github.com/lmorg/murex/shell/history"
	"verif/shim/vsched"
)

var file string

type hsc struct {
	prev    []string   // written by an earlier session
	writers [][]string // one list of commands per live session
}

func (s hsc) name() string {
	var w []string
	for _, x := range s.writers {
		w = append(w, strings.Join(x, ";"))
	}
	return fmt.Sprintf("sessions prev=%q %s", s.prev, strings.Join(w, " || "))
}

func reload() []string {
	h, _ := history.New(file)
	var l []string
	for i := 0; i < h.Len(); i++ {
		s, _ := h.GetLine(i)
		l = append(l, s)
	}
	return l
}

func (s hsc) scenario() *sched.Scenario {
	return &sched.Scenario{Name: s.name(), New: func() *sched.Instance {
		errs := make([]error, len(s.writers))
		body := func() {
			os.Remove(file)
			if len(s.prev) > 0 {
				h, _ := history.New(file)
				for _, c := range s.prev {
					h.Write(c)
				}
			}
			hs := make([]*history.History, len(s.writers))
			for i := range s.writers {
				hs[i], _ = history.New(file) // every session has loaded the file before any of them records
			}
			for i, w := range s.writers {
				i, w := i, w
				vsched.GoNamed(fmt.Sprintf("session%d", i), func() {
					for _, c := range w {
						if _, err := hs[i].Write(c); err != nil {
							errs[i] = err
						}
					}
				})
			}
		}
		fin := func(e *vsched.Execution) sched.Outcome {
			got := reload()
			out := sched.Outcome{Key: fmt.Sprintf("%q", got), NonTrivial: true}
			if e.Deadlock || e.Livelock || len(e.Panics) > 0 {
				return out
			}
			for i, err := range errs {
				if err != nil {
					out.Clause, out.Detail = "reload", fmt.Sprintf("session %d: Write failed: %v", i, err)
					return out
				}
			}
			// every recorded command reads back; each session's commands in that session's order; nothing else
			want := append([]string{}, s.prev...)
			for _, w := range s.writers {
				want = append(want, w...)
			}
			a, b := append([]string{}, got...), append([]string{}, want...)
			sort.Strings(a)
			sort.Strings(b)
			if strings.Join(a, "\x00") != strings.Join(b, "\x00") {
				out.Clause, out.Detail = "reload", fmt.Sprintf("after two live sessions recorded concurrently a later session loads %q, recorded were %q", got, want)
				return out
			}
			pos := map[string]int{}
			for i, g := range got {
				pos[g] = i
			}
			for _, seq := range append([][]string{s.prev}, s.writers...) {
				for i := 1; i < len(seq); i++ {
					if pos[seq[i-1]] > pos[seq[i]] {
						out.Clause, out.Detail = "reload", fmt.Sprintf("order of one session's entries changed: %q", got)
						return out
					}
				}
			}
			for _, p := range s.prev {
				for _, w := range s.writers {
					for _, c := range w {
						if pos[p] > pos[c] {
							out.Clause, out.Detail = "reload", fmt.Sprintf("an earlier session's entry moved behind a later one: %q", got)
							return out
						}
					}
				}
			}
			return out
		}
		return &sched.Instance{Body: body, Finish: fin}
	}}
}

func scenarios(quick bool) []*sched.Scenario {
	ss := []hsc{
		{nil, [][]string{{"a1"}, {"b1"}}},
		{[]string{"p1"}, [][]string{{"a1"}, {"b1"}}},
		{[]string{"p1"}, [][]string{{"a1", "a2"}, {"b1"}}},
	}
	if !quick {
		ss = append(ss, hsc{[]string{"p1"}, [][]string{{"a1", "a2"}, {"b1", "b2"}}}, hsc{nil, [][]string{{"a1"}, {"b1"}, {"c1"}}})
	}
	var out []*sched.Scenario
	for _, s := range ss {
		out = append(out, s.scenario())
	}
	return out
}

func setup(c *vlib.Ctx) {
	file = filepath.Join(c.WorkDir, "murex_history_live")
	if err := lang.ShellProcess.Config.Set("shell", "history-write-enabled", true, nil); err != nil {
		c.HarnessError("cannot enable history writing: %v", err)
	}
}

func init() {
	vlib.Register(&vlib.Check{
		ID: "C29", Engine: "E4+E1",
		Rule: histfile.RuleText + "; PLUS interleaving search: 2 (thorough also 3) live sessions that have all loaded the same history file (empty or holding one entry) record 1-2 commands each at the same time through the real History.Write, with a scheduling point before every statement of Write (the sessions interact only through the file system); ALL interleavings with <= 2 preemptions; afterwards a new session must load exactly the recorded commands, each session's in its own order and after the earlier session's; non-trivial = executions with at least one preemption",
		Run: func(c *vlib.Ctx) {
			histfile.Run(c)
			setup(c)
			sched.RunAllByScenario(c, scenarios(c.Quick()), 2)
		},
		Replay: func(c *vlib.Ctx, w string) {
			if strings.HasPrefix(w, "sessions ") {
				histfile.Setup(c)
				setup(c)
				sched.Replay(c, scenarios(false), w)
				return
			}
			histfile.Replay(c, w)
		},
		Assumptions: []string{
			"crash model: the single append write() of History.Write is cut to a prefix; no fsync/power-loss model (murex never syncs)",
			"commands have no leading/trailing white space (Write trims) and are valid UTF-8; the empty command is not recorded by design",
			"concurrent sessions: one write() system call is atomic with respect to another session's (O_APPEND); interleavings are explored at statement granularity of History.Write",
		},
	})
}
