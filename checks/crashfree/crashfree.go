// Package crashfree: C19 — murex code never crashes or hangs the shell. Bounded-exhaustive enumeration
// of one-command programs over an explicit allow-list of data / structural builtins with malformed
// arguments, scope parameters and stdin (in-process, one goroutine per case, fd 2 captured), plus the
// stateful pipe / !pipe sequences run in a child process of a murex binary built from the working tree.
package crashfree

import (
	"strconv"
	"bytes"
	"fmt"
	"os"
	"os/exec"
	"strings"
	"syscall"
	"time"

	"verif/checks/murexbin"
	"verif/mx"
	"verif/vlib"

	"github.com/lmorg/murex/lang"
	"github.com/lmorg/murex/lang/types"
)

// allow-list: builtins whose documented behaviour is to terminate without user input and without touching
// anything outside the process (no exec/fork/exit/read/sleep/network/file writers/alias & function definitions,
// no `while` / `!while` which may legitimately loop forever on a block that keeps failing)
var allow = []string{
	"!", "![", "!and", "!catch", "!escape", "!eschtml", "!escurl", "!global", "!if", "!match", "!or", "!regexp", "!set",
	"(", "2darray", "@[", "[", "[[", "a", "addheading", "alter", "and", "append", "args", "bexists", "break", "cast",
	"catch", "config", "continue", "count", "cpuarch", "cpucount", "datetime", "err", "escape", "esccli", "eschtml",
	"escurl", "exitnum", "expr", "f", "false", "fid-list", "for", "foreach", "formap", "format", "g", "get-type", "global",
	"if", "is-null", "ja", "jsplit", "key-code", "left", "list.case", "map", "match", "mjoin", "msort", "mtac",
	"murex-parser", "null", "or", "os", "out", "prefix", "prepend", "pretty", "regexp", "return", "right",
	"round", "runtime", "rx", "set", "struct-keys", "suffix", "switch", "ta", "tabulate", "test", "tout", "true", "try",
	"tryerr", "trypipe", "trypipeerr", "type", "unsafe", "unset", "version", "which",
}

// builtins that need two arguments to get past their usage check: their arity-2 programs are part of the quick tier
var twoArgQuick = map[string]bool{"args": true, "tout": true, "alter": true, "config": true, "test": true, "map": true, "set": true, "cast": true, "format": true}

// argument alphabet (DESIGN C19 plus `-5`: a negative index beyond -n)
var argAlpha = []string{"", "-1", "-5", "0", "99999999999999999999", "--bad", "{", "[", "]", "a", "null", "[1,2]", `{"a":1}`, "c", "*3", "*0"}

// scope parameters: the parameters of the function the program runs in (what `args` and $ARGS look at)
var scopeQuick = [][]string{nil, {"--bad"}, {"-1"}}
var scopeThorough = [][]string{nil, {"--bad"}, {"-1"}, {"a"}, {"--bad", "a"}}

type stdinKind struct {
	name, data, dt string
}

var stdins = []stdinKind{
	{"empty", "", types.Generic},
	{"lines", "a\nb", types.Generic},
	{"json-array", "[1,2,3]", types.Json},
	{"json-object", `{"a":1}`, types.Json},
	{"ragged-table", "a b c\n1 2 3\n4 5\n", types.Generic},
}

func init() {
	// vsrc19 <k>: writes stdin payload k with its data type
	lang.DefineFunction("vsrc19", func(p *lang.Process) error {
		k, err := p.Parameters.Int(0)
		if err != nil {
			return err
		}
		p.Stdout.SetDataType(stdins[k].dt)
		_, err = p.Stdout.Write([]byte(stdins[k].data))
		return err
	}, types.Any)

	vlib.Register(&vlib.Check{
		ID: "C19", Engine: "E2",
		Rule: "program = one command from an explicit allow-list of 95 data/structural builtins (index, element, range, lists, mkarray, format, cast, tout, args, config, set/global, escape family, json tools, count, match/regexp, alter, struct-keys, switch/if/foreach/try family, test …) x every argument tuple of arity <= A over {empty string, -1, -5, 0, 99999999999999999999, --bad, {, [, ], a, null, [1,2], {\"a\":1}, c, *3, *0} passed verbatim through variables (quick A=1, plus A=2 for the builtins that need two arguments: args tout alter config test map set cast format; thorough A=2 for all) x mode {function without stdin; method fed by {empty, two lines, JSON array, JSON object, a whitespace table with a short row}} x scope parameters {none, --bad, -1 (thorough also: a; --bad a)}; each run in-process (same fork seam as mx.Run) on its own goroutine with fd 2 read while it runs: 'blocked' is declared when crash.Handler's report is on fd 2 and the caller is still waiting 0.3 s later, or when nothing came back after 120 s; after 24 blocked cases in one builtin/arity/mode/scope class the rest of that class is skipped and counted; plus every sequence of <= 3 (thorough <= 4) commands over {pipe a, !pipe a, pipe b, !pipe b, pipe a --file /no/such/dir/x (a creation whose constructor fails), out hi -> <a> (a write through the registry), pipe a --tcp-dial nosuch (a constructor that fails while returning a typed nil pointer; the child is built with the net pipe types)} run in a child murex process built from the working tree which then waits 3 s (the close grace period) and must still print `alive`, plus six single programs whose redirection token creates a temporary pipe (<nosuch:xyz>, <file:/no/such/dir/x>, <std:x>, ...); a child is declared blocked when every one of its threads is asleep and it has consumed no CPU time for 25 s (state-based: a starved child has runnable threads), and spinning when it has itself consumed more than 60 s of CPU time (load-independent). Oracle: the run returns control; no 'panic caught', no 'Murex has crashed', no Go panic trace; exit number != 0 whenever stderr carries a murex error report (`Error in`); child process exits normally. non-trivial = the command reported an error or produced output on stderr (an error path was executed) or the case is a pipe sequence with at least one close",
		Run:    run,
		Replay: replay,
		Shards: func(string) int { return 16 },
		Assumptions: []string{
			"allow-list, argument alphabet, arity and stdin alphabet as stated; commands that wait for input, sleep, fork, exit, run external programs, touch the network or the file system, define aliases/functions or may loop forever by design (while / !while) are excluded",
			"what the command prints is not compared (other properties do that); state left behind by one case (variables, config) is visible to later cases of the same worker",
			"`murex-docs` is not on the list: its document table is filled in by murex's main package, which the in-process seam does not link (it crashes on a nil function there, and works in the real binary)",
			"a Go panic on a goroutine murex does not guard kills the worker process: the run then ends with a harness error naming the stack (exit 2) instead of a violation",
		},
	})
}

type kase struct {
	b     int      // index into allow
	args  []int    // indexes into argAlpha
	stdin int      // -1 = function mode
	scope []string // scope parameters
}

func template(name string, n int) string {
	vars := ""
	for i := 0; i < n; i++ {
		vars += fmt.Sprintf(" $a%d", i+1)
	}
	switch name {
	case "[", "![":
		return name + vars + " ]"
	case "[[":
		return "[[" + vars + " ]]"
	case "@[":
		return "@[" + vars + " ]"
	case "(":
		return "(" + strings.TrimPrefix(vars, " ") + ")"
	}
	return name + vars
}

func (k kase) program() string {
	p := template(allow[k.b], len(k.args))
	if k.stdin >= 0 {
		p = fmt.Sprintf("vsrc19 %d -> %s", k.stdin, p)
	}
	return p
}

func (k kase) vars() map[string]string {
	m := map[string]string{}
	for i, a := range k.args {
		m[fmt.Sprintf("a%d", i+1)] = argAlpha[a]
	}
	return m
}

// witness: the program with its variable values and scope parameters, canonical text
func (k kase) witness() string {
	var parts []string
	for i, a := range k.args {
		parts = append(parts, fmt.Sprintf("a%d=%q", i+1, argAlpha[a]))
	}
	return fmt.Sprintf("%s | %s | scope=%q", k.program(), strings.Join(parts, " "), k.scope)
}

func (k kase) class() string {
	mode := "function"
	if k.stdin >= 0 {
		mode = "method"
	}
	return fmt.Sprintf("%s/arity%d/%s/scope%d", allow[k.b], len(k.args), mode, len(k.scope))
}

func enumerate(quick bool, b int, fn func(k kase) bool) {
	scopes := scopeThorough
	if quick {
		scopes = scopeQuick
	}
	maxA := 2
	if quick && !twoArgQuick[allow[b]] {
		maxA = 1
	}
	cont := true
	vlib.Seqs(len(argAlpha), 0, maxA, func(idx []int) bool {
		for _, sc := range scopes {
			for st := -1; st < len(stdins); st++ {
				if !fn(kase{b, append([]int{}, idx...), st, sc}) {
					cont = false
					return false
				}
			}
		}
		return true
	})
	_ = cont
}

type verdict struct {
	clause, detail string
}

func runCase(k kase) (mx.Result, string) {
	return runGuarded(k.program(), k.vars(), k.scope, 0)
}

func judge(r mx.Result, fd2 string) *verdict {
	all := r.Stdout + r.Stderr + fd2
	switch {
	case strings.Contains(fd2, "Murex has crashed"):
		return &verdict{"no-internal-panic", "crash.Handler report on fd 2: " + firstLines(fd2, 6) + hangNote(r)}
	case strings.Contains(all, "panic caught"):
		return &verdict{"no-internal-panic", "'panic caught' reported: " + firstLines(grepLine(all, "panic caught"), 3)}
	case strings.Contains(fd2, "goroutine ") && strings.Contains(fd2, "panic:"):
		return &verdict{"no-internal-panic", "Go panic trace on fd 2: " + firstLines(fd2, 6)}
	case r.Hang:
		return &verdict{"returns-control", "the program finished or failed but the caller is still blocked\n" + vlib.Clip(r.HangStack, 600)}
	case strings.Contains(r.Stderr, "Error in `") && r.Exit == 0:
		return &verdict{"error-means-nonzero-exit", fmt.Sprintf("stderr carries an error report but the exit number is 0: %s", firstLines(r.Stderr, 4))}
	}
	return nil
}

func hangNote(r mx.Result) string {
	if r.Hang {
		return "\n(and the caller was left blocked)"
	}
	return ""
}

func grepLine(s, sub string) string {
	for _, l := range strings.Split(s, "\n") {
		if strings.Contains(l, sub) {
			return l
		}
	}
	return ""
}

func firstLines(s string, n int) string {
	l := strings.Split(strings.TrimSpace(s), "\n")
	if len(l) > n {
		l = l[:n]
	}
	return vlib.Clip(strings.Join(l, " / "), 500)
}

// After maxHangs cases of one builtin/arity/mode/scope class left the caller blocked the rest of the class is
// skipped and counted (each blocked case costs 0.3 s and leaves goroutines behind).
const maxHangs = 24

// VERIF_G6_TRACE=<file prefix>: every case is logged before it runs (debugging aid for a worker that dies or stalls)
var trace *os.File

func evalCase(c *vlib.Ctx, k kase, n int, hung map[string]int) {
	if hung[k.class()] >= maxHangs {
		c.Extra("skipped: sibling of "+fmt.Sprint(maxHangs)+" cases already reported as blocking the caller", 1)
		return
	}
	if trace != nil {
		fmt.Fprintf(trace, "%s %s\n", time.Now().Format("15:04:05.000"), k.witness())
	}
	r, fd2 := runCase(k)
	v := judge(r, fd2)
	outcome := "ok-silent"
	switch {
	case v != nil:
		outcome = "VIOLATION:" + v.clause
	case r.Exit != 0 && r.Stderr != "":
		outcome = "clean-error"
	case r.Exit != 0:
		outcome = "nonzero-exit-no-message"
	case r.Stderr != "":
		outcome = "exit0-with-stderr-text"
	case r.Stdout != "":
		outcome = "ok-output"
	}
	mode := "function"
	if k.stdin >= 0 {
		mode = "method"
	}
	c.Eval(r.Exit != 0 || r.Stderr != "" || v != nil, fmt.Sprintf("arity%d/%s/%s", len(k.args), mode, outcome))
	if v != nil {
		if r.Hang {
			hung[k.class()]++
			if hung[k.class()] == maxHangs {
				c.Note("class %s: %d cases left the caller blocked; its remaining cases are skipped (each costs a ceiling)", k.class(), maxHangs)
			}
		}
		c.Violation(v.clause, k.witness(), v.detail)
	}
	if n%1499 == 1 {
		c.Sample(map[string]any{"program": k.program(), "vars": k.vars(), "scope": k.scope, "exit": r.Exit, "stderr": vlib.Clip(r.Stderr, 120)})
	}
}

// ---- pipe / !pipe sequences in a child process ----

// the last operation is a creation whose constructor fails (the registry must be usable afterwards)
// and the one after it uses pipe a (whatever state the registry left it in)
var pipeOps = []string{"pipe a%s", "!pipe a%s", "pipe b%s", "!pipe b%s", "pipe a%s --file /no/such/dir/x", "out hi -> <a%s>", "pipe a%s --tcp-dial nosuch"}

// single programs run alone in a child process: redirection tokens that create a temporary pipe
var childSingles = []string{
	"out <nosuch:xyz> hi",
	"out <file:/no/such/dir/x> hi",
	"out <std:x> hi",
	"out <!nosuch:xyz> hi",
	"out <nosuch:xyz> hi; pipe a; !pipe a",
	"out hi -> <nosuch:xyz>",
}

func seqSource(idx []int, suffix string) string {
	var parts []string
	for _, i := range idx {
		parts = append(parts, fmt.Sprintf(pipeOps[i], suffix))
	}
	return strings.Join(parts, "; ")
}

func pipeSeqs(quick bool) [][]int {
	maxLen := 3
	if !quick {
		maxLen = 4
	}
	var out [][]int
	vlib.Seqs(len(pipeOps), 1, maxLen, func(idx []int) bool {
		out = append(out, append([]int{}, idx...))
		return true
	})
	return out
}

type childResult struct {
	stdout, stderr string
	exit           int
	signaled       string
	timeout        bool
	blocked        bool // every thread asleep and no CPU time consumed for blockedAfter: the shell is stuck, not slow
	spinning       bool // the child itself consumed spinCPU of CPU time (independent of machine load) without finishing
}

// the child programs need well under a second of CPU time; a process that has burnt a minute of its own CPU
// time is polling for something that will never happen
const spinTicks = 60 * 100 // clock ticks (USER_HZ = 100)

const blockedAfter = 25 * time.Second

// procBusy: total CPU ticks of the process and whether any of its threads is runnable or in disk wait.
func procBusy(pid int) (ticks uint64, active bool, ok bool) {
	tasks, err := os.ReadDir(fmt.Sprintf("/proc/%d/task", pid))
	if err != nil {
		return 0, false, false
	}
	for _, t := range tasks {
		b, err := os.ReadFile(fmt.Sprintf("/proc/%d/task/%s/stat", pid, t.Name()))
		if err != nil {
			continue
		}
		txt := string(b)
		i := strings.LastIndexByte(txt, ')')
		if i < 0 {
			continue
		}
		f := strings.Fields(txt[i+1:])
		if len(f) < 13 {
			continue
		}
		if f[0] != "S" {
			active = true
		}
		u, _ := strconv.ParseUint(f[11], 10, 64)
		k, _ := strconv.ParseUint(f[12], 10, 64)
		ticks += u + k
	}
	return ticks, active, true
}

func runChild(c *vlib.Ctx, script string, ceiling time.Duration) childResult {
	cmd := exec.Command(murexbin.Path(c), "-c", script)
	cmd.Dir = c.WorkDir
	cmd.Env = append(os.Environ(), "HOME="+c.WorkDir, "TMPDIR="+c.WorkDir, "MUREX_CONFIG_DIR="+c.WorkDir)
	var out, errb bytes.Buffer
	cmd.Stdout, cmd.Stderr = &out, &errb
	if err := cmd.Start(); err != nil {
		c.HarnessError("cannot start murex: %v", err)
	}
	done := make(chan error, 1)
	go func() { done <- cmd.Wait() }()
	var res childResult
	deadline := time.After(ceiling)
	tick := time.NewTicker(time.Second)
	defer tick.Stop()
	var lastTicks uint64
	idleSince := time.Now()
wait:
	for {
		select {
		case <-done:
			break wait
		case <-deadline:
			cmd.Process.Kill()
			<-done
			res.timeout = true
			break wait
		case <-tick.C:
			// state-based, not duration-based: a starved child has runnable threads, a finite sleep ends long
			// before blockedAfter; only a shell whose every thread sleeps without ever consuming CPU is stuck
			ticks, active, ok := procBusy(cmd.Process.Pid)
			if !ok {
				continue
			}
			if ticks > spinTicks {
				cmd.Process.Kill()
				<-done
				res.spinning = true
				break wait
			}
			if active || ticks != lastTicks {
				lastTicks, idleSince = ticks, time.Now()
				continue
			}
			if time.Since(idleSince) > blockedAfter {
				cmd.Process.Kill()
				<-done
				res.blocked = true
				break wait
			}
		}
	}
	res.stdout, res.stderr = out.String(), errb.String()
	res.exit = cmd.ProcessState.ExitCode()
	if ws, ok := cmd.ProcessState.Sys().(syscall.WaitStatus); ok && ws.Signaled() && !res.timeout {
		res.signaled = ws.Signal().String()
	}
	return res
}

func childBad(r childResult) *verdict {
	switch {
	case r.timeout:
		return nil // handled by the caller (inconclusive)
	case r.spinning:
		return &verdict{"caller-not-blocked", fmt.Sprintf("the murex process consumed more than 60 s of CPU time without reaching the end of a program that needs a fraction of a second (it polls for something that never happens); stdout %q, stderr %s", vlib.Clip(r.stdout, 100), firstLines(r.stderr, 4))}
	case r.blocked:
		return &verdict{"caller-not-blocked", fmt.Sprintf("the murex process stopped making progress (every thread asleep, no CPU time for %v) before reaching the end of the program; stdout %q, stderr %s", blockedAfter, vlib.Clip(r.stdout, 100), firstLines(r.stderr, 4))}
	case r.signaled != "":
		return &verdict{"shell-survives", "the murex process was killed by " + r.signaled}
	case mx.HasPanicText(r.stderr) || strings.Contains(r.stderr, "panic:"):
		return &verdict{"shell-survives", fmt.Sprintf("the murex process died (exit %d): %s", r.exit, firstLines(r.stderr, 6))}
	case !strings.HasSuffix(r.stdout, "alive\n"):
		return &verdict{"shell-survives", fmt.Sprintf("the murex process did not reach the end of the program (exit %d, stdout %q, stderr %s)", r.exit, vlib.Clip(r.stdout, 100), firstLines(r.stderr, 4))}
	}
	return nil
}

func seqWitness(idx []int) string { return "child: " + seqSource(idx, "") }

func runPipeSeqs(c *vlib.Ctx) {
	var mine [][]int
	for i, s := range pipeSeqs(c.Quick()) {
		if c.Mine(uint64(i)) {
			mine = append(mine, s)
		}
	}
	if len(mine) == 0 {
		return
	}
	// all sequences of this worker in one process, each with its own pipe names; then wait out the grace period
	var b strings.Builder
	for i, s := range mine {
		fmt.Fprintf(&b, "%s\n", seqSource(s, fmt.Sprint(i)))
	}
	b.WriteString("sleep 3; out alive\n")
	r := runChild(c, b.String(), 5*time.Minute)
	if r.timeout {
		c.Note("pipe sequences: the child murex process did not finish within 5 minutes (inconclusive)")
		c.P.Exhaustive = false
		return
	}
	batchBad := childBad(r)
	for _, s := range mine {
		closes := 0
		for _, op := range s {
			if op == 1 || op == 3 {
				closes++
			}
		}
		var v *verdict
		if batchBad != nil {
			// attribute: run this sequence alone
			one := runChild(c, seqSource(s, "")+"\nsleep 3; out alive\n", 3*time.Minute)
			if one.timeout {
				c.P.Exhaustive = false
				continue
			}
			v = childBad(one)
		}
		outcome := fmt.Sprintf("pipe-seq/len%d/closes%d/ok", len(s), min(closes, 2))
		if v != nil {
			outcome = fmt.Sprintf("pipe-seq/len%d/VIOLATION", len(s))
			c.Violation(v.clause, seqWitness(s), v.detail)
		}
		c.Eval(closes > 0, outcome)
	}
	if batchBad != nil {
		c.Note("pipe sequences: the batched child process failed (%s); every sequence was re-run alone", batchBad.detail)
	}
	c.Sample(map[string]any{"child_program": vlib.Clip(b.String(), 200), "stdout": vlib.Clip(r.stdout, 60), "exit": r.exit})
}

func runChildSingles(c *vlib.Ctx) {
	for i, prog := range childSingles {
		if !c.Mine(uint64(i)) {
			continue
		}
		r := runChild(c, prog+"\nout alive\n", 3*time.Minute)
		if r.timeout {
			c.P.Exhaustive = false
			c.Note("child program %q did not finish within 3 minutes (inconclusive)", prog)
			continue
		}
		outcome := "child-single/ok"
		if v := childBad(r); v != nil {
			outcome = "child-single/VIOLATION"
			c.Violation(v.clause, "child: "+prog, v.detail)
		}
		c.Eval(true, outcome)
	}
}

func run(c *vlib.Ctx) {
	murexbin.Path(c) // before mx.Init (the build needs the original HOME)
	defer murexbin.Done(c)
	mx.Init(c.WorkDir)
	for _, name := range allow {
		if lang.GoFunctions[name] == nil {
			c.HarnessError("allow-listed command %q is not a builtin of this build (it would be run as an external program)", name)
		}
	}
	if t := os.Getenv("VERIF_G6_TRACE"); t != "" {
		trace, _ = os.Create(fmt.Sprintf("%s-%d", t, c.Shard))
	}
	n := 0
	hung := map[string]int{}
	for b := range allow {
		// all cases of one builtin go to one worker, so that "skip the siblings of a hanging case" is global
		if !c.Mine(uint64(b)) {
			continue
		}
		stop := false
		enumerate(c.Quick(), b, func(k kase) bool {
			n++
			if n&0xff == 0 && c.Expired() {
				stop = true
				return false
			}
			evalCase(c, k, n, hung)
			return true
		})
		if stop {
			return
		}
	}
	runPipeSeqs(c)
	runChildSingles(c)
}

func replay(c *vlib.Ctx, w string) {
	murexbin.Path(c)
	defer murexbin.Done(c)
	mx.Init(c.WorkDir)
	if strings.HasPrefix(w, "child: ") {
		for _, s := range pipeSeqs(false) {
			if seqWitness(s) == w {
				one := runChild(c, seqSource(s, "")+"\nsleep 3; out alive\n", 3*time.Minute)
				fmt.Printf("exit=%d stdout=%q stderr=%s\n", one.exit, one.stdout, firstLines(one.stderr, 6))
				if v := childBad(one); v != nil {
					c.Violation(v.clause, w, v.detail)
				}
				return
			}
		}
		for _, prog := range childSingles {
			if "child: "+prog == w {
				one := runChild(c, prog+"\nout alive\n", 3*time.Minute)
				fmt.Printf("exit=%d blocked=%v stdout=%q stderr=%s\n", one.exit, one.blocked, one.stdout, firstLines(one.stderr, 6))
				if v := childBad(one); v != nil {
					c.Violation(v.clause, w, v.detail)
				}
				return
			}
		}
		fmt.Println("witness not in the enumeration space")
		return
	}
	for b := range allow {
		found := false
		enumerate(false, b, func(k kase) bool {
			if k.witness() == w {
				found = true
				evalCase(c, k, 0, map[string]int{})
				return false
			}
			return true
		})
		if found {
			return
		}
	}
	fmt.Println("witness not in the enumeration space")
}
