package crashfree

import (
	"bytes"
	"fmt"
	"os"
	"runtime"
	"strings"
	"sync"
	"syscall"
	"time"

	"verif/mx"

	"github.com/lmorg/murex/lang"
	"github.com/lmorg/murex/lang/ref"
	"github.com/lmorg/murex/lang/types"
)

// runGuarded is mx.Run + mx.CaptureFD2 fused for this check: the same in-process seam (a fresh function-scope
// fork of the shell process), but fd 2 is read while the case runs. For C19 a caller left blocked after
// crash.Handler swallowed a panic is an expected finding; waiting for mx.Run's load-tolerant hang detector (up
// to minutes per case on a busy machine, because a crashed process leaves a polling goroutine behind) would
// make the enumeration impractical. Here the verdict "blocked" needs evidence, not a clock:
//   - crash.Handler's report on fd 2 and the caller still waiting 300 ms later => crashed and blocked;
//   - otherwise the case may take up to `slow` (default 120 s) and is then reported blocked with the stacks.
var guardSeq int

func runGuarded(block string, vars map[string]string, scope []string, slow time.Duration) (mx.Result, string) {
	r, w, err := os.Pipe()
	if err != nil {
		var res mx.Result
		fd2 := mx.CaptureFD2(func() { res = mx.Run(block, &mx.Opt{Vars: vars}) })
		return res, fd2
	}
	saved, _ := syscall.Dup(2)
	oldStderr := os.Stderr
	syscall.Dup2(int(w.Fd()), 2)
	os.Stderr = w
	var mu sync.Mutex
	var buf bytes.Buffer
	rdDone := make(chan struct{})
	go func() {
		b := make([]byte, 65536)
		for {
			n, err := r.Read(b)
			mu.Lock()
			buf.Write(b[:n])
			mu.Unlock()
			if err != nil {
				break
			}
		}
		close(rdDone)
	}()
	snapshot := func() string { mu.Lock(); defer mu.Unlock(); return buf.String() }
	restore := func() string {
		os.Stderr = oldStderr
		syscall.Dup2(saved, 2)
		syscall.Close(saved)
		w.Close()
		select {
		case <-rdDone:
		case <-time.After(2 * time.Second): // a leaked child or goroutine still holds the pipe: do not wait for it
		}
		r.Close()
		return snapshot()
	}

	fork := lang.ShellProcess.Fork(lang.F_FUNCTION | lang.F_NEW_MODULE | lang.F_CREATE_STDOUT | lang.F_CREATE_STDERR | lang.F_NO_STDIN)
	fork.Name.Set("verif")
	guardSeq++
	fork.FileRef = &ref.File{Source: &ref.Source{Module: fmt.Sprintf("verif/c19-%d", guardSeq)}}
	for k, v := range vars {
		fork.Variables.Set(fork.Process, k, v, types.String)
	}
	if len(scope) > 0 {
		fork.Parameters.DefineParsed(scope)
	}
	var res mx.Result
	done := make(chan struct{})
	go func() {
		defer close(done)
		exit, err := fork.Execute([]rune(block))
		res.Exit = exit
		if err != nil {
			res.Err = err.Error()
		}
		bErr, _ := fork.Stderr.ReadAll()
		bOut, _ := fork.Stdout.ReadAll()
		res.Stdout, res.Stderr = string(bOut), string(bErr)
	}()
	if slow == 0 {
		slow = 120 * time.Second
	}
	deadline := time.Now().Add(slow)
	tick := time.NewTicker(5 * time.Millisecond)
	defer tick.Stop()
	for {
		select {
		case <-done:
			return res, restore()
		case <-tick.C:
		}
		if strings.Contains(snapshot(), "Murex has crashed") {
			select {
			case <-done:
				return res, restore()
			case <-time.After(300 * time.Millisecond):
			}
			st := make([]byte, 1<<20)
			st = st[:runtime.Stack(st, true)]
			return mx.Result{Hang: true, HangStack: waitStack(string(st))}, restore()
		}
		if time.Now().After(deadline) {
			st := make([]byte, 1<<20)
			st = st[:runtime.Stack(st, true)]
			return mx.Result{Hang: true, HangStack: waitStack(string(st))}, restore()
		}
	}
}

// waitStack keeps the goroutine of the blocked caller (parked in lang.waitProcess / Execute).
func waitStack(s string) string {
	for _, g := range strings.Split(s, "\n\n") {
		if strings.Contains(g, "lang.waitProcess") || strings.Contains(g, "lang.(*Fork).Execute") {
			if len(g) > 900 {
				g = g[:900]
			}
			return g
		}
	}
	return ""
}
