// Package histfile: C29 (shell history survives restarts and crashes). Crash-point enumeration (E4):
// every enumerated write history is produced by the real history.New / History.Write, the file is
// truncated at every byte offset of the last write, a further session appends, a final one reloads.
package histfile

import (
	"fmt"
	"os"
	"path/filepath"
	"strconv"
	"strings"

	"verif/mx"
	"verif/vlib"

	"github.com/lmorg/murex/lang"
	"github.com/lmorg/murex/shell/history"
)

type block struct {
	name string
	text string
}

func long(n int) string {
	var b strings.Builder
	b.WriteString("out ")
	for b.Len() < n {
		b.WriteString("0123456789abcdef")
	}
	return b.String()
}

// simplest first (witness reduction replaces a block by an earlier one)
var blocks = []block{
	{"a", "a"},
	{"ab", "a b"},
	{"ml", "x\ny"},
	{"uq", "é\"\\<ü>"},
	{"L70k", long(70 << 10)},
	// 70 KiB of text whose encoding in the file is several times longer (each of < & > becomes a 6-byte
	// \u00XX escape, a line feed 2 bytes): limits that hold for the text need not hold for the line
	{"X70k", "out " + strings.Repeat("<&>\n", (70<<10)/4) + "x"},
	{"L200k", long(200 << 10)},
}

func blockIdx(name string) int {
	for i, b := range blocks {
		if b.name == name {
			return i
		}
	}
	return -1
}

// kase: one case. sessions hold block indexes; the crash hits the last write of the last session
// after `crash` bytes (crash < 0: the write completes); then one more session writes `after`.
type kase struct {
	sessions [][]int
	crash    int
	after    []int
}

func names(ix []int) string {
	s := make([]string, len(ix))
	for i, x := range ix {
		s[i] = blocks[x].name
	}
	return strings.Join(s, ",")
}

// witness text: "a,ab|ml @17 +a,ml"  (sessions separated by |, crash offset or @end, after-session)
func (k kase) String() string {
	var ss []string
	for _, s := range k.sessions {
		ss = append(ss, names(s))
	}
	cr := "@end"
	if k.crash >= 0 {
		cr = "@" + strconv.Itoa(k.crash)
	}
	return strings.Join(ss, "|") + " " + cr + " +" + names(k.after)
}

func parseNames(s string) ([]int, bool) {
	if s == "" {
		return nil, true
	}
	var out []int
	for _, n := range strings.Split(s, ",") {
		i := blockIdx(n)
		if i < 0 {
			return nil, false
		}
		out = append(out, i)
	}
	return out, true
}

func parseKase(w string) (kase, bool) {
	f := strings.Split(w, " ")
	var k kase
	if len(f) != 3 || !strings.HasPrefix(f[1], "@") || !strings.HasPrefix(f[2], "+") {
		return k, false
	}
	for _, s := range strings.Split(f[0], "|") {
		ix, ok := parseNames(s)
		if !ok || len(ix) == 0 {
			return k, false
		}
		k.sessions = append(k.sessions, ix)
	}
	k.crash = -1
	if f[1] != "@end" {
		n, err := strconv.Atoi(f[1][1:])
		if err != nil {
			return k, false
		}
		k.crash = n
	}
	var ok bool
	k.after, ok = parseNames(f[2][1:])
	return k, ok
}

func collapse(l []string) []string {
	var out []string
	for _, s := range l {
		if len(out) == 0 || out[len(out)-1] != s {
			out = append(out, s)
		}
	}
	return out
}

func eq(a, b []string) bool {
	if len(a) != len(b) {
		return false
	}
	for i := range a {
		if a[i] != b[i] {
			return false
		}
	}
	return true
}

func show(l []string) string {
	s := make([]string, len(l))
	for i, x := range l {
		s[i] = strconv.Quote(vlib.Clip(x, 24))
		if len(x) > 24 {
			s[i] += fmt.Sprintf("(%d bytes)", len(x))
		}
	}
	return "[" + strings.Join(s, " ") + "]"
}

// ---------------------------------------------------------------------------------------------

type runner struct {
	c    *vlib.Ctx
	file string
	// built: the file produced by the real Write calls of the sessions of the current history
	builtKey string
	full     []byte
	pre      int // size before the last write
	memo     map[string]*verdict
	cache    map[string]built
	// the file on disk starts with full[:fileValid] of history fileKey
	fileKey   string
	fileValid int
}

type built struct {
	full []byte
	pre  int
}

type verdict struct {
	bad     bool
	detail  string
	outcome string
	label   string // what is wrong (roles of the lost entries)
	wlen    int    // length of the last write
}

func (r *runner) harness(f string, a ...any) { r.c.HarnessError(f, a...) }

func writeSession(file string, cmds []int) error {
	h, _ := history.New(file)
	for _, x := range cmds {
		if _, err := h.Write(blocks[x].text); err != nil {
			return err
		}
	}
	return nil
}

func reload(file string) []string {
	h, _ := history.New(file)
	var l []string
	for i := 0; i < h.Len(); i++ {
		s, err := h.GetLine(i)
		if err != nil {
			s = "<GetLine error: " + err.Error() + ">"
		}
		l = append(l, s)
	}
	return l
}

// build runs the sessions for real. The timestamp murex writes is time.Now() in RFC3339Nano, which
// drops trailing zeros; to keep the set of byte offsets identical between runs the history is
// rebuilt when the last line's timestamp is not of full width.
func (r *runner) build(sessions [][]int) {
	key := kase{sessions: sessions}.String()
	if key == r.builtKey {
		return
	}
	if b, ok := r.cache[key]; ok {
		r.full, r.pre, r.builtKey = b.full, b.pre, key
		return
	}
	defer func() {
		if len(r.cache) >= 48 {
			r.cache = map[string]built{}
		}
		r.cache[key] = built{r.full, r.pre}
	}()
	r.fileKey = ""
	for try := 0; ; try++ {
		os.Remove(r.file)
		pre := 0
		for si, s := range sessions {
			h, _ := history.New(r.file)
			for ci, x := range s {
				if si == len(sessions)-1 && ci == len(s)-1 {
					if st, err := os.Stat(r.file); err == nil {
						pre = int(st.Size())
					}
				}
				if _, err := h.Write(blocks[x].text); err != nil {
					r.harness("Write failed: %v", err)
				}
			}
		}
		b, err := os.ReadFile(r.file)
		if err != nil {
			r.harness("history file not written: %v", err)
		}
		if pre > len(b) {
			// the file shrank while writing: the oracle will report the lost entries; no crash points
			r.c.Extra("histories whose file shrank during the last Write", 1)
			pre = len(b)
		}
		last := b[pre:]
		if len(last) == 0 {
			r.full, r.pre, r.builtKey = b, pre, key
			return
		}
		const head = `{"datetime":"`
		q := strings.IndexByte(string(last[min(len(head), len(last)):]), '"')
		// 2006-01-02T15:04:05.123456789 + zone
		if strings.HasPrefix(string(last), head) && q >= 0 {
			ts := string(last[len(head) : len(head)+q])
			if dot := strings.IndexByte(ts, '.'); dot == 19 && len(ts) >= 30 && isDigits(ts[20:29]) || try > 20 {
				r.full, r.pre, r.builtKey = b, pre, key
				return
			}
			continue
		}
		// unexpected line format: still usable, only the offsets are not reproducible
		r.c.Note("history line does not start with %s; crash offsets may differ between runs", head)
		r.full, r.pre, r.builtKey = b, pre, key
		return
	}
}

func isDigits(s string) bool {
	for _, c := range s {
		if c < '0' || c > '9' {
			return false
		}
	}
	return true
}

// eval runs one case on the real code and judges it (memoised).
func (r *runner) eval(k kase) *verdict {
	key := k.String()
	if v := r.memo[key]; v != nil {
		return v
	}
	r.build(k.sessions)
	wlen := len(r.full) - r.pre
	cut := wlen
	if k.crash >= 0 && k.crash < wlen {
		cut = k.crash
	}
	r.place(key0(k), r.full[:r.pre+cut])
	if len(k.after) > 0 {
		if err := writeSession(r.file, k.after); err != nil {
			r.harness("Write failed: %v", err)
		}
	}
	raw := reload(r.file)
	got := collapse(raw)

	// expected entries, each tagged with its role in the case
	type ent struct {
		text string
		tag  string
	}
	var all []ent
	for _, s := range k.sessions {
		for _, x := range s {
			all = append(all, ent{blocks[x].text, "before"})
		}
	}
	all[len(all)-1].tag = "last"
	for i, x := range k.after {
		all = append(all, ent{blocks[x].text, "after" + strconv.Itoa(min(i+1, 2))})
	}
	expect := func(withLast bool) (texts []string, tags []string) {
		for _, e := range all {
			if e.tag == "last" && !withLast {
				continue
			}
			texts = append(texts, e.text)
			tags = append(tags, e.tag)
		}
		return
	}
	withRaw, withTags := expect(true)
	withoutRaw, withoutTags := expect(false)
	with, without := collapse(withRaw), collapse(withoutRaw)
	v := &verdict{wlen: wlen}
	switch {
	case eq(got, with):
		v.outcome = "complete"
		if cut < wlen {
			v.outcome = "torn-write-kept"
		}
	case cut < wlen && eq(got, without):
		v.outcome = "torn-write-dropped"
	default:
		v.bad = true
		exp := show(with)
		var n int
		v.label, n = diff(withRaw, withTags, raw)
		if cut < wlen {
			exp += " or " + show(without)
			if l2, n2 := diff(withoutRaw, withoutTags, raw); n2 < n {
				v.label = l2
			}
		}
		v.detail = fmt.Sprintf("reload gives %s, expected %s (last write %d bytes, cut after %d)", show(got), exp, wlen, cut)
	}
	if len(r.memo) > 200000 {
		r.memo = map[string]*verdict{}
	}
	r.memo[key] = v
	return v
}

// diff names what differs between the acknowledged entries and the reloaded ones (both as
// written, not collapsed): the roles of the
// expected entries that are missing (longest common subsequence alignment) and "extra" when the
// reload contains an entry that was not expected there.
func diff(exp []string, tags []string, got []string) (string, int) {
	n, m := len(exp), len(got)
	l := make([][]int, n+1)
	for i := range l {
		l[i] = make([]int, m+1)
	}
	for i := n - 1; i >= 0; i-- {
		for j := m - 1; j >= 0; j-- {
			if exp[i] == got[j] {
				l[i][j] = l[i+1][j+1] + 1
			} else {
				l[i][j] = max(l[i+1][j], l[i][j+1])
			}
		}
	}
	lost := map[string]bool{}
	extra := false
	cnt := 0
	i, j := 0, 0
	for i < n && j < m {
		switch {
		case exp[i] == got[j]:
			i++
			j++
		case l[i+1][j] >= l[i][j+1]:
			lost[tags[i]] = true
			cnt++
			i++
		default:
			extra = true
			cnt++
			j++
		}
	}
	for ; i < n; i++ {
		lost[tags[i]] = true
		cnt++
	}
	if j < m {
		extra = true
	}
	var out []string
	for _, t := range []string{"before", "last", "after1", "after2"} {
		if lost[t] {
			out = append(out, t)
		}
	}
	s := "lost:" + strings.Join(out, "+")
	if extra {
		s += " extra"
	}
	return s, cnt
}

func key0(k kase) string { return kase{sessions: k.sessions}.String() }

// place makes the history file equal to want. When the file still starts with a prefix of the same
// built history (the after-session only appended to it) only the difference is written.
func (r *runner) place(key string, want []byte) {
	target := len(want)
	if r.fileKey == key && r.fileValid >= 0 {
		keep := min(r.fileValid, target)
		err := os.Truncate(r.file, int64(keep))
		if err == nil && keep < target {
			var f *os.File
			if f, err = os.OpenFile(r.file, os.O_APPEND|os.O_WRONLY, 0600); err == nil {
				_, err = f.Write(want[keep:])
				f.Close()
			}
		}
		if err == nil {
			r.fileValid = target
			return
		}
	}
	if err := os.WriteFile(r.file, want, 0600); err != nil {
		r.harness("%v", err)
	}
	r.fileKey, r.fileValid = key, target
}

func clone(k kase) kase {
	n := kase{crash: k.crash, after: append([]int{}, k.after...)}
	for _, s := range k.sessions {
		n.sessions = append(n.sessions, append([]int{}, s...))
	}
	return n
}

// reductions: every one-step simpler case (the order is the order in which they are tried).
func (r *runner) reductions(k kase, prevCrash int) []kase {
	var out []kase
	if k.crash >= 0 {
		n := clone(k)
		n.crash = -1
		out = append(out, n)
		if prevCrash >= 0 {
			n = clone(k)
			n.crash = prevCrash
			out = append(out, n)
		}
	}
	for i := range k.after {
		n := clone(k)
		n.after = append(n.after[:i], n.after[i+1:]...)
		out = append(out, n)
	}
	for si := range k.sessions {
		for ci := range k.sessions[si] {
			last := si == len(k.sessions)-1 && ci == len(k.sessions[si])-1
			if last && k.crash >= 0 {
				continue // the torn write stays
			}
			n := clone(k)
			n.sessions[si] = append(n.sessions[si][:ci], n.sessions[si][ci+1:]...)
			if len(n.sessions[si]) == 0 {
				n.sessions = append(n.sessions[:si], n.sessions[si+1:]...)
			}
			if len(n.sessions) > 0 {
				out = append(out, n)
			}
		}
	}
	for si := 0; si+1 < len(k.sessions); si++ { // merge two sessions
		n := clone(k)
		n.sessions[si] = append(n.sessions[si], n.sessions[si+1]...)
		n.sessions = append(n.sessions[:si+1], n.sessions[si+2:]...)
		out = append(out, n)
	}
	// replace a block by a simpler one (only when the crash offset stays meaningful)
	for si := range k.sessions {
		for ci, x := range k.sessions[si] {
			last := si == len(k.sessions)-1 && ci == len(k.sessions[si])-1
			if last && k.crash > 32 {
				continue
			}
			for y := x - 1; y >= 0; y-- {
				n := clone(k)
				n.sessions[si][ci] = y
				out = append(out, n)
			}
		}
	}
	for i, x := range k.after {
		for y := x - 1; y >= 0; y-- {
			n := clone(k)
			n.after[i] = y
			out = append(out, n)
		}
	}
	return out
}

// crashPoints of a write of n bytes: every offset for entries < 4 KiB, a boundary set otherwise.
func crashPoints(n int, quick bool) []int {
	var out []int
	if n < 4096 {
		for i := 0; i < n; i++ {
			out = append(out, i)
		}
		return out
	}
	edge := 256
	if quick {
		edge = 16
	}
	seen := map[int]bool{}
	add := func(i int) {
		if i >= 0 && i < n && !seen[i] {
			seen[i] = true
			out = append(out, i)
		}
	}
	for i := 0; i <= edge; i++ {
		add(i)
	}
	nb := (n - 1) / 4096
	for b := 1; b <= nb; b++ {
		p := b * 4096
		if quick && b > 2 && b < nb-1 && (b < 15 || b > 17) {
			continue // quick: the first/last two boundaries and those around 64 KiB
		}
		for d := -2; d <= 2; d++ {
			if quick && (d == -2 || d == 2) {
				continue
			}
			add(p + d)
		}
	}
	for i := n - edge; i < n; i++ {
		add(i)
	}
	// keep increasing order
	for i := 1; i < len(out); i++ {
		for j := i; j > 0 && out[j] < out[j-1]; j-- {
			out[j], out[j-1] = out[j-1], out[j]
		}
	}
	return out
}

type bounds struct {
	nblocks   int
	maxCmds   int
	maxLong   int // longest command sequence that may contain an entry > 64 KiB
	maxSess   int
	afters    [][]int
	quick     bool
	afterDesc string
}

func getBounds(quick bool) bounds {
	b := bounds{quick: quick}
	afterAlpha := []int{0, 2}
	if quick {
		b.nblocks, b.maxCmds, b.maxLong, b.maxSess = 6, 3, 2, 2
		b.afterDesc = "every sequence of <= 2 commands over {a, ml}"
	} else {
		b.nblocks, b.maxCmds, b.maxLong, b.maxSess = 7, 4, 3, 3
		b.afterDesc = "every sequence of <= 2 commands over {a, ml}, plus [L70k]"
	}
	vlib.Seqs(len(afterAlpha), 0, 2, func(idx []int) bool {
		var a []int
		for _, i := range idx {
			a = append(a, afterAlpha[i])
		}
		b.afters = append(b.afters, a)
		return true
	})
	if !quick {
		b.afters = append(b.afters, []int{4})
	}
	return b
}

// histories: every command sequence of 1..maxCmds over the blocks, cut into <= maxSess non-empty sessions.
func histories(b bounds, fn func(sessions [][]int) bool) {
	vlib.Seqs(b.nblocks, 1, b.maxCmds, func(idx []int) bool {
		n := len(idx)
		if n > b.maxLong {
			for _, x := range idx {
				if len(blocks[x].text) > 65536 {
					return true
				}
			}
		}
		// cuts: bitmask over the n-1 gaps
		for mask := 0; mask < 1<<(n-1); mask++ {
			var sessions [][]int
			cur := []int{idx[0]}
			for i := 1; i < n; i++ {
				if mask&(1<<(i-1)) != 0 {
					sessions = append(sessions, cur)
					cur = nil
				}
				cur = append(cur, idx[i])
			}
			sessions = append(sessions, cur)
			if len(sessions) > b.maxSess {
				continue
			}
			if !fn(sessions) {
				return false
			}
		}
		return true
	})
}

func setup(c *vlib.Ctx) *runner {
	mx.Init(c.WorkDir)
	if err := lang.ShellProcess.Config.Set("shell", "history-write-enabled", true, nil); err != nil {
		c.HarnessError("cannot enable history writing: %v", err)
	}
	return &runner{c: c, file: filepath.Join(c.WorkDir, "murex_history"), memo: map[string]*verdict{}, cache: map[string]built{}}
}

func hasDup(sessions [][]int, after []int) bool {
	prev := -1
	for _, s := range append(append([][]int{}, sessions...), after) {
		for _, x := range s {
			if x == prev {
				return true
			}
			prev = x
		}
	}
	return false
}

func hasLong(sessions [][]int, after []int) bool {
	for _, s := range append(append([][]int{}, sessions...), after) {
		for _, x := range s {
			if len(blocks[x].text) > 65536 {
				return true
			}
		}
	}
	return false
}

// judge evaluates one enumerated case; a violating case is reported only if no one-step simpler
// case violates too (so the witnesses are the minimal ones).
func (r *runner) judge(k kase, prevCrash int, sample bool) {
	c := r.c
	v := r.eval(k)
	wlen := v.wlen
	torn := k.crash > 0 && k.crash < wlen
	nt := torn || hasDup(k.sessions, k.after) || hasLong(k.sessions, k.after)
	if sample {
		c.Sample(map[string]any{"case": k.String(), "result": v.outcome, "violates": v.bad})
	}
	if !v.bad {
		c.Eval(nt, v.outcome)
		return
	}
	for _, red := range r.reductions(k, prevCrash) {
		if rv := r.eval(red); rv.bad && rv.label == v.label {
			c.Eval(nt, "violates "+v.label+" (a simpler case too)")
			c.Extra("violating cases subsumed by a simpler violating case", 1)
			return
		}
	}
	c.Eval(nt, "violates "+v.label+" (minimal)")
	c.Violation("reload", k.String()+" #"+v.label, v.detail)
}


// ---- two live sessions -----------------------------------------------------------------------------
// Session A has recorded a1 and stays open; session B opens the same file and records b, crashing after k
// bytes of that write (or completing it); A, still running, then records a2; a later session reloads.
// A's entries were written before and after the crash: both must read back, and b too when it completed.

type liveCase struct {
	a1, b, a2 int
	crash     int // -1: B's write completes
}

func (l liveCase) String() string {
	cr := "@end"
	if l.crash >= 0 {
		cr = "@" + strconv.Itoa(l.crash)
	}
	return fmt.Sprintf("LIVE A:%s B:%s %s A:%s", blocks[l.a1].name, blocks[l.b].name, cr, blocks[l.a2].name)
}

// evalLive returns (violates, detail, length of B's write).
func (r *runner) evalLive(l liveCase) (bool, string, int) {
	os.Remove(r.file)
	hA, _ := history.New(r.file)
	if _, err := hA.Write(blocks[l.a1].text); err != nil {
		r.harness("Write failed: %v", err)
	}
	st, _ := os.Stat(r.file)
	pre := int(st.Size())
	hB, _ := history.New(r.file)
	if _, err := hB.Write(blocks[l.b].text); err != nil {
		r.harness("Write failed: %v", err)
	}
	st, _ = os.Stat(r.file)
	wlen := int(st.Size()) - pre
	cut := l.crash >= 0 && l.crash < wlen
	if cut {
		if err := os.Truncate(r.file, int64(pre+l.crash)); err != nil {
			r.harness("truncate: %v", err)
		}
	}
	if _, err := hA.Write(blocks[l.a2].text); err != nil {
		r.harness("Write failed: %v", err)
	}
	got := collapse(reload(r.file))
	with := collapse([]string{blocks[l.a1].text, blocks[l.b].text, blocks[l.a2].text})
	without := collapse([]string{blocks[l.a1].text, blocks[l.a2].text})
	same := func(x, y []string) bool { return strings.Join(x, "\x00") == strings.Join(y, "\x00") && len(x) == len(y) }
	if same(got, with) || (cut && same(got, without)) {
		return false, "", wlen
	}
	return true, fmt.Sprintf("reload gives %d entries %s, expected A's two entries with%s B's between them (B's write %d bytes, cut after %d)", len(got), clipList(got), map[bool]string{true: " or without", false: ""}[cut], wlen, l.crash), wlen
}

func clipList(l []string) string {
	var out []string
	for _, s := range l {
		out = append(out, strconv.Quote(vlib.Clip(s, 24)))
	}
	return "[" + strings.Join(out, " ") + "]"
}

func (r *runner) runLive(quick bool) {
	c := r.c
	smalls := []int{0, 2} // a, ml
	bs := []int{1, 3}     // ab, uq
	if !quick {
		bs = append(bs, 4) // L70k
	}
	for _, a1 := range smalls {
		for _, b := range bs {
			for _, a2 := range smalls {
				if !c.Next() {
					continue
				}
				_, _, wlen := r.evalLive(liveCase{a1, b, a2, -1})
				for _, p := range append([]int{-1}, crashPoints(wlen, quick)...) {
					l := liveCase{a1, b, a2, p}
					bad, detail, _ := r.evalLive(l)
					outcome := "live sessions: ok"
					if bad {
						outcome = "live sessions: VIOLATION"
						c.Violation("reload", l.String()+" #lost:live-session", detail)
					}
					c.Eval(p > 0 && p < wlen, outcome)
				}
			}
		}
	}
}

func run(c *vlib.Ctx) {
	r := setup(c)
	b := getBounds(c.Quick())
	n := 0
	histories(b, func(sessions [][]int) bool {
		if !c.Next() {
			return true
		}
		if c.Expired() {
			return false
		}
		n++
		r.build(sessions)
		wlen := len(r.full) - r.pre
		pts := append([]int{-1}, crashPoints(wlen, b.quick)...)
		for _, after := range b.afters {
			prev := -1
			for pi, p := range pts {
				r.judge(kase{sessions: sessions, crash: p, after: after}, prev, n%97 == 1 && pi == len(pts)/2)
				prev = p
			}
		}
		return true
	})
	c.Extra("histories (this is the unit of sharding)", int64(n))
	r.runLive(c.Quick())
}

func replay(c *vlib.Ctx, w string) {
	if i := strings.Index(w, " #"); i >= 0 {
		w = w[:i]
	}
	if strings.HasPrefix(w, "LIVE ") {
		r := setup(c)
		var a1, b, a2, cr string
		if n, _ := fmt.Sscanf(w, "LIVE A:%s B:%s %s A:%s", &a1, &b, &cr, &a2); n != 4 {
			fmt.Println("cannot parse witness", w)
			return
		}
		l := liveCase{blockIdx(a1), blockIdx(b), blockIdx(a2), -1}
		if cr != "@end" {
			l.crash, _ = strconv.Atoi(cr[1:])
		}
		if bad, detail, _ := r.evalLive(l); bad {
			c.Violation("reload", l.String()+" #lost:live-session", detail)
		}
		return
	}
	k, ok := parseKase(w)
	if !ok {
		fmt.Println("cannot parse witness", w)
		return
	}
	r := setup(c)
	if v := r.eval(k); v.bad {
		c.Violation("reload", k.String()+" #"+v.label, v.detail)
	}
}

// RuleText, Run, Replay and Assumptions are also used by the combined C29 check in echecks/histconc (which adds
// the interleaving part under the controlled scheduler).
var RuleText = "histories = every sequence of 1..n commands over the block alphabet {a, 'a b', two-line, unicode+quote+backslash, 70 KiB line, 70 KiB of '<&>\\n' (about 350 KiB once encoded in the file); thorough adds a 200 KiB line} cut in every way into <= s sessions (quick n=3 s=2, thorough n=4 s=3; sequences containing an entry > 64 KiB only up to n-1 commands), written by the real history.New/History.Write; the file is then truncated at every byte offset of the last write (entries >= 4 KiB: thorough the first and last 256 offsets and every 4096-byte boundary +-2; quick the first and last 16 offsets and the first two, last two and 60-68 KiB boundaries +-1) or left complete, one further session appends every sequence of <= 2 commands over {a, two-line} (thorough also the 70 KiB line), and a final session reloads; PLUS two live sessions: A records a1 and stays open, B opens the file and records b cut at every crash point (or complete), A then records a2, a later session reloads (A's entries, written before and after the crash, must both read back); oracle: reload with consecutive duplicates collapsed = acknowledged commands (with or, if the write was cut, without the cut one); non-trivial = the cut is strictly inside the write, or the history contains a consecutive duplicate or an entry longer than 64 KiB; each violation is labelled with the roles of the lost entries (before = acknowledged before the cut write, last = the completed last write, after1/after2 = first/later entry of the next session; the label is appended to the witness after '#'), and a violating case is listed only when none of its one-step reductions (no crash, previous offset, drop a command, merge sessions, simpler block) violates with the same label"

func Run(c *vlib.Ctx)              { run(c) }
func Setup(c *vlib.Ctx)            { setup(c) }
func Replay(c *vlib.Ctx, w string) { replay(c, w) }

func init() {
	vlib.Register(&vlib.Check{
		ID: "C29", Engine: "E4",
		Rule:   RuleText,
		Run:    run,
		Replay: replay,
		Assumptions: []string{
			"crash model: the single append write() of History.Write is cut to a prefix; no fsync/power-loss model (murex never syncs)",
			"commands have no leading/trailing white space (Write trims) and are valid UTF-8; the empty command is not recorded by design",
			"the history is rebuilt when time.Now() happened to have trailing zero nanoseconds so that byte offsets are identical between runs",
		},
	})
}
