// Package flow: C39 — break / continue / return. All program trees of nested foreach / while / if
// (optionally wrapped in a function) with jumps at every position, up to stated size bounds, are run
// in-process and compared with a reference interpreter of the visible output and exit number.
package flow

import (
	"fmt"
	"strings"

	"verif/mx"
	"verif/vlib"
)

const fnName = "vfg4"

// ---- program trees ---------------------------------------------------------------------------

const (
	sOut = iota
	sJump
	sIf
	sLoop
)

const (
	jBreak    = iota // break <loop name>
	jContinue        // continue <loop name>
	jReturn          // return n
	jBreakFn         // break <function name>
	jBreakIf         // break if (only inside the then-block of sIf)
)

const (
	lForeach = iota
	lWhile
)

type jump struct {
	kind int
	name string // foreach | while
	n    int
}

type stmt struct {
	kind int
	j    jump
	cvar int // sIf: index (depth) of the loop whose variable is compared
	ck   int // sIf: index of the value compared with
	loop int // sLoop: lForeach | lWhile
	body []stmt
}

// loop frames by depth
type frame struct {
	loop int
	name string // block name
	v    string // variable
	vals []string
}

func newFrame(loop, depth int) frame {
	if loop == lForeach {
		switch depth {
		case 0:
			return frame{lForeach, "foreach", "i", []string{"1", "2", "3"}}
		case 1:
			return frame{lForeach, "foreach", "j", []string{"a", "b"}}
		default:
			return frame{lForeach, "foreach", "k", []string{"x", "y"}}
		}
	}
	if depth <= 1 {
		return frame{lWhile, "while", "w", []string{"1", "2"}}
	}
	return frame{lWhile, "while", "v", []string{"1", "2"}}
}

func (j jump) text() string {
	switch j.kind {
	case jBreak:
		return "break " + j.name
	case jContinue:
		return "continue " + j.name
	case jReturn:
		return fmt.Sprintf("return %d", j.n)
	case jBreakFn:
		return "break " + fnName
	}
	return "break if"
}

// ---- rendering -------------------------------------------------------------------------------

type renderer struct {
	b   strings.Builder
	tag int
}

func (r *renderer) nextTag() string {
	t := r.tag
	r.tag++
	if t < 26 {
		return string(rune('A' + t))
	}
	return string(rune('a' + t - 26))
}

func varRefs(ctx []frame) string {
	s := ""
	for _, f := range ctx {
		s += "$" + f.v
	}
	return s
}

func quoteVal(v string) string {
	if v[0] >= '0' && v[0] <= '9' {
		return v
	}
	return `"` + v + `"`
}

func (r *renderer) body(body []stmt, ctx []frame) {
	for _, s := range body {
		switch s.kind {
		case sOut:
			fmt.Fprintf(&r.b, "out \"%s%s\"\n", r.nextTag(), varRefs(ctx))
		case sJump:
			r.b.WriteString(s.j.text() + "\n")
		case sIf:
			t := r.nextTag()
			f := ctx[s.cvar]
			fmt.Fprintf(&r.b, "if { $%s == %s } then { out \"%s+\"; %s; out \"%s-\" }\n", f.v, quoteVal(f.vals[s.ck]), t, s.j.text(), t)
		case sLoop:
			f := newFrame(s.loop, len(ctx))
			if s.loop == lForeach {
				fmt.Fprintf(&r.b, "%%[%s] -> foreach %s {\n", strings.Join(f.vals, ","), f.v)
			} else {
				fmt.Fprintf(&r.b, "%s=0\nwhile { $%s < %d } {\n%s=$%s+1\n", f.v, f.v, len(f.vals), f.v, f.v)
			}
			r.body(s.body, append(ctx[:len(ctx):len(ctx)], f))
			r.b.WriteString("}\n")
		}
	}
}

type program struct {
	inFunc bool
	body   []stmt // body of the outer foreach
}

func (p program) text() string {
	var r renderer
	outer := []stmt{{kind: sLoop, loop: lForeach, body: p.body}}
	if p.inFunc {
		r.b.WriteString("function " + fnName + " {\n")
		r.body(outer, nil)
		r.b.WriteString("out fend\n}\n" + fnName + "\nexitnum\nout end\n")
	} else {
		r.body(outer, nil)
		r.b.WriteString("out end\n")
	}
	return r.b.String()
}

// ---- reference interpreter (the statement of C39) ----------------------------------------------

type signal struct {
	kind int // 0 none, 1 break, 2 continue, 3 return, 4 break function
	name string
	n    int
}

type interp struct {
	out  []string
	jmps int  // jumps taken
	cut  int  // statements the model skipped because of a jump (non-triviality)
	dc   bool // a bare `continue` aimed at its immediately enclosing loop was executed with statements after it
	sib  bool // a `continue X` travelled past a later sibling statement that is itself a loop called X
}

// passes: signal sg leaves body at statement idx; note when a continue walks past a sibling loop of its own name
func (m *interp) passes(sg signal, body []stmt, idx int, ctx []frame) {
	if sg.kind != 2 {
		return
	}
	for _, s := range body[idx+1:] {
		if s.kind == sLoop && newFrame(s.loop, len(ctx)).name == sg.name {
			m.sib = true
		}
	}
}

// countTags: how many tags the renderer hands out inside a body (to keep model tags aligned with the
// rendered ones whatever path execution takes)
func countTags(body []stmt) int {
	n := 0
	for _, s := range body {
		switch s.kind {
		case sOut, sIf:
			n++
		case sLoop:
			n += countTags(s.body)
		}
	}
	return n
}

func (m *interp) sig(j jump) signal {
	m.jmps++
	switch j.kind {
	case jBreak:
		return signal{kind: 1, name: j.name}
	case jContinue:
		return signal{kind: 2, name: j.name}
	case jReturn:
		return signal{kind: 3, n: j.n}
	case jBreakFn:
		return signal{kind: 4}
	}
	return signal{kind: 1, name: "if"}
}

// execBody runs one pass over body with the given loop variable values. base = tag number of the
// first tag in this body.
func (m *interp) execBody(body []stmt, ctx []frame, env []string, base int) signal {
	tag := base
	tagOf := func(t int) string {
		if t < 26 {
			return string(rune('A' + t))
		}
		return string(rune('a' + t - 26))
	}
	for idx, s := range body {
		switch s.kind {
		case sOut:
			m.out = append(m.out, tagOf(tag)+strings.Join(env, ""))
			tag++
		case sJump:
			if s.j.kind == jContinue {
				m.passes(signal{kind: 2, name: s.j.name}, body, idx, ctx)
			}
			m.cut += len(body) - idx - 1
			if s.j.kind == jContinue && len(ctx) > 0 && ctx[len(ctx)-1].name == s.j.name && idx < len(body)-1 {
				m.dc = true
			}
			return m.sig(s.j)
		case sIf:
			t := tagOf(tag)
			tag++
			if env[s.cvar] == ctx[s.cvar].vals[s.ck] {
				m.out = append(m.out, t+"+")
				sg := m.sig(s.j)
				m.cut++ // the out after the jump inside the then-block
				if sg.kind == 1 && sg.name == "if" {
					// `break if` ends the if block only: the code after the if carries on
					continue
				}
				m.cut += len(body) - idx - 1
				m.passes(sg, body, idx, ctx)
				return sg
			}
		case sLoop:
			f := newFrame(s.loop, len(ctx))
			nctx := append(ctx[:len(ctx):len(ctx)], f)
			var res signal
		iterations:
			for _, v := range f.vals {
				sg := m.execBody(s.body, nctx, append(env[:len(env):len(env)], v), tag)
				switch {
				case sg.kind == 0:
				case sg.kind == 2 && sg.name == f.name:
					// continue <this loop>: on to the next iteration
				case sg.kind == 1 && sg.name == f.name:
					// break <this loop>: the loop ends, the code after it carries on
					break iterations
				default:
					res = sg
					break iterations
				}
			}
			tag += countTags(s.body)
			if res.kind != 0 {
				m.cut += len(body) - idx - 1
				m.passes(res, body, idx, ctx)
				return res
			}
		}
	}
	return signal{}
}

type expectation struct {
	lines   []string // expected stdout lines; "?" = any single line (exit number not defined)
	jumps   int
	cut     int
	dc      bool
	sib     bool
	outcome string
}

func model(p program) expectation {
	m := &interp{}
	outer := []stmt{{kind: sLoop, loop: lForeach, body: p.body}}
	sg := m.execBody(outer, nil, nil, 0)
	e := expectation{}
	if p.inFunc {
		switch sg.kind {
		case 3:
			m.out = append(m.out, fmt.Sprint(sg.n))
			e.outcome = "return"
		case 4:
			// `break <function>`: the function ends; its exit number is not part of the statement
			m.out = append(m.out, "?")
			e.outcome = "break-function"
		default:
			m.out = append(m.out, "fend", "0")
			e.outcome = "function-completes"
		}
	} else {
		e.outcome = "completes"
	}
	m.out = append(m.out, "end")
	e.lines, e.jumps, e.cut, e.dc, e.sib = m.out, m.jmps, m.cut, m.dc, m.sib
	return e
}

// ---- enumeration -----------------------------------------------------------------------------

type bounds struct {
	name      string
	outerLen  int  // statements in the outer loop body
	innerLen  int  // statements in the body of a loop nested directly in the outer loop
	deepLen   int  // statements in the body of a loop nested two levels down
	depth     int  // maximum nesting depth of inner loops (1 = outer + one inner); at most one loop statement per body
	allK      bool // compare with every loop value (else: the first two)
	outerCond bool // an `if` may test any loop variable in scope (else: the innermost only)
}

// spacesFor: the sub-spaces enumerated per tier, in order. A program that already belongs to an earlier
// sub-space of the same tier is skipped, so no program is run twice.
func spacesFor(quick bool) []bounds {
	if quick {
		return []bounds{{name: "q", outerLen: 2, innerLen: 2, depth: 1}}
	}
	return []bounds{
		{name: "wide", outerLen: 3, innerLen: 1, depth: 1, allK: true, outerCond: true},
		{name: "inner2", outerLen: 2, innerLen: 2, depth: 1, allK: true, outerCond: true},
		{name: "deep", outerLen: 1, innerLen: 2, deepLen: 1, depth: 2, allK: true, outerCond: true},
		{name: "deep-wide", outerLen: 2, innerLen: 1, deepLen: 1, depth: 2, allK: true, outerCond: true},
	}
}

// metrics of a program, to decide membership of a sub-space
type metrics struct {
	outerLen, innerLen, deepLen, depth int
	k3, outerCond                      bool
}

func measure(body []stmt, level int, m *metrics) {
	switch level {
	case 0:
		m.outerLen = max(m.outerLen, len(body))
	case 1:
		m.innerLen = max(m.innerLen, len(body))
	default:
		m.deepLen = max(m.deepLen, len(body))
	}
	m.depth = max(m.depth, level)
	for _, s := range body {
		switch s.kind {
		case sIf:
			if s.ck >= 2 {
				m.k3 = true
			}
			if s.cvar < level {
				m.outerCond = true
			}
		case sLoop:
			measure(s.body, level+1, m)
		}
	}
}

func (b bounds) contains(m metrics) bool {
	return m.outerLen <= b.outerLen && m.innerLen <= b.innerLen && m.deepLen <= b.deepLen && m.depth <= b.depth &&
		(b.allK || !m.k3) && (b.outerCond || !m.outerCond)
}

func jumpsFor(ctx []frame, inFunc bool) []jump {
	var js []jump
	seen := map[string]bool{}
	for i := len(ctx) - 1; i >= 0; i-- {
		if !seen[ctx[i].name] {
			seen[ctx[i].name] = true
			js = append(js, jump{kind: jBreak, name: ctx[i].name}, jump{kind: jContinue, name: ctx[i].name})
		}
	}
	if inFunc {
		js = append(js, jump{kind: jReturn, n: 3}, jump{kind: jBreakFn})
	}
	return js
}

// leaves: every non-loop statement available in a body with this context
func leaves(ctx []frame, inFunc bool, b bounds) []stmt {
	ls := []stmt{{kind: sOut}}
	js := jumpsFor(ctx, inFunc)
	for _, j := range js {
		ls = append(ls, stmt{kind: sJump, j: j})
	}
	for d := len(ctx) - 1; d >= 0; d-- {
		if d < len(ctx)-1 && !b.outerCond {
			break
		}
		nk := len(ctx[d].vals)
		if !b.allK && nk > 2 {
			nk = 2
		}
		for k := 0; k < nk; k++ {
			for _, j := range append(js[:len(js):len(js)], jump{kind: jBreakIf}) {
				jj := j
				if jj.kind == jReturn {
					jj.n = 3 + k // the exit number tells which return fired
				}
				ls = append(ls, stmt{kind: sIf, j: jj, cvar: d, ck: k})
			}
		}
	}
	return ls
}

// bodies: every body of 1..maxLen statements with at most one loop statement, depth-limited.
func bodies(ctx []frame, inFunc bool, b bounds, maxLen, depthLeft int, fn func([]stmt) bool) bool {
	ls := leaves(ctx, inFunc, b)
	var loops []stmt
	if depthLeft > 0 {
		for _, lk := range []int{lForeach, lWhile} {
			f := newFrame(lk, len(ctx))
			innerLen := b.innerLen
			if len(ctx) >= 2 {
				innerLen = b.deepLen
			}
			bodies(append(ctx[:len(ctx):len(ctx)], f), inFunc, b, innerLen, depthLeft-1, func(inner []stmt) bool {
				loops = append(loops, stmt{kind: sLoop, loop: lk, body: append([]stmt{}, inner...)})
				return true
			})
		}
	}
	cur := make([]stmt, 0, maxLen)
	var rec func(pos int, usedLoop bool, n int) bool
	rec = func(pos int, usedLoop bool, n int) bool {
		if pos == n {
			return fn(cur)
		}
		for _, s := range ls {
			cur = append(cur, s)
			ok := rec(pos+1, usedLoop, n)
			cur = cur[:len(cur)-1]
			if !ok {
				return false
			}
		}
		if !usedLoop {
			for _, s := range loops {
				cur = append(cur, s)
				ok := rec(pos+1, true, n)
				cur = cur[:len(cur)-1]
				if !ok {
					return false
				}
			}
		}
		return true
	}
	for n := 1; n <= maxLen; n++ {
		if !rec(0, false, n) {
			return false
		}
	}
	return true
}

func enumerate(spaces []bounds, fn func(program) bool) {
	for si, b := range spaces {
		for _, inFunc := range []bool{false, true} {
			outer := []frame{newFrame(lForeach, 0)}
			if !bodies(outer, inFunc, b, b.outerLen, b.depth, func(body []stmt) bool {
				if si > 0 {
					var m metrics
					measure(body, 0, &m)
					for _, earlier := range spaces[:si] {
						if earlier.contains(m) {
							return true
						}
					}
				}
				return fn(program{inFunc: inFunc, body: body})
			}) {
				return
			}
		}
	}
}

// ---- oracle ----------------------------------------------------------------------------------

func panicText(r mx.Result) bool {
	return mx.HasPanicText(r.Stdout) || mx.HasPanicText(r.Stderr) || mx.HasPanicText(r.Err) || r.Crash != ""
}

func matches(got, exp []string) bool {
	if len(got) != len(exp) {
		return false
	}
	for i := range got {
		if exp[i] != "?" && got[i] != exp[i] {
			return false
		}
	}
	return true
}

func check(c *vlib.Ctx, p program, sample bool) {
	src := p.text()
	exp := model(p)
	r := mx.Run(src, &mx.Opt{Ceiling: 15e9})
	var got []string
	if r.Stdout != "" {
		got = strings.Split(strings.TrimSuffix(r.Stdout, "\n"), "\n")
	}
	variant := "main"
	if p.inFunc {
		variant = "func"
	}
	res := "match"
	switch {
	case r.Hang:
		res = "hang"
	case panicText(r):
		res = "panic"
	case !matches(got, exp.lines):
		res = "differs"
	case r.Exit != 0:
		res = "exit!=0"
	}
	// non-trivial: the model takes at least one jump that cuts off at least one statement
	c.Eval(exp.jumps > 0 && exp.cut > 0, fmt.Sprintf("%s %s jumps=%d -> %s", variant, exp.outcome, min(exp.jumps, 4), res))
	if sample {
		c.Sample(map[string]any{"program": src, "stdout": r.Stdout, "exit": r.Exit, "model": strings.Join(exp.lines, " ")})
	}
	suffix := ""
	if exp.dc {
		// feature of the program, not of the result: the model executed a bare `continue X` placed directly
		// in the body of loop X with statements after it
		suffix = "(bare-continue-in-own-loop)"
	} else if exp.sib {
		// likewise a feature of the program: a `continue X` that has to skip a later sibling loop called X
		suffix = "(continue-past-sibling-loop-of-same-name)"
	}
	switch res {
	case "hang":
		c.Violation("terminates", src, "caller still blocked after ceiling\n"+r.HangStack)
	case "panic":
		c.Violation("no-panic", src, fmt.Sprintf("%v", r))
	case "differs":
		c.Violation("output"+suffix, src, fmt.Sprintf("stdout lines: %s\nexpected    : %s\n(exit=%d stderr=%q)", strings.Join(got, " "), strings.Join(exp.lines, " "), r.Exit, vlib.Clip(r.Stderr, 300)))
	case "exit!=0":
		c.Violation("exit"+suffix, src, fmt.Sprintf("exit=%d, expected 0: the code after the ended block (`out end`) carries on (stdout %q stderr=%q)", r.Exit, r.Stdout, vlib.Clip(r.Stderr, 300)))
	}
}

func run(c *vlib.Ctx) {
	mx.Init(c.WorkDir)
	n := 0
	enumerate(spacesFor(c.Quick()), func(p program) bool {
		if !c.Next() {
			return true
		}
		n++
		if n&0x3f == 0 && c.Expired() {
			return false
		}
		check(c, p, n%1201 == 17)
		return true
	})
}

func replay(c *vlib.Ctx, w string) {
	mx.Init(c.WorkDir)
	found := false
	enumerate(spacesFor(false), func(p program) bool {
		if p.text() == w {
			found = true
			check(c, program{p.inFunc, append([]stmt{}, p.body...)}, false)
			return false
		}
		return true
	})
	if !found {
		enumerate(spacesFor(true), func(p program) bool {
			if p.text() == w {
				found = true
				check(c, program{p.inFunc, append([]stmt{}, p.body...)}, false)
				return false
			}
			return true
		})
	}
	if !found {
		fmt.Println("witness not in the enumeration space")
	}
}

// Count is used by the tuning test.
func Count(quick bool) int {
	n := 0
	enumerate(spacesFor(quick), func(program) bool { n++; return true })
	return n
}

func init() {
	vlib.Register(&vlib.Check{
		ID: "C39", Engine: "E2",
		Rule:   "every program `%[1,2,3] -> foreach i { BODY }; out end` (and the same wrapped in `function f { ...; out fend }; f; exitnum; out end`) where BODY is a sequence of 1..L statements from: a uniquely tagged `out` of the loop variables; a bare jump; `if { $var == K } then { out T+; JUMP; out T- }`; at most one inner loop (`%[a,b] -> foreach j { BODY' }` or a two-pass counter `while`) whose BODY' has 1..L' such statements (and may itself hold one loop with a body of 1..L'' statements when depth 2 is allowed). JUMP ranges over `break`/`continue` of every loop name in scope, `break if`, and inside the function `return N` and `break f`. quick: L=2 L'=2 depth 1, K in the first two values of the innermost variable (28 362 programs); thorough: the union, without repeats, of (L=3,L'=1), (L=2,L'=2) at depth 1 and (L=1,L'=2,L''=1), (L=2,L'=1,L''=1) at depth 2, every K and every variable in scope (295 816 programs). stdout lines and exit number are compared with a reference interpreter written from the statement (break ends the nearest enclosing block of that name, continue goes to its next iteration, return ends the function with exit N, everything outside carries on). non-trivial = programs in which the model takes at least one jump that cuts off at least one statement",
		Run:    run,
		Replay: replay,
		Assumptions: []string{
			"jumps only name blocks that exist inside the current function (naming an absent block is an error the statement does not describe)",
			"the exit number of a function ended by `break <function>` is not asserted (the statement defines it only for return)",
			"stderr is not compared",
		},
	})
}
