// Package extexit: C21 — the exit number of an external command is its exit status; a command that
// dies from a signal counts as failed. The space is finite and is enumerated completely: all exit
// codes 0–255 and all terminating signals, each used alone, before `exitnum`, with `&&`, with `||`,
// inside `try` and inside `trypipe`; in-process (mx.Run executing the external command) and, for a
// subset (quick) or all of it (thorough), through a murex binary built from the working tree (process seam).
package extexit

import (
	"bytes"
	"fmt"
	"os"
	"os/exec"
	"strings"
	"syscall"
	"time"

	"verif/checks/murexbin"
	"verif/mx"
	"verif/vlib"
)

// terminating signals on Linux: 1..31 without CHLD(17) CONT(18) STOP(19) TSTP(20) TTIN(21) TTOU(22) URG(23) WINCH(28)
var signals = func() []int {
	skip := map[int]bool{17: true, 18: true, 19: true, 20: true, 21: true, 22: true, 23: true, 28: true}
	var s []int
	for i := 1; i <= 31; i++ {
		if !skip[i] {
			s = append(s, i)
		}
	}
	return s
}()

// helper: what the external command does
type helper struct {
	code   int  // exit code, or
	signal int  // signal it kills itself with (0 = none)
	linger bool // exits 0 at once but leaves a background child holding its stdout/stderr for 3 s
}

func (h helper) shell() string {
	if h.linger {
		return "sleep 3 & exit 0"
	}
	if h.signal != 0 {
		return fmt.Sprintf("kill -%d $$", h.signal)
	}
	return fmt.Sprintf("exit %d", h.code)
}

// launchers: how the external command is named in murex source
var launchers = []string{"sh -c '%s'", "/bin/sh -c '%s'", "exec sh -c '%s'"}

func (h helper) src(launcher int) string { return fmt.Sprintf(launchers[launcher], h.shell()) }

func (h helper) failed() bool { return h.signal != 0 || h.code != 0 }

type form struct {
	name string
	wrap func(h string) string
}

var forms = []form{
	{"alone", func(h string) string { return h }},
	{"exitnum", func(h string) string { return h + "; exitnum" }},
	{"and", func(h string) string { return h + " && out next" }},
	{"or", func(h string) string { return h + " || out alt" }},
	{"try", func(h string) string { return "try { " + h + "; out after }" }},
	{"trypipe", func(h string) string { return "trypipe { " + h + "; out after }" }},
}

type observed struct {
	stdout string
	exit   int
	hang   bool
	err    string
}

func init() {
	vlib.Register(&vlib.Check{
		ID: "C21", Engine: "E2",
		Rule: "finite space, enumerated completely: helper = /bin/sh that exits with every code 0..255 or kills itself with every terminating signal (1..31 except CHLD CONT STOP TSTP TTIN TTOU URG WINCH; each helper is first run directly by the harness to confirm it really ends that way) x form {alone, `h; exitnum`, `h && out next`, `h || out alt`, `try { h; out after }`, `trypipe { h; out after }`} x launcher {sh; thorough, in-process seam only, also /bin/sh and exec sh} x seam {in-process fork, `murex -c` with a binary built from the working tree by the check: `alone` one murex process per case (its exit status is the observation), the other forms of a worker batched into one murex process and judged on stdout (quick: codes 0 1 2 127 128 255 and signals 1 2 3 6 9 11 13 15; thorough: everything)}; oracle from the statement: normal exit => exit number == code; signal death => exit number != 0; `&&` continues / `||` alternative / rest of try block run exactly according to failed = (code != 0 or signal); non-trivial = helper does not exit 0 (a status has to be propagated)",
		Run:    run,
		Replay: replay,
		Assumptions: []string{
			"Linux signal numbering; /bin/sh (dash) available; core dumps disabled or harmless (worker cwd is a scratch directory)",
			"the exit number of a try/trypipe block that was aborted is only required to be non-zero (the statement does not say which number)",
			"the process seam runs a murex executable that worker 0 builds from /repo's working tree (with the mutant overlay, if one is active) at the start of the run",
		},
	})
}

func runInproc(block string) observed {
	r := mx.Run(block, &mx.Opt{Ceiling: 20 * time.Second})
	return observed{stdout: r.Stdout, exit: r.Exit, hang: r.Hang, err: r.Err}
}

func runBinary(c *vlib.Ctx, block string, ceiling time.Duration) observed {
	murexBin := murexbin.Path(c)
	cmd := exec.Command(murexBin, "-c", block)
	cmd.Dir = c.WorkDir
	cmd.Env = append(os.Environ(), "HOME="+c.WorkDir, "TMPDIR="+c.WorkDir, "MUREX_CONFIG_DIR="+c.WorkDir)
	var out, errb bytes.Buffer
	cmd.Stdout, cmd.Stderr = &out, &errb
	if err := cmd.Start(); err != nil {
		c.HarnessError("cannot start %s: %v", murexBin, err)
	}
	done := make(chan error, 1)
	go func() { done <- cmd.Wait() }()
	select {
	case <-done:
	case <-time.After(ceiling):
		cmd.Process.Kill()
		<-done
		return observed{hang: true}
	}
	o := observed{stdout: out.String(), exit: cmd.ProcessState.ExitCode()}
	if ws, ok := cmd.ProcessState.Sys().(syscall.WaitStatus); ok && ws.Signaled() {
		o.err = "murex itself died from signal " + ws.Signal().String()
	}
	return o
}

// selfCheck runs the helper directly and confirms it ends the way the case assumes.
var selfChecked = map[helper]bool{}

func selfCheck(c *vlib.Ctx, h helper) bool {
	if ok, done := selfChecked[h]; done {
		return ok
	}
	ok := selfCheck1(c, h)
	selfChecked[h] = ok
	return ok
}

func selfCheck1(c *vlib.Ctx, h helper) bool {
	cmd := exec.Command("/bin/sh", "-c", h.shell())
	cmd.Dir = c.WorkDir
	cmd.Run()
	if cmd.ProcessState == nil {
		c.HarnessError("cannot run /bin/sh")
	}
	ws := cmd.ProcessState.Sys().(syscall.WaitStatus)
	if h.signal != 0 {
		return ws.Signaled() && int(ws.Signal()) == h.signal
	}
	return ws.Exited() && ws.ExitStatus() == h.code
}

// judge applies the statement to one observation. Returns clause and detail of the first failure.
func judge(h helper, f string, o observed) (clause, detail string) {
	if o.hang {
		return "terminates", "caller still blocked after the ceiling"
	}
	if o.err != "" && strings.HasPrefix(o.err, "murex itself") {
		return "shell-survives", o.err
	}
	sig := h.signal != 0
	failed := h.failed()
	bad := func(base, d string) (string, string) {
		if sig {
			// one clause for every form: it is one mechanism (the wait status of a signalled child is dropped)
			return "signal-is-failure", "[" + base + "] " + d
		}
		return "exit-" + base, d
	}
	switch f {
	case "alone":
		if sig && o.exit == 0 {
			return bad("number", fmt.Sprintf("command killed by signal %d but exit number is 0", h.signal))
		}
		if !sig && o.exit != h.code {
			return bad("number", fmt.Sprintf("exit number %d, expected %d", o.exit, h.code))
		}
	case "exitnum":
		got := strings.TrimSpace(o.stdout)
		if sig && got == "0" {
			return bad("number", fmt.Sprintf("command killed by signal %d but `exitnum` prints 0", h.signal))
		}
		if !sig && got != fmt.Sprint(h.code) {
			return bad("number", fmt.Sprintf("`exitnum` prints %q, expected %d", got, h.code))
		}
	case "and":
		ran := o.stdout == "next\n"
		if ran == failed {
			return bad("and", fmt.Sprintf("command failed=%v but the `&&` successor ran=%v (stdout %q, exit %d)", failed, ran, o.stdout, o.exit))
		}
		if failed && o.exit == 0 {
			return bad("and", "failed command skipped its `&&` successor but the chain's exit number is 0")
		}
	case "or":
		ran := o.stdout == "alt\n"
		if ran != failed {
			return bad("or", fmt.Sprintf("command failed=%v but the `||` alternative ran=%v (stdout %q, exit %d)", failed, ran, o.stdout, o.exit))
		}
	case "try", "trypipe":
		ran := o.stdout == "after\n"
		if ran == failed {
			return bad("try", fmt.Sprintf("command failed=%v but the rest of the %s block ran=%v (stdout %q, exit %d)", failed, f, ran, o.stdout, o.exit))
		}
		if failed && o.exit == 0 {
			return bad("try", f+" block aborted but its exit number is 0")
		}
	}
	return "", ""
}

var binarySubset = map[int]bool{0: true, 1: true, 2: true, 127: true, 128: true, 255: true}
var binarySignals = map[int]bool{1: true, 2: true, 3: true, 6: true, 9: true, 11: true, 13: true, 15: true}

func helpers() []helper {
	var hs []helper
	for code := 0; code <= 255; code++ {
		hs = append(hs, helper{code: code})
	}
	for _, s := range signals {
		hs = append(hs, helper{signal: s})
	}
	// a command that exits 0 while a child it started keeps the output pipes open for a while
	hs = append(hs, helper{linger: true})
	return hs
}

type pending struct {
	h helper
	l int
	f form
	n int
}

func run(c *vlib.Ctx) {
	murexbin.Path(c) // before mx.Init: the build needs the original HOME
	defer murexbin.Done(c)
	mx.Init(c.WorkDir)
	nl := 1
	if !c.Quick() {
		nl = len(launchers)
	}
	n := 0
	var batch []pending
	for _, h := range helpers() {
		for l := 0; l < nl; l++ {
			for _, seam := range []string{"inproc", "binary"} {
				if seam == "binary" && l > 0 {
					continue // the launcher only changes how murex finds the program: in-process seam only
				}
				if seam == "binary" && c.Quick() && (h.signal == 0 && !binarySubset[h.code] || h.signal != 0 && !binarySignals[h.signal]) {
					continue
				}
				for _, f := range forms {
					if !c.Next() {
						continue
					}
					n++
					if n&0xf == 0 && c.Expired() {
						return
					}
					if !selfCheck(c, h) {
						c.Extra("helper did not end as intended (case dropped)", 1)
						c.Note("helper `%s` did not end as intended when run directly", h.shell())
						continue
					}
					if seam == "binary" && f.name != "alone" {
						// only `alone` needs the exit status of the murex process itself; the other forms of this
						// worker share one murex process (start-up costs more than a second)
						batch = append(batch, pending{h, l, f, n})
						continue
					}
					var o observed
					if seam == "inproc" {
						o = runInproc(f.wrap(h.src(l)))
					} else {
						o = runBinary(c, f.wrap(h.src(l)), 3*time.Minute)
					}
					record(c, h, l, seam, f, n, o)
				}
			}
		}
	}
	runBatch(c, batch)
}

// runBatch runs the blocks of all pending cases in one murex process, separated by marker lines.
func runBatch(c *vlib.Ctx, batch []pending) {
	if len(batch) == 0 {
		return
	}
	var b strings.Builder
	for i, p := range batch {
		fmt.Fprintf(&b, "out \"@@%d@@\"\n%s\n", i, p.f.wrap(p.h.src(p.l)))
	}
	o := runBinary(c, b.String(), 20*time.Minute)
	if o.hang || o.err != "" {
		c.Note("process seam: the batched murex process did not finish normally (%s hang=%v): %d cases inconclusive", o.err, o.hang, len(batch))
		c.Extra("process-seam cases inconclusive", int64(len(batch)))
		c.P.Exhaustive = false
		return
	}
	// split stdout at the markers
	segs := map[int]string{}
	rest := o.stdout
	for i := range batch {
		mark := fmt.Sprintf("@@%d@@\n", i)
		k := strings.Index(rest, mark)
		if k < 0 {
			c.HarnessError("batched murex output lost marker %d: %q", i, vlib.Clip(o.stdout, 400))
		}
		rest = rest[k+len(mark):]
		end := len(rest)
		if i+1 < len(batch) {
			if e := strings.Index(rest, fmt.Sprintf("@@%d@@\n", i+1)); e >= 0 {
				end = e
			}
		}
		segs[i] = rest[:end]
	}
	for i, p := range batch {
		record(c, p.h, p.l, "binary", p.f, p.n, observed{stdout: segs[i], exit: -1})
	}
}

func witness(seam string, f form, h helper, l int) string {
	return seam + ": " + f.wrap(h.src(l))
}

func record(c *vlib.Ctx, h helper, l int, seam string, f form, n int, o observed) {
	block := f.wrap(h.src(l))
	kind := "exit0"
	switch {
	case h.signal != 0:
		kind = "signal"
	case h.code != 0:
		kind = "exit-nonzero"
	}
	if seam == "binary" && o.hang {
		// a real hang would show in the in-process seam as well; on a loaded machine this is a time-out
		c.Note("process seam: `murex -c` did not finish within its ceiling for %q (inconclusive)", block)
		c.Extra("process-seam cases inconclusive", 1)
		c.P.Exhaustive = false
		return
	}
	clause, detail := judge(h, f.name, o)
	res := "as-stated"
	if clause != "" {
		res = "VIOLATION:" + clause
		c.Violation(clause, witness(seam, f, h, l), detail)
	}
	c.Eval(h.failed(), fmt.Sprintf("%s/%s/%s/%s", seam, f.name, kind, res))
	if n%97 == 1 {
		c.Sample(map[string]any{"seam": seam, "block": block, "stdout": o.stdout, "exit": o.exit})
	}
}

func replay(c *vlib.Ctx, w string) {
	murexbin.Path(c)
	defer murexbin.Done(c)
	mx.Init(c.WorkDir)
	for _, h := range helpers() {
		for l := range launchers {
			for _, seam := range []string{"inproc", "binary"} {
				for _, f := range forms {
					if witness(seam, f, h, l) == w {
						var o observed
						if seam == "inproc" {
							o = runInproc(f.wrap(h.src(l)))
						} else {
							o = runBinary(c, f.wrap(h.src(l)), 3*time.Minute)
						}
						fmt.Printf("stdout=%q exit=%d\n", o.stdout, o.exit)
						record(c, h, l, seam, f, 0, o)
						return
					}
				}
			}
		}
	}
	fmt.Println("witness not in the enumeration space")
}
