// Package g2rec: recorder builtins shared by the g2 checks (C08, C09, C10). `vargsrec` records the
// argument vector it receives byte-for-byte; a sentinel command counts how often it was started.
package g2rec

import (
	"sync"

	"github.com/lmorg/murex/lang"
	"github.com/lmorg/murex/lang/types"
)

// Recorder is the name of the recording builtin.
const Recorder = "vargsrec"

var (
	mu       sync.Mutex
	calls    [][]string
	sentinel int
	once     sync.Once
)

// Install registers the builtins once per worker process. sentinelNames are command names that
// only count their invocations (hostile values try to start them).
func Install(sentinelNames ...string) {
	once.Do(func() {
		lang.DefineFunction(Recorder, func(p *lang.Process) error {
			a := p.Parameters.StringArray()
			cp := make([]string, len(a))
			copy(cp, a)
			mu.Lock()
			calls = append(calls, cp)
			mu.Unlock()
			return nil
		}, types.Null)
	})
	for _, n := range sentinelNames {
		// deliberately replaces an existing builtin of that name (`a` is mkarray) in this worker
		lang.DefineFunction(n, func(p *lang.Process) error {
			mu.Lock()
			sentinel++
			mu.Unlock()
			return nil
		}, types.Null)
	}
}

// Reset forgets everything recorded so far.
func Reset() {
	mu.Lock()
	calls = nil
	sentinel = 0
	mu.Unlock()
}

// Calls returns the argument vectors recorded since the last Reset (one per invocation).
func Calls() [][]string {
	mu.Lock()
	defer mu.Unlock()
	return calls
}

// Sentinel returns how many times a sentinel command ran since the last Reset.
func Sentinel() int {
	mu.Lock()
	defer mu.Unlock()
	return sentinel
}
