package escinv
