// Package escinv: C35 — `!escape` undoes `escape`, `!eschtml` undoes `eschtml`, `!escurl` undoes `escurl`,
// byte for byte, for any text (valid and invalid UTF-8). The bytes are written to the stdin of the fork
// and travel through the real builtins as methods: `<stdin> -> escape -> !escape`.
package escinv

import (
	"fmt"
	"strings"

	"verif/mx"
	"verif/vlib"
)

var pairs = []string{"escape", "eschtml", "escurl"}

// the reduced byte alphabet of the design
var reduced = []byte{'&', '<', '>', '"', '\'', '%', '+', '/', '\\', ';', '#', ' ', '\n', 0x00, 0xc3, 0xa9}

func init() {
	vlib.Register(&vlib.Check{
		ID: "C35", Engine: "E2",
		Rule: "(also: every sequence of <= 3 (thorough 4) tokens over {&amp; &lt; &quot; &#92; &#34; %20 %2B + \\n \\\" \" a space \"a\" & %}, i.e. text that already contains the encoders own escape sequences) every byte string of length <= 1 (quick) / <= 2 (thorough) over all 256 byte values plus every string of length 2..3 (quick) / 3..5 (thorough) over the 16 bytes {& < > \" ' % + / \\ ; # space LF NUL 0xC3 0xA9} is written to the stdin of a fork and piped through `<stdin> -> X -> !X` for X in {escape, eschtml, escurl}; stdout must equal the input bytes. The encoder is also run alone (`<stdin> -> X`) to classify the case; non-trivial = the encoder changed the text (for escape: changed more than adding the surrounding quotes)",
		Run:    run,
		Replay: replay,
		Assumptions: []string{
			"byte alphabets and length bounds as stated in the rule",
			"the stdin of the fork is typed `generic`; the builtins read it with ReadAll, so the data type does not take part",
		},
	})
}

func run(c *vlib.Ctx) {
	mx.Init(c.WorkDir)
	// calibration
	if r := mx.Run("<stdin> -> eschtml -> !eschtml", &mx.Opt{Stdin: []byte("a<b")}); r.Stdout != "a<b" || r.Exit != 0 {
		c.HarnessError("calibration failed: %v", r)
	}
	fullMax, redMin, redMax := 1, 2, 3
	if !c.Quick() {
		fullMax, redMin, redMax = 2, 3, 5
	}
	n := 0
	buf := make([]byte, 0, 8)
	each := func(alpha []byte, lo, hi int) bool {
		ok := true
		vlib.Seqs(len(alpha), lo, hi, func(idx []int) bool {
			if !c.Next() {
				return true
			}
			n++
			if n&0xff == 0 && c.Expired() {
				ok = false
				return false
			}
			buf = buf[:0]
			for _, i := range idx {
				buf = append(buf, alpha[i])
			}
			one(c, buf, n%3001 == 1)
			return true
		})
		return ok
	}
	full := make([]byte, 256)
	for i := range full {
		full[i] = byte(i)
	}
	if !each(full, 0, fullMax) {
		return
	}
	// length <= 1 (2) over the reduced alphabet is part of the full range above
	if !each(reduced, redMin, redMax) {
		return
	}
	// texts that already contain the encoders' own escape sequences (an entity, a percent escape, a
	// backslash escape, a quoted string): sequences of up to 3 (thorough 4) such tokens
	tokMax := 3
	if !c.Quick() {
		tokMax = 4
	}
	vlib.Strings(escTokens, 1, tokMax, func(s string, _ []int) bool {
		if !c.Next() {
			return true
		}
		n++
		if n&0xff == 0 && c.Expired() {
			return false
		}
		one(c, []byte(s), n%3001 == 1)
		return true
	})
}

// escTokens: what the three encoders themselves produce, as *input* text
var escTokens = []string{"&amp;", "&lt;", "&quot;", "&#92;", "&#34;", "%20", "%2B", "+", `\n`, `\"`, `"`, "a", " ", `"a"`, "&", "%"}

func witness(x string, in []byte) string { return fmt.Sprintf("%s %q", x, string(in)) }

func one(c *vlib.Ctx, in []byte, sample bool) {
	for _, x := range pairs {
		outcome := check(c, x, in)
		if sample {
			c.Sample(map[string]any{"pair": x, "input": fmt.Sprintf("%q", string(in)), "outcome": outcome})
		}
	}
}

func check(c *vlib.Ctx, x string, in []byte) string {
	w := witness(x, in)
	stdin := append([]byte{}, in...)
	enc := mx.Run("<stdin> -> "+x, &mx.Opt{Stdin: stdin})
	r := mx.Run("<stdin> -> "+x+" -> !"+x, &mx.Opt{Stdin: stdin})
	if r.Hang || enc.Hang {
		c.Violation("terminates", w, "caller still blocked after ceiling\n"+r.HangStack+enc.HangStack)
		c.Eval(true, x+" hang")
		return "hang"
	}
	if mx.HasPanicText(r.Stderr) || mx.HasPanicText(enc.Stderr) {
		c.Violation("no-panic", w, r.String())
		c.Eval(true, x+" panic")
		return "panic"
	}
	changed := enc.Stdout != string(in)
	if x == "escape" {
		changed = enc.Stdout != "\""+string(in)+"\""
	}
	outcome := x
	if changed {
		outcome += " encoder-changed-text"
	} else {
		outcome += " encoder-left-text-alone"
	}
	switch {
	case r.Stdout == string(in) && r.Exit == 0:
		outcome += " round-trip-ok"
	case r.Exit != 0:
		outcome += " error"
		c.Violation("inverse-gives-back-original", w, fmt.Sprintf("`<stdin> -> %s -> !%s` failed (exit %d, stderr %q); the encoder printed %q", x, x, r.Exit, vlib.Clip(r.Stderr, 300), enc.Stdout))
	default:
		outcome += " differs"
		c.Violation("inverse-gives-back-original", w, fmt.Sprintf("`<stdin> -> %s -> !%s` printed %q, expected the input %q; the encoder printed %q", x, x, r.Stdout, string(in), enc.Stdout))
	}
	c.Eval(changed, outcome)
	return outcome
}

// replay: witness is `<pair> <go-quoted input>`.
func replay(c *vlib.Ctx, w string) {
	mx.Init(c.WorkDir)
	i := strings.Index(w, " ")
	if i < 0 {
		fmt.Println("unrecognised witness")
		return
	}
	var in string
	if _, err := fmt.Sscanf(w[i+1:], "%q", &in); err != nil {
		fmt.Println("unrecognised witness:", err)
		return
	}
	check(c, w[:i], []byte(in))
}
