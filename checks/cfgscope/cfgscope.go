// Package cfgscope: C25 (config values are scoped like variables). Breadth-first search over
// histories of `config set/get/default` statements at session level and inside nested function
// calls; every history is rendered as a murex program and run on the real interpreter at session
// level (the fork the interactive shell uses), compared with a frame model of the statement.
package cfgscope

import (
	"fmt"
	"strconv"
	"strings"
	"time"

	"verif/mx"
	"verif/vlib"

	"github.com/lmorg/murex/config"
	"github.com/lmorg/murex/lang"
	"github.com/lmorg/murex/lang/ref"
	"github.com/lmorg/murex/lang/types"
)

const (
	app     = "verif"
	optLoc  = "loc" // Global: false
	optGlo  = "glo" // Global: true
	defVal  = "d"
	marker  = "#"
	fnStem  = "vcfg_f"
	ceiling = 20 * time.Second
)

var opts = []string{optLoc, optGlo}

type bnd struct {
	depth  int
	values []string
}

func bounds(quick bool) bnd {
	if quick {
		return bnd{3, []string{"a", "b"}}
	}
	return bnd{3, []string{"a", "b", "c"}}
}

// ops enabled at a given call depth
func enabled(b bnd, depth int) []string {
	var ops []string
	for _, o := range opts {
		ops = append(ops, "get:"+o)
	}
	for _, o := range opts {
		for _, v := range b.values {
			ops = append(ops, "set:"+o+":"+v)
		}
		ops = append(ops, "def:"+o)
	}
	// the same statements inside a block of the current scope
	for _, o := range opts {
		ops = append(ops, "bget:"+o, "bset:"+o+":"+b.values[0], "bdef:"+o)
	}
	if depth < b.depth {
		ops = append(ops, "call")
	}
	if depth > 0 {
		ops = append(ops, "ret")
	}
	return ops
}

// ---- rendering -----------------------------------------------------------------------------------

func stmt(op string) (string, bool) {
	f := strings.Split(op, ":")
	inBlock := strings.HasPrefix(f[0], "b")
	kind := strings.TrimPrefix(f[0], "b")
	var s string
	switch {
	case kind == "get" && len(f) == 2:
		s = fmt.Sprintf("config get %s %s", app, f[1])
		if inBlock {
			return "%[1] -> foreach vcfg_i {\n    " + s + "\n}\n", true
		}
	case kind == "set" && len(f) == 3:
		s = fmt.Sprintf("config set %s %s %s", app, f[1], f[2])
	case kind == "def" && len(f) == 2:
		s = fmt.Sprintf("config default %s %s", app, f[1])
	default:
		return "", false
	}
	if inBlock {
		return "if { true } then {\n    " + s + "\n}\n", true
	}
	return s + "\n", true
}

const epilogue = "out '" + marker + "'\nconfig get " + app + " " + optLoc + "\nconfig get " + app + " " + optGlo + "\n"

// program renders a history; open calls are closed at the end, each scope reading both options
// while unwinding (that is the canonical state).
func program(hist []string) (string, bool) {
	var funcs []string
	stack := []*strings.Builder{{}}
	names := []string{""}
	nf := 0
	closeTop := func() {
		body := stack[len(stack)-1].String()
		funcs = append(funcs, "function "+names[len(names)-1]+" {\n"+body+"}\n")
		stack = stack[:len(stack)-1]
		names = names[:len(names)-1]
	}
	for _, op := range hist {
		switch op {
		case "call":
			nf++
			name := fnStem + strconv.Itoa(nf)
			stack[len(stack)-1].WriteString(name + "\n")
			stack = append(stack, &strings.Builder{})
			names = append(names, name)
		case "ret":
			if len(stack) == 1 {
				return "", false
			}
			closeTop()
		default:
			s, ok := stmt(op)
			if !ok {
				return "", false
			}
			stack[len(stack)-1].WriteString(s)
		}
	}
	// unwinding: the epilogue must run inside each open call after the inner call returned
	for len(stack) > 1 {
		stack[len(stack)-1].WriteString(epilogue)
		closeTop()
	}
	return strings.Join(funcs, "") + stack[0].String() + epilogue, true
}

// ---- model ---------------------------------------------------------------------------------------

type model struct {
	sess        map[string]string   // session values (absent = declared default)
	frames      []map[string]string // per call: overrides of non-global options
	out         strings.Builder
	inCallWrite bool
}

func (m *model) get(o string) string {
	if len(m.frames) > 0 && o == optLoc {
		if v, ok := m.frames[len(m.frames)-1][o]; ok {
			return v
		}
	}
	if v, ok := m.sess[o]; ok {
		return v
	}
	return defVal
}

func (m *model) set(o, v string) {
	if len(m.frames) > 0 {
		m.inCallWrite = true
	}
	if len(m.frames) > 0 && o == optLoc {
		m.frames[len(m.frames)-1][o] = v
		return
	}
	m.sess[o] = v
}

func (m *model) epilogue() {
	m.out.WriteString(marker + "\n" + m.get(optLoc) + "\n" + m.get(optGlo) + "\n")
}

func expected(hist []string) (string, *model) {
	m := &model{sess: map[string]string{}}
	for _, op := range hist {
		f := strings.Split(op, ":")
		switch strings.TrimPrefix(f[0], "b") {
		case "call":
			m.frames = append(m.frames, map[string]string{})
		case "ret":
			m.frames = m.frames[:len(m.frames)-1]
		case "get":
			m.out.WriteString(m.get(f[1]) + "\n")
		case "set":
			m.set(f[1], f[2])
		case "def":
			m.set(f[1], defVal)
		}
	}
	for len(m.frames) > 0 {
		m.epilogue()
		m.frames = m.frames[:len(m.frames)-1]
	}
	m.epilogue()
	return m.out.String(), m
}

// ---- real execution at session level -------------------------------------------------------------

type result struct {
	stdout, stderr string
	exit           int
	err            string
	hang           bool
}

var seq int

func runSession(block string) result {
	lang.ShellProcess.Config.Default(app, optLoc, nil)
	lang.ShellProcess.Config.Default(app, optGlo, nil)
	fork := lang.ShellProcess.Fork(lang.F_PARENT_VARTABLE | lang.F_NEW_MODULE | lang.F_NO_STDIN | lang.F_CREATE_STDOUT | lang.F_CREATE_STDERR)
	seq++
	fork.FileRef = &ref.File{Source: &ref.Source{Module: "verif/cfg" + strconv.Itoa(seq)}}
	var res result
	done := make(chan struct{})
	go func() {
		defer close(done)
		exit, err := fork.Execute([]rune(block))
		res.exit = exit
		if err != nil {
			res.err = err.Error()
		}
		e, _ := fork.Stderr.ReadAll()
		o, _ := fork.Stdout.ReadAll()
		res.stdout, res.stderr = string(o), string(e)
	}()
	select {
	case <-done:
		return res
	case <-time.After(ceiling):
		return result{hang: true}
	}
}

func setup(c *vlib.Ctx) {
	mx.Init(c.WorkDir)
	lang.ShellProcess.Config.Define(app, optLoc, config.Properties{Description: "verif: non-global option", Default: defVal, DataType: types.String, Global: false})
	lang.ShellProcess.Config.Define(app, optGlo, config.Properties{Description: "verif: global option", Default: defVal, DataType: types.String, Global: true})
	r := runSession("config get " + app + " " + optLoc + "\nconfig get " + app + " " + optGlo)
	if r.stdout != defVal+"\n"+defVal+"\n" {
		c.HarnessError("options not usable: %+v", r)
	}
}

// one runs history hist on the real interpreter and checks it; returns the canonical state.
func one(c *vlib.Ctx, hist []string, sample bool) (string, bool) {
	w := strings.Join(hist, " ")
	prog, ok := program(hist)
	if !ok {
		return "", false
	}
	want, m := expected(hist)
	r := runSession(prog)
	depth := 0
	for _, op := range hist {
		switch op {
		case "call":
			depth++
		case "ret":
			depth--
		}
	}
	last := hist[len(hist)-1]
	if i := strings.IndexByte(last, ':'); i > 0 {
		last = last[:i]
	}
	c.Eval(m.inCallWrite, fmt.Sprintf("%s at depth %d", last, depth))
	if sample {
		c.Sample(map[string]any{"history": w, "program": prog, "stdout": r.stdout})
	}
	switch {
	case r.hang:
		c.Violation("terminates", w, "caller still blocked after ceiling")
		return "", false
	case mx.HasPanicText(r.stderr) || mx.HasPanicText(r.stdout):
		c.Violation("no-panic", w, fmt.Sprintf("%+v", r))
	case r.stdout != want:
		c.Violation("config-get", w, fmt.Sprintf("stdout=%q expected %q (stderr=%q)\nprogram:\n%s", r.stdout, want, vlib.Clip(r.stderr, 300), prog))
	}
	// canonical state = what each open scope reads while unwinding
	i := strings.Index(r.stdout, marker+"\n")
	if i < 0 {
		return "", false
	}
	return strconv.Itoa(depth) + "|" + strings.ReplaceAll(r.stdout[i:], "\n", ","), true
}

// exhaustive: every well-formed history of at most maxLen operations over the writing alphabet (sets and
// defaults of both options, call, ret), WITHOUT merging states: the canonical state of the search above is
// what the scopes read, which determines the future only if the implementation keeps no hidden copies —
// exactly what a scoping bug adds (a private shadow that reads like the shared value until the shared
// value moves on).
func exhaustive(c *vlib.Ctx, b bnd, maxLen int) {
	var alpha []string
	for _, o := range opts {
		for _, v := range b.values[:2] {
			alpha = append(alpha, "set:"+o+":"+v)
		}
		// a set to the very value the declaration has as default must still create the override
		alpha = append(alpha, "set:"+o+":"+defVal, "def:"+o)
	}
	alpha = append(alpha, "call", "ret")
	var rec func(h []string, depth int)
	rec = func(h []string, depth int) {
		if len(h) > 0 && c.Next() {
			if c.Expired() {
				return
			}
			c.P.Transitions++
			one(c, h, false)
			c.Extra("histories run without state merging", 1)
		}
		if len(h) == maxLen {
			return
		}
		for _, op := range alpha {
			d := depth
			switch op {
			case "call":
				if depth >= b.depth {
					continue
				}
				d++
			case "ret":
				if depth == 0 {
					continue
				}
				d--
			}
			rec(append(append([]string{}, h...), op), d)
		}
	}
	rec(nil, 0)
}

func run(c *vlib.Ctx) {
	setup(c)
	b := bounds(c.Quick())
	maxLen := 5
	if !c.Quick() {
		maxLen = 6
	}
	exhaustive(c, b, maxLen)
	if c.Shard != 0 {
		return
	}
	bfs(c, b)
}

func bfs(c *vlib.Ctx, b bnd) {
	seen := map[string]bool{}
	queue := [][]string{{}}
	init0, _ := expected(nil)
	seen["0|"+strings.ReplaceAll(init0, "\n", ",")] = true
	c.P.States = 1
	maxLen := 0
	for qi := 0; qi < len(queue); qi++ {
		hist := queue[qi]
		if c.Expired() {
			return
		}
		depth := 0
		for _, op := range hist {
			if op == "call" {
				depth++
			} else if op == "ret" {
				depth--
			}
		}
		for _, op := range enabled(b, depth) {
			h := append(append([]string{}, hist...), op)
			c.P.Transitions++
			st, ok := one(c, h, c.P.Transitions%211 == 0)
			if ok && !seen[st] {
				seen[st] = true
				c.P.States++
				queue = append(queue, h)
				maxLen = max(maxLen, len(h))
			}
		}
	}
	c.Extra("bfs depth (longest shortest history)", int64(maxLen))
}

func replay(c *vlib.Ctx, w string) {
	setup(c)
	one(c, strings.Fields(w), false)
}

func init() {
	vlib.Register(&vlib.Check{
		ID: "C25", Engine: "E3",
		Rule:   "two options are defined through the Go API (verif/loc non-global, verif/glo Global, default 'd'); breadth-first search over histories of {config get, config set <value>, config default} for both options, the same statements inside an if/foreach block, `call` (enter a function defined for that site) and `ret`, call depth <= D, values V (quick D=3 V={a,b}; thorough D=3 V={a,b,c}); each history is rendered as a program (open calls are closed at the end, every open scope reads both options while unwinding = canonical state), run from a reset session through the session-level fork the interactive shell uses, and the printed values are compared with a frame model: a call starts without overrides and reads through to the session value or default, a non-global set/default in a call stays in that call (blocks share it), global options and session-level sets are seen everywhere; successors with a new canonical state are enqueued until a fixpoint; in addition EVERY well-formed history of at most L operations over {set a|b|d (d = the declared default), default} x both options + call + ret is run without any state merging (quick L=5, thorough L=6), because a hidden per-scope copy is invisible in the canonical state until the shared value moves on; non-trivial = the history contains a set or default executed inside a call",
		Run:    run,
		Replay: replay,
		Assumptions: []string{
			"string-typed options without dynamic getters/setters; sequential programs only",
			"exit numbers and stderr are not asserted (only absence of panic text)",
		},
	})
}
