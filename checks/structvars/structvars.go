// Package structvars: C12 (structured variables are values, nested assignment is precise).
// Breadth-first search over histories of copy / nested-assignment / pass-to-function statements on
// two json-typed variables; every history is replayed as one murex program on freshly injected
// documents and the last step is judged against a deep-copy tree model of the statement.
package structvars

import (
	"encoding/json"
	"fmt"
	"reflect"
	"strconv"
	"strings"

	"verif/mx"
	"verif/vlib"

	"github.com/lmorg/murex/lang"
	"github.com/lmorg/murex/lang/types"
)

var docs = []string{
	`{"a":1,"b":{"c":"x"}}`,
	`[1,{"k":true}]`,
	`{"a":[1,2]}`,
}

// paths: the existing leaves of the three documents, a new top-level key, a new nested key, an
// array index beyond the end, and a path with three missing levels
var paths = []string{"a", "b.c", "0", "1.k", "a.1", "n", "b.n", "a.5", "p.q.r"}

type value struct {
	tok string // witness token
	src string // murex source
	v   any    // JSON value
	str string // its string form
}

var values = []value{
	{"2", "2", float64(2), "2"},
	{"y", `"y"`, "y", "y"},
	{"true", "true", true, "true"},
}

const sep = "#"

// ---- ops -----------------------------------------------------------------------------------------

// op tokens: "b=a", "a=b", "set:<var>:<path>:<value>", "call:<var>:<path>" (function assigns 2)
func allOps() []string {
	ops := []string{"b=a", "a=b"}
	for _, v := range []string{"a", "b"} {
		for _, p := range paths {
			for _, val := range values {
				ops = append(ops, "set:"+v+":"+p+":"+val.tok)
			}
		}
	}
	for _, p := range paths {
		ops = append(ops, "call:a:"+p)
	}
	return ops
}

func fnName(path string) string {
	for i, p := range paths {
		if p == path {
			return "vstruct_g" + strconv.Itoa(i)
		}
	}
	return ""
}

func valueOf(tok string) (value, bool) {
	for _, v := range values {
		if v.tok == tok {
			return v, true
		}
	}
	return value{}, false
}

// src renders an op; when last is true the statement also reports its exit number.
func src(op string, last bool) (string, bool) {
	f := strings.Split(op, ":")
	switch {
	case op == "b=a":
		return "b = $a\n", true
	case op == "a=b":
		return "a = $b\n", true
	case f[0] == "set" && len(f) == 4:
		v, ok := valueOf(f[3])
		if !ok || (f[1] != "a" && f[1] != "b") {
			return "", false
		}
		s := fmt.Sprintf("$%s.%s = %s\n", f[1], f[2], v.src)
		if last {
			s += "exitnum\n"
		}
		return s, true
	case f[0] == "call" && len(f) == 3 && fnName(f[2]) != "":
		return fmt.Sprintf("%s $%s\n", fnName(f[2]), f[1]), true
	}
	return "", false
}

func setupBlock() string {
	var b strings.Builder
	for _, p := range paths {
		fmt.Fprintf(&b, "function %s (v: json) {\n    $v.%s = 2\n    exitnum\n    out $v\n}\n", fnName(p), p)
	}
	return b.String()
}

func program(hist []string) (string, bool) {
	var b strings.Builder
	state := "out '" + sep + "'\nout $a\nout '" + sep + "'\nout $b\nout '" + sep + "'\n"
	for i, op := range hist {
		last := i == len(hist)-1
		if last {
			b.WriteString(state)
		}
		s, ok := src(op, last)
		if !ok {
			return "", false
		}
		b.WriteString(s)
	}
	b.WriteString(state)
	// `$v.path` reads of the assigned path in both variables (the whole-variable output above is the
	// stored string form; this goes through the stored value)
	p := lastPath(hist)
	if p == "" {
		p = "a"
	}
	fmt.Fprintf(&b, "out $a.%s\nout '%s'\nout $b.%s\nout '%s'\n", p, sep, p, sep)
	return b.String(), true
}

func lastPath(hist []string) string {
	if len(hist) == 0 {
		return ""
	}
	if f := strings.Split(hist[len(hist)-1], ":"); len(f) >= 3 {
		return f[2]
	}
	return ""
}

// elementText: what `out $v.path` prints for the value at path (ok=false: the read must fail).
func elementMatches(doc any, path []string, printed string) bool {
	v, ok := lookup(doc, path)
	printed = strings.TrimSuffix(printed, "\n")
	if !ok {
		return printed == ""
	}
	switch t := v.(type) {
	case string:
		return printed == t
	case map[string]any, []any:
		got, ok := parseDoc(printed)
		return ok && reflect.DeepEqual(got, v)
	default:
		return printed == canon(t)
	}
}

// ---- JSON tree helpers ---------------------------------------------------------------------------

func parseDoc(s string) (any, bool) {
	s = strings.TrimSpace(s)
	if s == "" {
		return nil, false
	}
	var v any
	if err := json.Unmarshal([]byte(s), &v); err != nil {
		return nil, false
	}
	switch v.(type) {
	case map[string]any, []any:
		return v, true
	}
	return nil, false
}

func canon(v any) string {
	b, _ := json.Marshal(v)
	return string(b)
}

func clone(v any) any {
	var out any
	json.Unmarshal([]byte(canon(v)), &out)
	return out
}

func child(v any, key string) (any, bool) {
	switch t := v.(type) {
	case map[string]any:
		c, ok := t[key]
		return c, ok
	case []any:
		i, err := strconv.Atoi(key)
		if err != nil || i < 0 || i >= len(t) {
			return nil, false
		}
		return t[i], true
	}
	return nil, false
}

func lookup(v any, path []string) (any, bool) {
	for _, k := range path {
		var ok bool
		if v, ok = child(v, k); !ok {
			return nil, false
		}
	}
	return v, true
}

const hole = "⊥"

// mask returns a copy of doc in which the subtree at path — or, when part of the path does not
// exist, the first missing element — is replaced by a marker. cut tells how many path elements to
// follow (computed on the document before the assignment, applied to both).
func maskDepth(doc any, path []string) int {
	v := doc
	for i, k := range path {
		c, ok := child(v, k)
		if !ok {
			return i + 1
		}
		v = c
	}
	return len(path)
}

func mask(doc any, path []string, depth int) any {
	d := clone(doc)
	v := d
	for i := 0; i < depth; i++ {
		k := path[i]
		lastStep := i == depth-1
		switch t := v.(type) {
		case map[string]any:
			if lastStep {
				t[k] = hole
				return d
			}
			c, ok := t[k]
			if !ok {
				return d
			}
			v = c
		case []any:
			idx, err := strconv.Atoi(k)
			if err != nil || idx < 0 || idx >= len(t) {
				return d
			}
			if lastStep {
				t[idx] = hole
				return d
			}
			v = t[idx]
		default:
			return d
		}
	}
	return d
}

func kind(v any) string {
	switch v.(type) {
	case float64:
		return "number"
	case string:
		return "string"
	case bool:
		return "bool"
	case nil:
		return "null"
	case map[string]any:
		return "object"
	case []any:
		return "array"
	}
	return "?"
}

// situation describes where the path leads in the document before the assignment: through an
// element of an existing array, or through a missing intermediate element. It is appended to the
// clause so that a finding is keyed by (symptom, situation).
func situation(pre any, path []string) string {
	v := pre
	for i, k := range path {
		if _, isArr := v.([]any); isArr {
			if _, ok := child(v, k); ok {
				return "@through-array"
			}
		}
		c, ok := child(v, k)
		if !ok {
			if i < len(path)-1 {
				return "@missing-intermediate"
			}
			return ""
		}
		v = c
	}
	return ""
}

// ---- the oracle of one nested assignment ----------------------------------------------------------

type finding struct{ clause, detail string }

// judgeSet: pre/post = the assigned variable's document before/after `$v.path = val`.
// notAsserted is set when the conversion to the existing leaf's type is not documented.
func judgeSet(pre any, post any, postOK bool, path []string, val value, success bool) (out []finding, label string, notAsserted bool) {
	if !success {
		if !postOK || !reflect.DeepEqual(pre, post) {
			out = append(out, finding{"failed-set-changes-nothing", fmt.Sprintf("the assignment failed but the variable changed from %s to %s", canon(pre), canon(post))})
		}
		return out, "set failed", false
	}
	sit := situation(pre, path)
	defer func() {
		for i := range out {
			out[i].clause += sit
		}
	}()
	if !postOK {
		return []finding{{"variable-destroyed", fmt.Sprintf("the assignment reported success but the variable no longer holds a document (was %s)", canon(pre))}}, "set ok", false
	}
	// a container on the way to the path that is null afterwards
	for i := 1; i < len(path); i++ {
		if o, ok := lookup(pre, path[:i]); ok && (kind(o) == "object" || kind(o) == "array") {
			if n, ok := lookup(post, path[:i]); ok && n == nil {
				return []finding{{"ancestor-nulled", fmt.Sprintf("the assignment reported success and replaced the %s at %s by null: %s (before: %s)", kind(o), strings.Join(path[:i], "."), canon(post), canon(pre))}}, "set ok", false
			}
		}
	}
	old, existed := lookup(pre, path)
	want := val.v
	label = "set ok new-path"
	if existed {
		switch k := kind(old); {
		case k == "object" || k == "array":
			label = "set ok replaces-" + k
		case k == kind(val.v):
			label = "set ok same-type-leaf"
		case k == "string":
			want = val.str
			label = "set ok to-string-leaf"
		default:
			notAsserted = true
			label = "set ok " + kind(val.v) + "-to-" + k + "-leaf (conversion not asserted)"
		}
	}
	got, ok := lookup(post, path)
	if !ok {
		out = append(out, finding{"reads-back", fmt.Sprintf("after the successful assignment the path does not exist: %s (before: %s)", canon(post), canon(pre))})
	} else if !notAsserted && !reflect.DeepEqual(got, want) {
		out = append(out, finding{"reads-back", fmt.Sprintf("path reads back %s, expected %s: %s (before: %s)", canon(got), canon(want), canon(post), canon(pre))})
	} else if notAsserted && kind(got) != kind(old) {
		out = append(out, finding{"leaf-type-kept", fmt.Sprintf("the %s leaf reads back %s (%s) after assigning %s: not converted to the existing leaf's type", kind(old), canon(got), kind(got), canon(val.v))})
	}
	d := maskDepth(pre, path)
	if a, b := mask(pre, path, d), mask(post, path, d); !reflect.DeepEqual(a, b) {
		out = append(out, finding{"other-paths-unchanged", fmt.Sprintf("other paths changed: before %s after %s", canon(pre), canon(post))})
	}
	return out, label, notAsserted
}

// ---- running one history --------------------------------------------------------------------------

type env struct {
	c *vlib.Ctx
}

func setup(c *vlib.Ctx) *env {
	mx.Init(c.WorkDir)
	if r := mx.Run(setupBlock(), nil); r.Exit != 0 || r.Hang {
		c.HarnessError("setup block failed: %v", r)
	}
	e := &env{c}
	r := e.exec(0, "out $a\n")
	if a, ok := parseDoc(r.Stdout); !ok || canon(a) != docs[0] {
		c.HarnessError("cannot inject json variables: %v", r)
	}
	return e
}

func (e *env) exec(init int, prog string) mx.Result {
	return mx.Run(prog, &mx.Opt{Setup: func(f *lang.Fork) {
		f.Variables.Set(f.Process, "a", docs[init], types.Json)
		f.Variables.Set(f.Process, "b", docs[(init+1)%len(docs)], types.Json)
	}})
}

type step struct {
	findings    []finding
	label       string
	state       string // canonical state after the history
	ok          bool   // state usable for further exploration
	nontrivial  bool
	notAsserted bool
	stdout      string
}

func witness(init int, hist []string) string {
	return "D" + strconv.Itoa(init+1) + " " + strings.Join(hist, " ")
}

func parseWitness(w string) (int, []string, bool) {
	f := strings.Fields(w)
	if len(f) < 2 || len(f[0]) != 2 || f[0][0] != 'D' {
		return 0, nil, false
	}
	i := int(f[0][1] - '1')
	if i < 0 || i >= len(docs) {
		return 0, nil, false
	}
	return i, f[1:], true
}

// run executes the history and judges its last op.
func (e *env) run(init int, hist []string) step {
	var st step
	prog, ok := program(hist)
	if !ok {
		st.findings = []finding{{"harness", "bad op"}}
		return st
	}
	r := e.exec(init, prog)
	st.stdout = r.Stdout
	if r.Hang {
		st.findings = []finding{{"terminates", "caller still blocked after ceiling\n" + r.HangStack}}
		return st
	}
	if mx.HasPanicText(r.Stderr) || mx.HasPanicText(r.Stdout) {
		st.findings = append(st.findings, finding{"no-panic", r.String()})
	}
	segs := []string{""}
	for _, l := range strings.SplitAfter(r.Stdout, "\n") {
		if strings.TrimSuffix(l, "\n") == sep {
			segs = append(segs, "")
		} else {
			segs[len(segs)-1] += l
		}
	}
	if len(segs) < 9 {
		st.findings = append(st.findings, finding{"observe", fmt.Sprintf("cannot split the output into states: %q", r.Stdout)})
		return st
	}
	readA, readB := segs[len(segs)-3], segs[len(segs)-2]
	segs = segs[:len(segs)-2]
	n := len(segs)
	preA, okA0 := parseDoc(segs[n-6])
	preB, okB0 := parseDoc(segs[n-5])
	opOut := segs[n-4]
	postA, okA := parseDoc(segs[n-3])
	postB, okB := parseDoc(strings.TrimSuffix(segs[n-2], "\n"))
	if !okA0 || !okB0 {
		// the state before the last op is not a pair of documents: reached through an earlier violation
		st.findings = append(st.findings, finding{"observe", "state before the last op is not two documents"})
		return st
	}
	for _, op := range hist[:len(hist)-1] {
		if op == "b=a" || op == "a=b" {
			st.nontrivial = true
		}
	}
	op := hist[len(hist)-1]
	f := strings.Split(op, ":")
	same := func(name string, pre, post any, postOK bool) {
		if !postOK || !reflect.DeepEqual(pre, post) {
			st.findings = append(st.findings, finding{"other-variable-unchanged", fmt.Sprintf("$%s changed from %s to %s by %s", name, canon(pre), canon(post), op)})
		}
	}
	switch f[0] {
	case "b=a":
		st.label = "copy"
		same("a", preA, postA, okA)
		if !okB || !reflect.DeepEqual(preA, postB) {
			st.findings = append(st.findings, finding{"copy", fmt.Sprintf("b = $a gives b=%s for a=%s", canon(postB), canon(preA))})
		}
	case "a=b":
		st.label = "copy"
		same("b", preB, postB, okB)
		if !okA || !reflect.DeepEqual(preB, postA) {
			st.findings = append(st.findings, finding{"copy", fmt.Sprintf("a = $b gives a=%s for b=%s", canon(postA), canon(preB))})
		}
	case "set":
		val, _ := valueOf(f[3])
		success := strings.TrimSpace(opOut) == "0"
		path := strings.Split(f[2], ".")
		var fs []finding
		if f[1] == "a" {
			fs, st.label, st.notAsserted = judgeSet(preA, postA, okA, path, val, success)
			same("b", preB, postB, okB)
		} else {
			fs, st.label, st.notAsserted = judgeSet(preB, postB, okB, path, val, success)
			same("a", preA, postA, okA)
		}
		st.findings = append(st.findings, fs...)
	case "call":
		// the callee assigns 2 at the path of its own copy, prints exitnum and the copy
		lines := strings.SplitN(strings.TrimLeft(opOut, "\n"), "\n", 2)
		success := strings.TrimSpace(lines[0]) == "0"
		var copyDoc any
		var okC bool
		if len(lines) == 2 {
			copyDoc, okC = parseDoc(lines[1])
		}
		fs, label, na := judgeSet(preA, copyDoc, okC, strings.Split(f[2], "."), values[0], success)
		st.label, st.notAsserted = "callee "+label, na
		st.findings = append(st.findings, fs...)
		same("a", preA, postA, okA)
		same("b", preB, postB, okB)
	}
	if p := lastPath(hist); p != "" && okA && okB {
		path := strings.Split(p, ".")
		if !elementMatches(postA, path, readA) {
			st.findings = append(st.findings, finding{"element-read-consistent", fmt.Sprintf("`out $a.%s` prints %q but $a is %s", p, readA, canon(postA))})
		}
		if !elementMatches(postB, path, readB) {
			st.findings = append(st.findings, finding{"element-read-consistent", fmt.Sprintf("`out $b.%s` prints %q but $b is %s", p, readB, canon(postB))})
		}
	}
	if okA && okB {
		st.ok = true
		st.state = canon(postA) + " " + canon(postB)
	}
	return st
}

// minimise drops ops of the prefix while the last op still fails the same clause.
func (e *env) minimise(init int, hist []string, clause string) []string {
	h := append([]string{}, hist...)
	for i := 0; i < len(h)-1; {
		try := append(append([]string{}, h[:i]...), h[i+1:]...)
		still := false
		for _, f := range e.run(init, try).findings {
			if f.clause == clause {
				still = true
			}
		}
		if still {
			h = try
		} else {
			i++
		}
	}
	return h
}

func (e *env) transition(init int, hist []string, sample bool) step {
	c := e.c
	st := e.run(init, hist)
	c.P.Transitions++
	if st.notAsserted {
		c.Extra("not-asserted: converted representation of a scalar assigned to a leaf of another type", 1)
	}
	label := st.label
	if len(st.findings) > 0 {
		label += " VIOLATES"
	}
	c.Eval(st.nontrivial, label)
	if sample {
		prog, _ := program(hist)
		c.Sample(map[string]any{"history": witness(init, hist), "program": prog, "stdout": st.stdout})
	}
	seen := map[string]bool{}
	for _, f := range st.findings {
		if seen[f.clause] {
			continue
		}
		seen[f.clause] = true
		h := hist
		if f.clause != "observe" && f.clause != "terminates" {
			h = e.minimise(init, hist, f.clause)
		}
		detail := f.detail
		if len(h) != len(hist) {
			for _, g := range e.run(init, h).findings {
				if g.clause == f.clause {
					detail = g.detail
				}
			}
		}
		c.Violation(f.clause, witness(init, h), detail)
	}
	if len(st.findings) > 0 {
		st.ok = false // do not explore beyond a violation
	}
	return st
}

func maxDepth(quick bool) int {
	if quick {
		return 3
	}
	return 4
}

// ---- a function-local nested assignment on a variable that only exists globally -------------------

const globName = "vstruct_glob"

func globalWitness(init int, path string, val value) string {
	return fmt.Sprintf("D%d global-in-function:%s:%s", init+1, path, val.tok)
}

// globalCase: the document is a global variable, a function executes `$g.P = V` (which binds a
// local g: the assignment must not be seen outside the call), then the caller reads the variable as
// a whole and at P. Both must still show the original document.
func (e *env) globalCase(init int, path string, val value) {
	c := e.c
	w := globalWitness(init, path, val)
	prog := fmt.Sprintf("function vstruct_h {\n    $%s.%s = %s\n}\nvstruct_h\nout $%s\nout '%s'\nout $%s.%s\n", globName, path, val.src, globName, sep, globName, path)
	r := mx.Run(prog, &mx.Opt{Setup: func(f *lang.Fork) {
		lang.GlobalVariables.Set(f.Process, globName, docs[init], types.Json)
	}})
	lang.GlobalVariables.Unset(globName)
	c.P.Transitions++
	if r.Hang {
		c.Eval(true, "global-in-function hang")
		c.Violation("terminates", w, "caller still blocked after ceiling\n"+r.HangStack)
		return
	}
	parts := strings.SplitN(r.Stdout, sep+"\n", 2)
	orig, _ := parseDoc(docs[init])
	whole, ok := parseDoc(parts[0])
	bad := false
	if !ok || !reflect.DeepEqual(whole, orig) {
		bad = true
		c.Violation("global-not-aliased", w, fmt.Sprintf("after the call `out $%s` prints %q, the global was %s", globName, parts[0], docs[init]))
	} else if len(parts) < 2 || !elementMatches(orig, strings.Split(path, "."), parts[1]) {
		bad = true
		el := ""
		if len(parts) == 2 {
			el = parts[1]
		}
		c.Violation("global-not-aliased", w, fmt.Sprintf("after the call `out $%s` still prints %s but `out $%s.%s` prints %q: the function-local assignment changed the stored value of the global", globName, docs[init], globName, path, el))
	}
	if bad {
		c.Eval(true, "global-in-function VIOLATES")
	} else {
		c.Eval(true, "global-in-function ok")
	}
}

func run(c *vlib.Ctx) {
	e := setup(c)
	ops := allOps()
	// 72 cases: every start document as a global, every path and value assigned inside a function
	gi := uint64(0)
	for init := range docs {
		for _, p := range paths {
			for _, v := range values {
				if c.Mine(gi) {
					e.globalCase(init, p, v)
				}
				gi++
			}
		}
	}
	depth := maxDepth(c.Quick())
	type item struct {
		init int
		hist []string
	}
	seen := map[string]bool{}
	var queue []item
	n := uint64(0)
	// depth 1: the prefixes are dealt out to the workers
	for init := range docs {
		for _, op := range ops {
			mine := c.Mine(n)
			n++
			if !mine {
				continue
			}
			st := e.transition(init, []string{op}, false)
			key := strconv.Itoa(init) + st.state
			if st.ok && !seen[key] {
				seen[key] = true
				queue = append(queue, item{init, []string{op}})
			}
		}
	}
	cnt := 0
	for qi := 0; qi < len(queue); qi++ {
		it := queue[qi]
		if len(it.hist) >= depth {
			continue
		}
		for _, op := range ops {
			cnt++
			if cnt&0x3f == 0 && c.Expired() {
				return
			}
			h := append(append([]string{}, it.hist...), op)
			st := e.transition(it.init, h, cnt%4099 == 0)
			key := strconv.Itoa(it.init) + st.state
			if st.ok && !seen[key] {
				seen[key] = true
				queue = append(queue, item{it.init, h})
			}
		}
	}
	c.P.States = int64(len(seen))
	c.Note("states = distinct (document of a, document of b) pairs per start document, counted per worker over the subtrees of its depth-1 prefixes and summed; transitions = histories executed (each replays its whole history on the real interpreter)")
}

func replay(c *vlib.Ctx, w string) {
	if f := strings.Fields(w); len(f) == 2 && strings.HasPrefix(f[1], "global-in-function:") {
		g := strings.Split(f[1], ":")
		init := int(f[0][1] - '1')
		if val, ok := valueOf(g[len(g)-1]); ok && len(g) == 3 && init >= 0 && init < len(docs) {
			setup(c).globalCase(init, g[1], val)
		}
		return
	}
	init, hist, ok := parseWitness(w)
	if !ok {
		fmt.Println("cannot parse witness")
		return
	}
	e := setup(c)
	for _, f := range e.run(init, hist).findings {
		c.Violation(f.clause, w, f.detail)
	}
}

func init() {
	vlib.Register(&vlib.Check{
		ID: "C12", Engine: "E3",
		Rule:   "variables a and b are injected as json-typed variables (a = D_i, b = D_i+1 for the start documents {\"a\":1,\"b\":{\"c\":\"x\"}}, [1,{\"k\":true}], {\"a\":[1,2]}); breadth-first search over histories of {b = $a, a = $b, $a.P = V, $b.P = V, call of a function (v: json) that assigns 2 at P of its parameter and prints it} with P in {a, b.c, 0, 1.k, a.1, n, b.n, a.5} and V in {2, \"y\", true}, history length <= L (quick 3, thorough 4); each history is replayed as one murex program, both documents are printed before and after the last statement, and the last statement is judged: a copy equals its source, the other variable never changes, a failed assignment changes nothing, after a successful one the path reads back V (converted to string for a string leaf; V itself for a same-type leaf, a new path or a replaced container; for a number or bool leaf of another type only that the leaf keeps its JSON type) and every other path is unchanged, the callee's change is not seen by the caller, and `out $a.P` / `out $b.P` agree with the printed documents; successors with a new (a,b) document pair are enqueued; depth-1 prefixes are dealt out to the workers; in addition 72 cases put each start document into a global variable, run `$g.P = V` inside a function (which binds a local g) and require that the caller still reads the original document both as a whole and at P; non-trivial = the history contains a copy statement before its last statement (the two variables share an origin)",
		Run:    run,
		Replay: replay,
		Assumptions: []string{
			"whether an assignment succeeds is observed (exitnum), not predicted: the statement does not say which paths are assignable",
			"when a scalar is assigned to an existing number or bool leaf of another type the converted representation is not asserted (alter.go converts through types.ConvertGoType; the statement only promises 'converted to the leaf's type'); counted under not-asserted",
			"exploration does not continue beyond a violating transition; violating histories are minimised by dropping prefix statements while the same clause still fails",
		},
	})
}
