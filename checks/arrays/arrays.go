package arrays
