// Package arrays: C15 — array streams round-trip for every data type that registers both an array
// writer and an array reader, and `foreach` runs its body exactly once per element, in order.
// Bounded-exhaustive enumeration of lists over per-type legal element sets.
package arrays

import (
	"context"
	"encoding/json"
	"fmt"
	"strings"

	"verif/checks/g3util"
	"verif/mx"
	"verif/vlib"

	"github.com/lmorg/murex/builtins/pipes/streams"
	"github.com/lmorg/murex/lang/stdio"
)

// bigToken stands for the 60 KiB element in witnesses (so that a witness stays printable).
const bigToken = "@BIG"

var big = func() string {
	var b strings.Builder
	for i := 0; b.Len() < 60*1024; i++ {
		fmt.Fprintf(&b, "%07d|", i) // position-dependent content: loss, duplication or reordering of a chunk is visible
	}
	return b.String()[:60*1024]
}()

func expand(e string) string { return strings.ReplaceAll(e, bigToken, big) }

// plain is the element every alphabet shares and that no writer/reader should be able to mangle.
type treatment struct {
	mode   string // "strict", "excluded"
	reason string
	alpha  []string
	filler string // the plain element (non-triviality rule, filler around the 60 KiB element)
	bigEl  string
	// loose: compare modulo surrounding JSON-insignificant whitespace (jsonc elements are documents)
	loose  bool
	levels []string
}

var bothLevels = []string{"api", "foreach"}

// The general element set of DESIGN §C15: single-line, no leading/trailing whitespace, no tab.
var general = []string{"a", "[1]", "q\"uote", "x y", "é", "{", ""}

// jsonc ("concatenated JSON") carries JSON documents; its reader rejects anything whose first byte
// is not { or [ (a scalar is not a legal element), so its alphabet is compact JSON objects.
var jsoncAlpha = []string{`{"a":1}`, `{"b":"x y"}`, `{}`, `{"c":[1]}`, `{"d":"é"}`, `{"e":"q\"uote"}`, `{"k":"}"}`}

// jsonl ("JSON lines"): the array reader hands every line over verbatim (checked with the general
// set at the api level), but foreach types each element as json, so a line that is not a JSON value
// is outside the type's alphabet there; the foreach level uses JSON-encoded values.
var jsonlDocs = []string{`"a"`, `[1]`, `"q\"uote"`, `"x y"`, `"é"`, `{"k":"}"}`, `""`}

// treat returns the enumeration variants of a type; the first one also carries the type's mode.
func treat(dt string) []treatment {
	switch dt {
	case "toml":
		return []treatment{{mode: "excluded", reason: "toml: the array writer refuses by design (\"the TOML specification doesn't support naked arrays\")", alpha: general, filler: "a", bigEl: bigToken, levels: bothLevels}}
	case "path", "paths":
		return []treatment{{mode: "excluded", reason: dt + ": elements are path segments, not free strings (the empty list reads back as the root)", alpha: general, filler: "a", bigEl: bigToken, levels: bothLevels}}
	case "jsonc":
		return []treatment{{mode: "strict", alpha: jsoncAlpha, filler: `{"a":1}`, bigEl: `{"k":"` + bigToken + `"}`, loose: true, levels: bothLevels}}
	case "jsonl":
		return []treatment{
			{mode: "strict", alpha: general, filler: "a", bigEl: bigToken, levels: []string{"api"}},
			{mode: "strict", alpha: jsonlDocs, filler: `"a"`, bigEl: `"` + bigToken + `"`, levels: bothLevels},
		}
	}
	// `*`, generic, str, string, json, yaml, xml and any type registered later
	return []treatment{{mode: "strict", alpha: general, filler: "a", bigEl: bigToken, levels: bothLevels}}
}

// fillers: the plain elements (trivial cases; replacement candidates of the minimiser).
var fillers = []string{"a", `"a"`, `{"a":1}`}

func isFiller(e string) bool { return e == fillers[0] || e == fillers[1] || e == fillers[2] }

type wit struct {
	Level string   `json:"level"` // "api" or "foreach"
	Type  string   `json:"type"`
	List  []string `json:"list"`
}

func types() []string {
	in := map[string]bool{}
	for _, r := range stdio.DumpReadArray() {
		in[r] = true
	}
	var out []string
	for _, w := range stdio.DumpWriteArray() { // sorted by murex
		if in[w] {
			out = append(out, w)
		}
	}
	return out
}

func init() {
	vlib.Register(&vlib.Check{
		ID: "C15", Engine: "E2",
		Rule:   "data types = stdio.DumpWriteArray ∩ stdio.DumpReadArray at run time. Per type: every list of 0..L elements (L=4 quick, 5 thorough) over {a, [1], q\"uote, 'x y', é, {, \"\"} (jsonc: 7 compact JSON objects incl. one with } inside a string, compared modulo surrounding whitespace; jsonl: the general set at the api level only, plus 7 JSON-encoded values at both levels because foreach types jsonl elements as json), cyclic lists of 10/25/50 elements at every start offset, and lists of 1..3 elements with one position-stamped 60 KiB element at each position. level api: streams.NewStdin, SetDataType, WriteArray(dt), WriteString per element, Close, then ReadArray must call back with the same list in order; level foreach: the bytes produced by that writer are the dt-typed stdin of `<stdin> -> foreach v { out \"<$v>\" }` whose stdout must be exactly one <element> line per element in order. toml, path and paths are run but not asserted (reason recorded in notes). non-trivial = the list contains at least one element other than the plain filler element (a / \"a\" / {\"a\":1}), i.e. something a writer or reader could mangle",
		Run:    run,
		Replay: replay,
		Assumptions: []string{
			"elements are single-line, without leading/trailing whitespace and without tabs (the legal alphabet of the property's quantifier for every line-oriented type)",
			"a writer error on Close is recorded in the outcome label but only a wrong read-back is a violation",
		},
	})
}

func enumerate(quick bool, t treatment, fn func(l []string) bool) {
	maxLen := 5
	if quick {
		maxLen = 4
	}
	cont := true
	vlib.Seqs(len(t.alpha), 0, maxLen, func(idx []int) bool {
		l := make([]string, len(idx))
		for i, x := range idx {
			l[i] = t.alpha[x]
		}
		cont = fn(l)
		return cont
	})
	for _, n := range []int{10, 25, 50} {
		for s := range t.alpha {
			if !cont {
				return
			}
			l := make([]string, n)
			for i := range l {
				l[i] = t.alpha[(s+i)%len(t.alpha)]
			}
			cont = fn(l)
		}
	}
	for n := 1; n <= 3; n++ {
		for p := 0; p < n; p++ {
			if !cont {
				return
			}
			l := make([]string, n)
			for i := range l {
				l[i] = t.filler
			}
			l[p] = t.bigEl
			cont = fn(l)
		}
	}
}

func run(c *vlib.Ctx) {
	mx.Init(c.WorkDir)
	n := 0
	tps := types()
	if len(tps) < 5 {
		c.HarnessError("only %d types register both WriteArray and ReadArray: %v", len(tps), tps)
	}
	c.Note("types with WriteArray and ReadArray: %s", strings.Join(tps, " "))
	for _, dt := range tps {
		for _, t := range treat(dt) {
			if t.mode == "excluded" {
				c.Note("not asserted — %s", t.reason)
			}
			stop := false
			enumerate(c.Quick(), t, func(l []string) bool {
				for _, level := range t.levels {
					if !c.Next() {
						continue
					}
					n++
					if n&0xff == 0 && c.Expired() {
						stop = true
						return false
					}
					w := wit{level, dt, l}
					res := check(w)
					c.Eval(res.nontrivial, res.outcome)
					if n%7919 == 1 {
						c.Sample(map[string]any{"case": w, "observed": vlib.Clip(res.observed, 160)})
					}
					if t.mode == "excluded" {
						c.Extra("not asserted (excluded type "+dt+")", 1)
					}
					if res.clause != "" {
						mw, mres := minimise(w, res)
						c.Violation(mres.clause, g3util.JSON(mw), mres.detail)
					}
				}
				return true
			})
			if stop {
				return
			}
		}
	}
}

type result struct {
	clause, detail string
	nontrivial     bool
	outcome        string
	observed       string
}

// write serialises the list with the type's registered array writer and returns the stream.
func write(dt string, list []string) (s *streams.Stdin, werr string, panicked string) {
	defer func() {
		if r := recover(); r != nil {
			panicked = fmt.Sprint(r)
		}
	}()
	s = streams.NewStdin()
	s.SetDataType(dt)
	s.Open()
	defer s.Close()
	aw, err := s.WriteArray(dt)
	if err != nil {
		return s, "WriteArray: " + err.Error(), ""
	}
	for i, e := range list {
		if err := aw.WriteString(e); err != nil {
			return s, fmt.Sprintf("WriteString(element %d): %v", i, err), ""
		}
	}
	if err := aw.Close(); err != nil {
		return s, "Close: " + err.Error(), ""
	}
	return s, "", ""
}

func readBack(s *streams.Stdin) (got []string, rerr string, panicked string) {
	defer func() {
		if r := recover(); r != nil {
			panicked = fmt.Sprint(r)
		}
	}()
	err := s.ReadArray(context.Background(), func(b []byte) { got = append(got, string(b)) })
	if err != nil {
		rerr = err.Error()
	}
	return
}

func shape(got, want []string) string {
	switch {
	case len(got) < len(want):
		return "fewer"
	case len(got) > len(want):
		return "more"
	}
	return "altered"
}

func lenClass(l []string) string {
	for _, e := range l {
		if strings.Contains(e, bigToken) {
			return "60KiB"
		}
	}
	if len(l) > 5 {
		return "long"
	}
	return fmt.Sprint(len(l))
}

func check(w wit) (res result) {
	t := treat(w.Type)[0]
	list := make([]string, len(w.List))
	for i, e := range w.List {
		list[i] = expand(e)
		if !isFiller(e) {
			res.nontrivial = true
		}
	}
	label := func(s string) { res.outcome = fmt.Sprintf("%s %s len=%s %s", w.Type, w.Level, lenClass(w.List), s) }
	fail := func(clause, kind, detail string) {
		label(kind)
		if t.mode == "excluded" {
			label("excluded:" + kind)
			return
		}
		res.clause, res.detail = clause, detail
	}
	norm := func(l []string) []string {
		if !t.loose {
			return l
		}
		o := make([]string, len(l))
		for i, e := range l {
			o[i] = strings.TrimSpace(e)
		}
		return o
	}

	s, werr, wpanic := write(w.Type, list)
	if wpanic != "" {
		label("writer-panic")
		res.clause, res.detail = "no-panic", "array writer panicked: "+wpanic
		return
	}
	if w.Level == "api" {
		if werr != "" && !strings.HasPrefix(werr, "Close:") {
			fail("api-roundtrip", "write-error", fmt.Sprintf("writing %s as a %s array failed: %s", g3util.ClipList(list), w.Type, werr))
			return
		}
		got, rerr, rpanic := readBack(s)
		res.observed = g3util.ClipList(got)
		if rpanic != "" {
			label("reader-panic")
			res.clause, res.detail = "no-panic", "array reader panicked: "+rpanic
			return
		}
		if rerr != "" {
			fail("api-roundtrip", "read-error", fmt.Sprintf("%s array written from %s: ReadArray failed: %s (elements delivered before the error: %s; writer error: %q)", w.Type, g3util.ClipList(list), rerr, g3util.ClipList(got), werr))
			return
		}
		if !g3util.EqualLists(norm(got), list) {
			fail("api-roundtrip", shape(got, list), fmt.Sprintf("%s array written from %s read back as %s (writer error: %q)", w.Type, g3util.ClipList(list), g3util.ClipList(got), werr))
			return
		}
		if werr != "" {
			label("ok close-error")
		} else {
			label("ok")
		}
		return
	}

	// level foreach: the writer's bytes become the typed stdin of a murex foreach loop
	if werr != "" && !strings.HasPrefix(werr, "Close:") {
		fail("foreach-visits-each-once", "write-error", fmt.Sprintf("writing %s as a %s array failed: %s", g3util.ClipList(list), w.Type, werr))
		return
	}
	doc, err := s.ReadAll()
	if err != nil {
		label("harness")
		res.clause, res.detail = "harness", "cannot read the written stream back: "+err.Error()
		return
	}
	if doc == nil {
		doc = []byte{}
	}
	r := g3util.Run(`<stdin> -> foreach v { out "<$v>" }`, &mx.Opt{Stdin: doc, StdinType: w.Type})
	res.observed = g3util.Clip(r.Stdout, 200)
	if cl, d := g3util.Universal(r); cl != "" {
		label(cl)
		res.clause, res.detail = cl, fmt.Sprintf("foreach over the %s array %s: %s", w.Type, g3util.ClipList(list), d)
		return
	}
	var want strings.Builder
	for _, e := range list {
		want.WriteString("<" + e + ">\n")
	}
	got := r.Stdout
	exp := want.String()
	if t.loose {
		got, exp = strings.ReplaceAll(got, "\n", ""), strings.ReplaceAll(exp, "\n", "")
	}
	if got != exp {
		k := "altered"
		if n := strings.Count(r.Stdout, ">\n"); n < len(list) {
			k = "fewer"
		} else if n > len(list) {
			k = "more"
		}
		fail("foreach-visits-each-once", k, fmt.Sprintf("`<stdin> -> foreach v { out \"<$v>\" }` over the %s array %q (written from %s) printed %q (exit %d, stderr %q); expected one <element> line per element: %q",
			w.Type, g3util.Clip(string(doc), 200), g3util.ClipList(list), g3util.Clip(r.Stdout, 300), r.Exit, g3util.Clip(r.Stderr, 200), g3util.Clip(exp, 300)))
		return
	}
	label("ok")
	return
}

// minimise: greedy deletion of elements, then replacement of elements by a plain filler, while the
// same clause still fails.
func minimise(w wit, res result) (wit, result) {
	for changed := true; changed; {
		changed = false
		for i := 0; i < len(w.List); i++ {
			cand := w
			cand.List = append(append([]string{}, w.List[:i]...), w.List[i+1:]...)
			if r := check(cand); r.clause == res.clause {
				w, res, changed = cand, r, true
				i--
			}
		}
	}
	for i := range w.List {
		if isFiller(w.List[i]) {
			continue
		}
		for _, t := range treat(w.Type) {
			if !contains(t.levels, w.Level) {
				continue
			}
			f := t.filler
			cand := w
			cand.List = append([]string{}, w.List...)
			cand.List[i] = f
			if r := check(cand); r.clause == res.clause {
				w, res = cand, r
				break
			}
		}
	}
	return w, res
}

func contains(l []string, x string) bool {
	for _, e := range l {
		if e == x {
			return true
		}
	}
	return false
}

func replay(c *vlib.Ctx, witness string) {
	mx.Init(c.WorkDir)
	var w wit
	if err := json.Unmarshal([]byte(witness), &w); err != nil {
		fmt.Println("witness is not a C15 case:", err)
		return
	}
	res := check(w)
	c.Eval(res.nontrivial, res.outcome)
	if res.clause != "" {
		c.Violation(res.clause, g3util.JSON(w), res.detail)
	}
}
