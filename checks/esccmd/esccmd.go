package esccmd
