// Package esccmd: C10 — `murex --execute cmd arg...` and `esccli` escape an argument vector so that
// murex's block and statement parsers give back exactly that vector.
//
// Seams, all on the real code:
//   - exec:   mirror of main.argvToCmdLineStr (copy; escape.CommandLine; strings.Join " ") -> expressions.ParseBlock
//     (exactly one function, command = the plain name) -> expressions.StatementParametersParser in exec mode
//     (what lang.executeProcess calls) -> execution with a recording builtin.
//   - esccli: the array is written (as JSON) to the stdin of the real `esccli` builtin, its output is appended
//     to the plain command name and goes through the same three stages.
//   - e2e:    the murex binary built from the tree under test is run as `murex --execute <argv dumper> arg...`
//     on a small subset; this is the first sentence of the statement verbatim, and it binds the mirror
//     to main.go: on the same subset the in-process run of the mirrored command line must print the same.
package esccmd

import (
	"context"
	"encoding/json"
	"fmt"
	"os"
	"os/exec"
	"path/filepath"
	"strings"
	"syscall"
	"time"

	"verif/checks/g2rec"
	"verif/mx"
	"verif/vlib"

	"github.com/lmorg/murex/lang"
	"github.com/lmorg/murex/lang/expressions"
	"github.com/lmorg/murex/utils/escape"
)

// Σ(C08) ...
var sigma = []string{"a", " ", "'", "\"", "$", "@", "~", "*", ";", "|", "&", "{", "}", "(", ")", "[", "#", "\\", "\n", "\r", "\t", "é", "\x01"}

// ... plus the other punctuation the murex parsers give a meaning to
var sigmaX = append(append([]string{}, sigma...), "%", "`", "=", "-", ">", "<", "?", ":", "!", "/", "]", "\u00a0", "\u3000", "\u2028", "\f")

// argvToCmdLineStr mirrors main.argvToCmdLineStr (/repo/main.go); bound to the binary by the e2e subset.
func argvToCmdLineStr(argv []string) string {
	cmdLine := make([]string, len(argv))
	copy(cmdLine, argv)
	escape.CommandLine(cmdLine)
	return strings.Join(cmdLine, " ")
}

func init() {
	vlib.Register(&vlib.Check{
		ID: "C10", Engine: "E2",
		Rule: "argument vectors after the plain command name `vargsrec`: (S1) one argument, every string up to length 3 (quick) / 4 (thorough) over the 23-character alphabet of C08 and up to length 2 / 3 over that alphabet plus % ` = - > < ? : ! / ] and the non-ASCII / rare white space U+00A0 U+3000 U+2028 FF; (S2) two arguments of length <= 1 over the 34 characters and the empty string (thorough: also two arguments of length <= 2 and three of length <= 1 over the 23 characters and the empty string); (S3) every vector of 1..5 (quick) / 1..6 (thorough) arguments over {empty, a, space, $x}. Each vector is escaped by the mirror of argvToCmdLineStr and by the real esccli builtin (called directly with the vector as parameters; for S1 up to length 2, S2 with 34 characters and S3 also as a method with the array as JSON on stdin), the result is parsed by expressions.ParseBlock (must be exactly one function with that command), by StatementParametersParser in exec mode and executed with a recording builtin (arguments must equal the vector). (E2E) vectors of one argument of length <= 1 over the 34 characters (thorough: also length 2 over the 23) and two arguments over {empty a space $} (thorough: the 23 characters and the empty string) are passed to the murex binary built from the tree under test as `--execute <argv dumper> arg...`. A failing vector is minimised (greedy deletion of arguments and characters while the same clause fails) and reported under the minimal vector. non-trivial = the escaped command line differs from the arguments joined by spaces (something had to be escaped) or an argument is empty",
		Run:    run,
		Replay: replay,
		Post:   post,
		Assumptions: []string{
			"alphabets and bounds as stated in the rule; NUL is excluded (it cannot be passed in an OS argv)",
			"the command name is a plain word; only the arguments are hostile",
		},
	})
}

type env struct {
	c      *vlib.Ctx
	script string
	bin    string
	memo   map[string][2]string // seam+argv -> clause, detail
	binOut map[string]string    // e2e argv -> stdout of the binary
	rt     map[string][2]string // escaped line+argv -> stage, detail
}

// the worker's HOME is redirected by mx.Init; the go tool needs the real one (module cache)
var realHome = os.Getenv("HOME")

func prepare(c *vlib.Ctx) *env {
	mx.Init(c.WorkDir)
	g2rec.Install()
	e := &env{c: c, script: filepath.Join(c.WorkDir, "argvdump.sh"), memo: map[string][2]string{}, binOut: map[string]string{}, rt: map[string][2]string{}}
	if err := os.WriteFile(e.script, []byte("#!/bin/sh\nfor a in \"$@\"; do printf '%s\\0' \"$a\"; done\n"), 0755); err != nil {
		c.HarnessError("cannot write argv dumper: %v", err)
	}
	// calibration
	for _, seam := range []string{"exec", "esccli", "esccli-method"} {
		if cl, d := e.verdict(seam, []string{"a b", "c"}); cl != "" {
			c.HarnessError("calibration failed on a harmless vector (%s): %s %s", seam, cl, d)
		}
	}
	return e
}

func key(seam string, args []string) string {
	var b strings.Builder
	enc := json.NewEncoder(&b)
	enc.SetEscapeHTML(false)
	if args == nil {
		args = []string{}
	}
	enc.Encode(args)
	return seam + " " + strings.TrimSuffix(b.String(), "\n")
}

// roundTrip: the three in-process stages for one escaped parameter string.
func (e *env) roundTrip(line string, args []string) (stage, detail string) {
	k := key(line, args)
	if v, ok := e.rt[k]; ok {
		return v[0], v[1]
	}
	stage, detail = roundTrip(line, args)
	if len(e.rt) < 300000 {
		e.rt[k] = [2]string{stage, detail}
	}
	return
}

func roundTrip(line string, args []string) (stage, detail string) {
	tree, err := expressions.ParseBlock([]rune(line))
	if err != nil {
		return "parse-error", fmt.Sprintf("ParseBlock(%q) failed: %s", line, vlib.Clip(err.Error(), 300))
	}
	if len(*tree) != 1 {
		var names []string
		for _, f := range *tree {
			names = append(names, string(f.Command))
		}
		return "not-one-command", fmt.Sprintf("ParseBlock(%q) gave %d functions %q, expected exactly one", line, len(*tree), names)
	}
	f := (*tree)[0]
	if string(f.Command) != g2rec.Recorder {
		return "other-command", fmt.Sprintf("ParseBlock(%q) gave the command %q, expected %q", line, string(f.Command), g2rec.Recorder)
	}
	if len(f.NamedPipes) != 0 || len(f.Cast) != 0 {
		return "redirection", fmt.Sprintf("ParseBlock(%q) took part of the arguments as a redirection/cast: pipes %q cast %q", line, f.NamedPipes, string(f.Cast))
	}
	fork := lang.ShellProcess.Fork(lang.F_FUNCTION | lang.F_NEW_MODULE | lang.F_NO_STDIN | lang.F_CREATE_STDOUT | lang.F_CREATE_STDERR)
	fork.Name.Set(g2rec.Recorder)
	name, params, err := expressions.StatementParametersParser(f.Raw, fork.Process)
	fork.Kill()
	if err != nil {
		return "params-error", fmt.Sprintf("StatementParametersParser(%q) failed: %s", string(f.Raw), vlib.Clip(err.Error(), 300))
	}
	if name != g2rec.Recorder || !eq(params, args) {
		return "params-differ", fmt.Sprintf("%q parsed (exec mode) to command %q parameters %q, expected %q", line, name, params, args)
	}
	// execution
	g2rec.Reset()
	r := mx.Run(line, nil)
	if r.Hang {
		return "hang", "caller still blocked after ceiling\n" + r.HangStack
	}
	calls := g2rec.Calls()
	if len(calls) != 1 || !eq(calls[0], args) || r.Exit != 0 {
		return "executed-differ", fmt.Sprintf("executing %q: recorder calls %q (exit %d, stderr %q), expected one call with %q", line, calls, r.Exit, vlib.Clip(r.Stderr, 200), args)
	}
	return "", ""
}

// verdict applies the oracle of one seam to one vector (memoised: minimisation revisits small vectors).
func (e *env) verdict(seam string, args []string) (clause, detail string) {
	k := key(seam, args)
	if v, ok := e.memo[k]; ok {
		return v[0], v[1]
	}
	switch seam {
	case "exec":
		line := argvToCmdLineStr(append([]string{g2rec.Recorder}, args...))
		if st, d := e.roundTrip(line, args); st != "" {
			clause, detail = "argv-round-trip", st+": "+d
		}
	case "esccli", "esccli-method":
		var out string
		if seam == "esccli" {
			// function form: the builtin is called directly with the vector as its parameters
			fork := lang.ShellProcess.Fork(lang.F_FUNCTION | lang.F_NEW_MODULE | lang.F_NO_STDIN | lang.F_CREATE_STDOUT | lang.F_CREATE_STDERR)
			p := fork.Process
			p.Name.Set("esccli")
			p.Parameters.DefineParsed(append([]string{}, args...))
			err := lang.GoFunctions["esccli"](p)
			b, _ := fork.Stdout.ReadAll()
			fork.Kill()
			if err != nil {
				clause, detail = "argv-round-trip", fmt.Sprintf("esccli-failed: %v", err)
				break
			}
			out = string(b)
		} else {
			// method form: the array arrives as JSON on stdin
			js, _ := json.Marshal(args)
			r := mx.Run("<stdin> -> esccli", &mx.Opt{Stdin: js, StdinType: "json"})
			if r.Hang {
				clause, detail = "terminates", "esccli: caller still blocked\n"+r.HangStack
				break
			}
			if r.Exit != 0 {
				clause, detail = "argv-round-trip", fmt.Sprintf("esccli-failed: `<stdin: json %s> -> esccli`: %v", js, r)
				break
			}
			out = r.Stdout
		}
		if !strings.HasSuffix(out, "\n") {
			clause, detail = "argv-round-trip", fmt.Sprintf("esccli-failed: output %q does not end with a line feed", out)
			break
		}
		out = strings.TrimSuffix(out, "\n")
		line := g2rec.Recorder + " " + out
		if st, d := e.roundTrip(line, args); st != "" {
			clause, detail = "argv-round-trip", st+": esccli printed "+fmt.Sprintf("%q", out)+"; "+d
		}
	case "e2e":
		got, raw, err := e.runBinary(args)
		if err != nil && err.Error() == "timeout" {
			got, raw, err = e.runBinary(args) // the machine may be overloaded: once more
		}
		if err != nil && err.Error() == "timeout" {
			// inconclusive, never a violation
			e.c.Note("e2e: the murex binary did not finish within the ceiling for %q (inconclusive, not asserted)", args)
			e.c.P.Exhaustive = false
			return "", ""
		}
		if err != nil {
			clause, detail = "argv-round-trip", fmt.Sprintf("`murex --execute <argv dumper> %q` failed: %v; %s", args, err, vlib.Clip(raw, 400))
		} else if !eq(got, args) {
			clause, detail = "argv-round-trip", fmt.Sprintf("`murex --execute <argv dumper> %q`: the command received %q; %s", args, got, vlib.Clip(raw, 300))
		}
	}
	if len(e.memo) < 200000 {
		e.memo[k] = [2]string{clause, detail}
	}
	return
}

// runBinary: real binary, external argv dumper. Results are kept so that mirrorBinding does not run it again.
func (e *env) runBinary(args []string) (got []string, raw string, err error) {
	ctx, cancel := context.WithTimeout(context.Background(), 120*time.Second)
	defer cancel()
	cmd := exec.CommandContext(ctx, e.bin, append([]string{"--execute", e.script}, args...)...)
	var so, se strings.Builder
	cmd.Stdout, cmd.Stderr = &so, &se
	cmd.Dir = e.c.WorkDir
	rerr := cmd.Run()
	if len(e.binOut) < 100000 {
		e.binOut[key("e2e", args)] = so.String()
	}
	raw = fmt.Sprintf("stdout %q stderr %q", so.String(), vlib.Clip(se.String(), 300))
	if ctx.Err() != nil {
		return nil, raw, fmt.Errorf("timeout")
	}
	if rerr != nil {
		return nil, raw, rerr
	}
	return splitNul(so.String()), raw, nil
}

func splitNul(s string) []string {
	if s == "" {
		return []string{}
	}
	p := strings.Split(s, "\x00")
	if p[len(p)-1] == "" {
		p = p[:len(p)-1]
	}
	return p
}

func eq(a, b []string) bool {
	if len(a) != len(b) {
		return false
	}
	for i := range a {
		if a[i] != b[i] {
			return false
		}
	}
	return true
}

// minimise: greedy deletion of whole arguments, then of single characters, while the same clause fails.
func (e *env) minimise(seam string, args []string, clause string) []string {
	cur := append([]string{}, args...)
	for again := true; again; {
		again = false
		for i := range cur {
			cand := append(append([]string{}, cur[:i]...), cur[i+1:]...)
			if cl, _ := e.verdict(seam, cand); cl == clause {
				cur, again = cand, true
				break
			}
		}
		if again {
			continue
		}
	chars:
		for i := range cur {
			rs := []rune(cur[i])
			for j := range rs {
				if len(rs) == 1 {
					break // would create an empty argument, which is a defect of its own
				}
				cand := append([]string{}, cur...)
				cand[i] = string(rs[:j]) + string(rs[j+1:])
				if cl, _ := e.verdict(seam, cand); cl == clause {
					cur, again = cand, true
					break chars
				}
			}
		}
	}
	return cur
}

func (e *env) one(seam string, args []string, sample bool) {
	c := e.c
	line := argvToCmdLineStr(args)
	nontrivial := line != strings.Join(args, " ")
	for _, a := range args {
		nontrivial = nontrivial || a == ""
	}
	clause, detail := e.verdict(seam, args)
	outcome := seam + " ok"
	if clause != "" {
		st := detail
		if i := strings.Index(st, ":"); i > 0 {
			st = st[:i]
		}
		if len(st) > 30 {
			st = "failed"
		}
		outcome = seam + " " + st
		var min []string
		if seam == "e2e" {
			// a run of the binary is expensive: the smaller vector is chosen with the in-process exec
			// seam and then confirmed by one run of the binary (else the original vector is reported)
			min = args
			if cl, _ := e.verdict("exec", args); cl == clause {
				cand := e.minimise("exec", args, clause)
				if cl, _ := e.verdict("e2e", cand); cl == clause {
					min = cand
				}
			}
		} else {
			min = e.minimise(seam, args, clause)
		}
		if !eq(min, args) {
			c.Extra("violations reported under a smaller vector", 1)
			_, detail = e.verdict(seam, min)
		}
		c.Violation(clause, key(seam, min), detail)
	}
	c.Eval(nontrivial, outcome)
	if sample {
		c.Sample(map[string]any{"seam": seam, "argv": args, "escaped": line, "outcome": outcome})
	}
}

// mirrorBinding: on the e2e subset the in-process run of the mirrored command line must print what the
// binary printed (whether or not the vector round-trips).
func (e *env) mirrorBinding(args []string) {
	raw, ok := e.binOut[key("e2e", args)]
	if !ok {
		e.runBinary(args)
		raw = e.binOut[key("e2e", args)]
	}
	line := argvToCmdLineStr(append([]string{e.script}, args...))
	r := mx.Run(line, nil)
	if r.Hang {
		e.c.Violation("terminates", key("e2e", args), "in-process run of the mirrored command line blocked\n"+r.HangStack)
		return
	}
	if r.Stdout != raw {
		e.c.Violation("mirror-matches-binary", key("e2e", args), fmt.Sprintf("`murex --execute <argv dumper> %q` printed %q but the in-process run of the harness's copy of argvToCmdLineStr (%q) printed %q: main.argvToCmdLineStr no longer is copy + escape.CommandLine + join", args, raw, line, r.Stdout))
	}
}

func run(c *vlib.Ctx) {
	t0 := time.Now()
	e := prepare(c)
	n := 0
	stop := false
	do := func(seams []string, args []string) bool {
		if !c.Next() {
			return true
		}
		n++
		if n&0x7f == 0 && c.Expired() {
			stop = true
			return false
		}
		for _, s := range seams {
			e.one(s, args, n%5003 == 1)
		}
		return true
	}
	inproc := []string{"exec", "esccli"}
	all := []string{"exec", "esccli", "esccli-method"}
	quick := c.Quick()
	// S1
	l23, l34 := 3, 2
	if !quick {
		l23, l34 = 4, 3
	}
	vlib.Strings(sigma, 0, l23, func(s string, idx []int) bool {
		if len(idx) <= 2 {
			return do(all, []string{s})
		}
		return do(inproc, []string{s})
	})
	if stop {
		return
	}
	vlib.Strings(sigmaX, 1, l34, func(s string, idx []int) bool {
		for _, i := range idx {
			if i >= len(sigma) {
				return do(inproc, []string{s})
			}
		}
		return true // already covered above
	})
	if stop {
		return
	}
	// S2
	e1 := append([]string{""}, sigmaX...)
	vlib.Seqs(len(e1), 2, 2, func(idx []int) bool { return do(all, []string{e1[idx[0]], e1[idx[1]]}) })
	if !quick && !stop {
		var e2 []string
		vlib.Strings(sigma, 0, 2, func(s string, _ []int) bool { e2 = append(e2, s); return true })
		vlib.Seqs(len(e2), 2, 2, func(idx []int) bool { return do(inproc, []string{e2[idx[0]], e2[idx[1]]}) })
		e3 := append([]string{""}, sigma...)
		vlib.Seqs(len(e3), 3, 3, func(idx []int) bool { return do(inproc, []string{e3[idx[0]], e3[idx[1]], e3[idx[2]]}) })
	}
	if stop {
		return
	}
	// S3
	small := []string{"", "a", " ", "$x"}
	maxN := 5
	if !quick {
		maxN = 6
	}
	vlib.Seqs(len(small), 1, maxN, func(idx []int) bool {
		a := make([]string, len(idx))
		for i, x := range idx {
			a[i] = small[x]
		}
		return do(all, a)
	})
	if stop {
		return
	}
	// E2E
	t1 := time.Now()
	c.Extra("wall-ms in-process part (sum over workers)", t1.Sub(t0).Milliseconds())
	e.bin = murexBinary(c)
	t2 := time.Now()
	c.Extra("wall-ms waiting for/building the murex binary (sum over workers)", t2.Sub(t1).Milliseconds())
	defer func() { c.Extra("wall-ms e2e part (sum over workers)", time.Since(t2).Milliseconds()) }()
	e2e := func(args []string) bool {
		if !c.Next() {
			return true
		}
		n++
		if c.Expired() {
			stop = true
			return false
		}
		e.one("e2e", args, n%97 == 1)
		e.mirrorBinding(args)
		return true
	}
	sub := []string{"", "a", " ", "$"}
	if !quick {
		sub = append([]string{""}, sigma...)
	}
	vlib.Strings(sigmaX, 0, 1, func(s string, _ []int) bool { return e2e([]string{s}) })
	if !quick {
		vlib.Strings(sigma, 2, 2, func(s string, _ []int) bool { return e2e([]string{s}) })
	}
	vlib.Seqs(len(sub), 2, 2, func(idx []int) bool { return e2e([]string{sub[idx[0]], sub[idx[1]]}) })
}

// murexBinary returns the murex binary built from the tree under test (honouring VERIF_OVERLAY); it is
// built once per run (first worker to take the lock) into /verif/.work and removed by post().
func murexBinary(c *vlib.Ctx) string {
	path := filepath.Join(vlib.Root, ".work", fmt.Sprintf("g2-murex-%d", os.Getppid()))
	if c.NShards == 1 {
		path = filepath.Join(c.WorkDir, "murex") // replay
	}
	lock, err := os.OpenFile(path+".lock", os.O_CREATE|os.O_RDWR, 0644)
	if err != nil {
		c.HarnessError("cannot create lock file: %v", err)
	}
	defer lock.Close()
	if err := syscall.Flock(int(lock.Fd()), syscall.LOCK_EX); err != nil {
		c.HarnessError("flock: %v", err)
	}
	defer syscall.Flock(int(lock.Fd()), syscall.LOCK_UN)
	if _, err := os.Stat(path); err == nil {
		return path
	}
	args := []string{"build"}
	if ov := os.Getenv("VERIF_OVERLAY"); ov != "" {
		args = append(args, "-overlay", ov)
	}
	tmp := fmt.Sprintf("%s.tmp%d", path, os.Getpid())
	args = append(args, "-o", tmp, "github.com/lmorg/murex")
	cmd := exec.Command("go1.26", args...)
	cmd.Dir = vlib.Root
	cmd.Env = append(os.Environ(), "GOFLAGS=-mod=mod", "GOPROXY=off", "GOSUMDB=off", "GOTOOLCHAIN=local", "CGO_ENABLED=0", "HOME="+realHome)
	out, err := cmd.CombinedOutput()
	if err != nil {
		os.Remove(tmp)
		c.HarnessError("cannot build the murex binary from the tree under test: %v\n%s", err, vlib.Clip(string(out), 2000))
	}
	if err := os.Rename(tmp, path); err != nil {
		c.HarnessError("rename: %v", err)
	}
	return path
}

// post (parent process): remove the binary built for this run.
func post(m *vlib.Merged) error {
	p := filepath.Join(vlib.Root, ".work", fmt.Sprintf("g2-murex-%d", os.Getpid()))
	os.Remove(p)
	os.Remove(p + ".lock")
	// leftovers of runs that were killed
	old, _ := filepath.Glob(filepath.Join(vlib.Root, ".work", "g2-murex-*"))
	for _, f := range old {
		if st, err := os.Stat(f); err == nil && time.Since(st.ModTime()) > 2*time.Hour {
			os.Remove(f)
		}
	}
	return nil
}

// replay: witness is `<seam> <json argv>`.
func replay(c *vlib.Ctx, w string) {
	e := prepare(c)
	i := strings.Index(w, " ")
	if i < 0 {
		fmt.Println("unrecognised witness")
		return
	}
	seam := w[:i]
	var args []string
	if err := json.Unmarshal([]byte(w[i+1:]), &args); err != nil {
		fmt.Println("unrecognised witness:", err)
		return
	}
	if seam == "e2e" {
		e.bin = murexBinary(c)
		e.mirrorBinding(args)
	}
	if cl, d := e.verdict(seam, args); cl != "" {
		c.Violation(cl, w, d)
	}
}
