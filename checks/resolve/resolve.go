// Package resolve: C22 — command resolution order (private in the caller's module, alias, murex
// function, builtin, external) and single alias expansion. The space is finite: every combination of
// definitions of one name x every alias target x calling context x argument count.
package resolve

import (
	"fmt"
	"os"
	"path/filepath"
	"strings"
	"time"

	"verif/mx"
	"verif/vlib"

	"github.com/lmorg/murex/lang"
	"github.com/lmorg/murex/lang/types"
)

// names (deliberately unlikely)
const (
	nZ   = "vzzq"  // the name under test
	nYA  = "vyyqa" // helper: defined only as an alias (-> out A:vyyqa:)
	nYF  = "vyyqf" // helper: defined as an alias (-> out A:vyyqf:) and as a function
	nF   = "vffq"  // helper function
	nB   = "vbbq"  // helper builtin
	nP   = "vppq"  // helper private in the caller's module
	nX   = "vxxq"  // helper external
	modO = "verifg5/own"
	modX = "verifg5/other"
	modD = "verifg5/defs" // where global helpers are defined
)

type config struct {
	priv    int // 0 none, 1 in the caller's module, 2 only in another module
	alias   int // 0 none, 1.. = index into targets + 1
	fn      bool
	builtin bool
	ext     bool
	ctx     int
	nargs   int
}

var targets = []string{nZ, nYA, nYF, nF, nB, nP, nX}

var contexts = []string{"direct", "in-function", "try-block", "subshell"}

func (cf config) String() string {
	var d []string
	switch cf.priv {
	case 1:
		d = append(d, "private(own-module)")
	case 2:
		d = append(d, "private(other-module)")
	}
	if cf.alias > 0 {
		d = append(d, "alias->"+targets[cf.alias-1])
	}
	if cf.fn {
		d = append(d, "function")
	}
	if cf.builtin {
		d = append(d, "builtin")
	}
	if cf.ext {
		d = append(d, "external")
	}
	if len(d) == 0 {
		d = []string{"undefined"}
	}
	return fmt.Sprintf("%s defined as [%s] called %s with %d args", nZ, strings.Join(d, ","), contexts[cf.ctx], cf.nargs)
}

func enumerate(fn func(cf config) bool) {
	vlib.Product([]int{3, len(targets) + 1, 2, 2, 2, len(contexts), 3}, func(i []int) bool {
		return fn(config{priv: i[0], alias: i[1], fn: i[2] == 1, builtin: i[3] == 1, ext: i[4] == 1, ctx: i[5], nargs: i[6]})
	})
}

// ---------------------------------------------------------------------------------------------
// reference model (the statement)

type def struct {
	privOwn, fn, builtin, ext bool
	alias                     []string
}

// world: every definition visible to a caller living in module modO
func world(cf config) map[string]def {
	w := map[string]def{
		nYA: {alias: []string{"out", "A:" + nYA + ":"}},
		nYF: {alias: []string{"out", "A:" + nYF + ":"}, fn: true},
		nF:  {fn: true},
		nB:  {builtin: true},
		nP:  {privOwn: true},
		nX:  {ext: true},
	}
	z := def{privOwn: cf.priv == 1, fn: cf.fn, builtin: cf.builtin, ext: cf.ext}
	if cf.alias > 0 {
		z.alias = []string{targets[cf.alias-1], "pre"}
	}
	w[nZ] = z
	return w
}

type expect struct {
	marker   string // "" = no definition: clean error
	kind     string
	expanded bool
	ndefs    int
}

func model(cf config, args []string) expect {
	w := world(cf)
	var e expect
	z := w[nZ]
	for _, b := range []bool{z.privOwn, z.alias != nil, z.fn, z.builtin, z.ext} {
		if b {
			e.ndefs++
		}
	}
	name := nZ
	aliasAllowed := true
	for {
		d := w[name]
		switch {
		case d.privOwn:
			e.kind = "P"
		case d.alias != nil && aliasAllowed:
			// expanded exactly once; the target is then resolved as a non-alias
			aliasAllowed = false
			e.expanded = true
			name = d.alias[0]
			args = append(append([]string{}, d.alias[1:]...), args...)
			continue
		case d.fn:
			e.kind = "F"
		case d.builtin:
			e.kind = "B"
		case d.ext:
			e.kind = "X"
		default:
			e.kind = "none"
			return e
		}
		e.marker = e.kind + ":" + name + ":"
		for _, a := range args {
			e.marker += " " + a
		}
		e.marker += "\n"
		return e
	}
}

// ---------------------------------------------------------------------------------------------
// real code

var dirAll, dirSome string

const ceiling = 10 * time.Second

func script(name string) string {
	return "#!/bin/sh\nprintf 'X:" + name + ":'\nfor a in \"$@\"; do printf ' %s' \"$a\"; done\necho\n"
}

func goBuiltin(name string) func(p *lang.Process) error {
	return func(p *lang.Process) error {
		p.Stdout.SetDataType(types.String)
		s := "B:" + name + ":"
		for _, a := range p.Parameters.StringArray() {
			s += " " + a
		}
		_, err := p.Stdout.Writeln([]byte(s))
		return err
	}
}

func must(c *vlib.Ctx, what string, block string, mod string) {
	r := mx.Run(block, &mx.Opt{Module: mod})
	if r.Exit != 0 || r.Hang || r.Stderr != "" {
		c.HarnessError("%s failed: %q -> %v", what, block, r)
	}
}

func setup(c *vlib.Ctx) {
	mx.Init(c.WorkDir)
	dirAll = filepath.Join(c.WorkDir, "xbin-all")
	dirSome = filepath.Join(c.WorkDir, "xbin-some")
	for _, d := range []string{dirAll, dirSome} {
		os.MkdirAll(d, 0755)
		if err := os.WriteFile(filepath.Join(d, nX), []byte(script(nX)), 0755); err != nil {
			c.HarnessError("cannot write helper: %v", err)
		}
	}
	if err := os.WriteFile(filepath.Join(dirAll, nZ), []byte(script(nZ)), 0755); err != nil {
		c.HarnessError("cannot write helper: %v", err)
	}
	os.Setenv("PATH", dirSome)
	must(c, "helper alias", "alias "+nYA+"=out A:"+nYA+":", modD)
	must(c, "helper alias", "alias "+nYF+"=out A:"+nYF+":", modD)
	must(c, "helper function", "function "+nYF+" { vmarkq F:"+nYF+": }", modD)
	must(c, "helper function", "function "+nF+" { vmarkq F:"+nF+": }", modD)
	must(c, "helper private", "private "+nP+" { vmarkq P:"+nP+": }", modO)
	// the function through which the in-function context calls the name; it lives in the caller's module
	must(c, "context function", "function vctxq0 { "+nZ+" }", modO)
	must(c, "context function", "function vctxq1 { "+nZ+" $1 }", modO)
	must(c, "context function", "function vctxq2 { "+nZ+" $1 $2 }", modO)
	lang.DefineFunction(nB, goBuiltin(nB), types.String)
	// vmarkq PREFIX: prints PREFIX followed by the parameters of the enclosing function
	lang.DefineFunction("vmarkq", func(p *lang.Process) error {
		p.Stdout.SetDataType(types.String)
		s, _ := p.Parameters.String(0)
		for _, a := range p.Scope.Parameters.StringArray() {
			s += " " + a
		}
		_, err := p.Stdout.Writeln([]byte(s))
		return err
	}, types.String)
	// sanity of the helpers
	for name, want := range map[string]string{nF: "F:" + nF + ": a\n", nB: "B:" + nB + ": a\n", nP: "P:" + nP + ": a\n", nX: "X:" + nX + ": a\n", nYF: "A:" + nYF + ": a\n"} {
		if r := mx.Run(name+" a", &mx.Opt{Module: modO}); r.Stdout != want {
			c.HarnessError("helper %s prints %v, want %q", name, r, want)
		}
	}
}

func define(c *vlib.Ctx, cf config) {
	switch cf.priv {
	case 1:
		must(c, "define private", "private "+nZ+" { vmarkq P:"+nZ+": }", modO)
	case 2:
		must(c, "define private", "private "+nZ+" { vmarkq P:"+nZ+": }", modX)
	}
	if cf.alias > 0 {
		must(c, "define alias", "alias "+nZ+"="+targets[cf.alias-1]+" pre", modD)
	}
	if cf.fn {
		must(c, "define function", "function "+nZ+" { vmarkq F:"+nZ+": }", modD)
	}
	if cf.builtin {
		lang.DefineFunction(nZ, goBuiltin(nZ), types.String)
	}
	if cf.ext {
		os.Setenv("PATH", dirAll)
	} else {
		os.Setenv("PATH", dirSome)
	}
}

func undefine(c *vlib.Ctx, cf config) {
	switch cf.priv {
	case 1:
		must(c, "remove private", "!private "+nZ, modO)
	case 2:
		must(c, "remove private", "!private "+nZ, modX)
	}
	if cf.alias > 0 {
		must(c, "remove alias", "!alias "+nZ, modD)
	}
	if cf.fn {
		must(c, "remove function", "!function "+nZ, modD)
	}
	if cf.builtin {
		delete(lang.GoFunctions, nZ)
	}
	os.Setenv("PATH", dirSome)
	if lang.GlobalAliases.Exists(nZ) || lang.MxFunctions.Exists(nZ) || lang.GoFunctions[nZ] != nil ||
		lang.PrivateFunctions.ExistsString(nZ, modO) || lang.PrivateFunctions.ExistsString(nZ, modX) {
		c.HarnessError("definitions of %s were not removed after %v", nZ, cf)
	}
}

func program(cf config, args []string) (block, module string) {
	call := nZ
	for _, a := range args {
		call += " " + a
	}
	switch contexts[cf.ctx] {
	case "direct":
		return call, modO
	case "in-function":
		// the outer caller lives in the *other* module; the command is looked up from vctxq, which lives in modO
		return fmt.Sprintf("vctxq%d", len(args)) + strings.TrimPrefix(call, nZ), modX
	case "try-block":
		return "try { " + call + " }", modO
	default:
		return "out ${ " + call + " }", modO
	}
}

func one(c *vlib.Ctx, cf config, sample bool) {
	args := []string{"a", "b"}[:cf.nargs]
	exp := model(cf, args)
	define(c, cf)
	block, mod := program(cf, args)
	r := mx.Run(block, &mx.Opt{Module: mod, Ceiling: ceiling})
	if r.Hang {
		// The case goroutine cannot be stopped and may be spinning (an alias expanded over and over
		// grows its parameter list for ever): report, and leave this worker instead of running on.
		c.Eval(true, "hang")
		c.Violation("terminates", cf.String(), "the caller was still blocked "+ceiling.String()+" after the call (a normal case takes milliseconds): command resolution / alias expansion does not terminate\n"+vlib.Clip(r.HangStack, 600))
		c.P.Exhaustive = false
		c.Note("a case did not terminate; the worker stopped there (its goroutine cannot be cancelled)")
		c.HarnessFlush()
		os.Exit(0)
	}
	undefine(c, cf)

	w := cf.String()
	outcome := exp.kind
	if exp.expanded {
		outcome = "alias->" + targets[cf.alias-1] + " runs " + exp.kind
	}
	c.Eval(exp.ndefs >= 2 || cf.alias > 0, outcome)
	if sample {
		c.Sample(map[string]any{"case": w, "program": block, "module": mod, "stdout": r.Stdout, "exit": r.Exit, "expected": exp.marker})
	}
	if mx.HasPanicText(r.Stderr) {
		c.Violation("no-panic", w, r.String())
		return
	}
	if exp.marker == "" {
		// nothing to run: a clean error and none of the markers
		// (inside ${} the failure is reported on stderr and the enclosing `out` still exits 0)
		failed := r.Exit != 0 || contexts[cf.ctx] == "subshell" && strings.Contains(r.Stderr, "not found")
		if !failed || strings.TrimSpace(r.Stdout) != "" {
			c.Violation("undefined-is-error", w, fmt.Sprintf("no definition should be found (after at most one alias expansion), got %s", r.String()))
		}
		return
	}
	if r.Stdout != exp.marker {
		c.Violation("resolution-order", w, fmt.Sprintf("program %q in module %s printed %q (exit %d), expected %q; stderr=%q", block, mod, r.Stdout, r.Exit, exp.marker, vlib.Clip(r.Stderr, 300)))
	} else if r.Exit != 0 {
		c.Violation("exit", w, fmt.Sprintf("printed the right marker but exit=%d stderr=%q", r.Exit, vlib.Clip(r.Stderr, 300)))
	}
}

func init() {
	vlib.Register(&vlib.Check{
		ID: "C22", Engine: "E2",
		Rule:   "finite space, fully enumerated in both tiers: the name vzzq is defined as every combination of {private: none / in the caller's module / only in another module} x {alias: none / -> itself / -> a name that is only an alias / -> a name that is an alias and a function / -> a function / -> a builtin / -> a private / -> an external, each alias carrying one extra argument} x {murex function} x {builtin registered with lang.DefineFunction} x {executable on a private PATH}, called from {the module directly, a function living in that module invoked from another module, a try block, a ${} subshell} with 0, 1 or 2 arguments; every definition prints its own kind, name and argument list; definitions are created and removed around each case; stdout must be the marker of the first match in the order private, alias (expanded once, target resolved as non-alias), function, builtin, external, or a clean error and no marker when nothing matches. Non-trivial = the name has at least two definitions or an alias (precedence or expansion actually decides the result)",
		Run:    run,
		Replay: replay,
		Assumptions: []string{
			"the caller is always a function scope (privates are documented as not callable from the interactive prompt)",
			"external commands are two-line /bin/sh scripts in a directory that is the whole PATH of the worker",
		},
	})
}

func run(c *vlib.Ctx) {
	setup(c)
	n := 0
	enumerate(func(cf config) bool {
		if !c.Next() {
			return true
		}
		n++
		if n&0x3f == 0 && c.Expired() {
			return false
		}
		one(c, cf, n%97 == 5)
		return true
	})
}

func replay(c *vlib.Ctx, w string) {
	setup(c)
	found := false
	enumerate(func(cf config) bool {
		if cf.String() == w {
			found = true
			one(c, cf, false)
			return false
		}
		return true
	})
	if !found {
		fmt.Println("witness not in the enumeration space")
	}
}
