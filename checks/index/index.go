// Package index: C16 — `[k]`, `![ k ]`, `[[/k]]` lookups on arrays and maps injected as typed stdin
// (json, yaml, jsonl). Bounded-exhaustive over array length x index x operator x format.
package index

import (
	"encoding/json"
	"fmt"
	"sort"
	"strconv"
	"strings"

	"verif/mx"
	"verif/vlib"
)

var formats = []string{"json", "yaml", "jsonl"}
var families = []string{"str", "int"}

// element i of an array of the given family, as the text murex is expected to print for it
func elemText(fam string, i int) string {
	if fam == "int" {
		return strconv.Itoa(100 + i)
	}
	return "e" + strconv.Itoa(i)
}

func encodeArray(format, fam string, n int) []byte {
	var b strings.Builder
	lit := func(i int) string {
		if fam == "int" {
			return elemText(fam, i)
		}
		return `"` + elemText(fam, i) + `"`
	}
	switch format {
	case "json":
		b.WriteString("[")
		for i := 0; i < n; i++ {
			if i > 0 {
				b.WriteString(",")
			}
			b.WriteString(lit(i))
		}
		b.WriteString("]")
	case "yaml":
		if n == 0 {
			return []byte("[]\n")
		}
		for i := 0; i < n; i++ {
			b.WriteString("- " + elemText(fam, i) + "\n")
		}
	case "jsonl":
		for i := 0; i < n; i++ {
			b.WriteString(lit(i) + "\n")
		}
	}
	return []byte(b.String())
}

// canon: the textual form of one printed element: surrounding white space dropped, a JSON string
// literal unquoted (jsonl prints the raw line `"e1"`, json/yaml print e1).
func canon(s string) string {
	s = strings.TrimSpace(s)
	if len(s) >= 2 && s[0] == '"' {
		var u string
		if json.Unmarshal([]byte(s), &u) == nil {
			return u
		}
	}
	return s
}

// decodeList: elements of a multi-element output (JSON array, yaml "- x" list, or one item per line).
func decodeList(s string) []string {
	t := strings.TrimSpace(s)
	if strings.HasPrefix(t, "[") {
		var a []any
		d := json.NewDecoder(strings.NewReader(t))
		d.UseNumber()
		if d.Decode(&a) == nil {
			var out []string
			for _, x := range a {
				switch v := x.(type) {
				case string:
					out = append(out, v)
				default:
					out = append(out, fmt.Sprint(v))
				}
			}
			return out
		}
	}
	var out []string
	for _, l := range strings.Split(t, "\n") {
		l = strings.TrimSpace(l)
		if l == "" {
			continue
		}
		l = strings.TrimPrefix(l, "- ")
		out = append(out, canon(l))
	}
	return out
}

type acase struct {
	format, fam string
	n           int
	op          string // "[k]", "[[/k]]", "![ k ]", "[i j]", "![ i j ]"
	ks          []int
}

func (a acase) class() string {
	below, above, neg := false, false, false
	for _, k := range a.ks {
		if k < -a.n {
			below = true
		} else if k >= a.n {
			above = true
		} else if k < 0 {
			neg = true
		}
	}
	switch {
	case below:
		return "below"
	case above:
		return "above"
	case neg:
		return "in-range-neg"
	}
	return "in-range"
}

func (a acase) witness() string {
	var ks []string
	for _, k := range a.ks {
		ks = append(ks, strconv.Itoa(k))
	}
	return fmt.Sprintf("array fmt=%s fam=%s n=%d op=%s k=%s class=%s", a.format, a.fam, a.n, a.op, strings.Join(ks, ","), a.class())
}

func (a acase) block() string {
	var ks []string
	for _, k := range a.ks {
		ks = append(ks, strconv.Itoa(k))
	}
	switch a.op {
	case "[k]", "[i j]":
		return "<stdin> -> [" + strings.Join(ks, " ") + "]"
	case "[[/k]]":
		return "<stdin> -> [[/" + ks[0] + "]]"
	default: // ![
		return "<stdin> -> ![ " + strings.Join(ks, " ") + " ]"
	}
}

func panicText(r mx.Result) bool {
	return mx.HasPanicText(r.Stdout) || mx.HasPanicText(r.Stderr) || mx.HasPanicText(r.Err) || r.Crash != ""
}

func idx(k, n int) int {
	if k < 0 {
		return k + n
	}
	return k
}

func checkArray(c *vlib.Ctx, a acase, sample bool) {
	r := mx.Run(a.block(), &mx.Opt{Stdin: encodeArray(a.format, a.fam, a.n), StdinType: a.format})
	w := a.witness()
	cl := a.class()
	res := "clean-error"
	switch {
	case r.Hang:
		res = "hang"
	case panicText(r):
		res = "panic"
	case r.Exit == 0 && strings.TrimSpace(r.Stdout) == "":
		res = "exit0-empty"
	case r.Exit == 0:
		res = "exit0-output"
	case strings.TrimSpace(r.Stderr) == "":
		res = "error-without-message"
	}
	nontrivial := !(a.op == "[k]" && cl == "in-range")
	c.Eval(nontrivial, fmt.Sprintf("%s %s %s -> %s", a.format, a.op, cl, res))
	if sample {
		c.Sample(map[string]any{"case": w, "block": a.block(), "stdin": string(encodeArray(a.format, a.fam, a.n)), "stdout": r.Stdout, "exit": r.Exit, "stderr": vlib.Clip(r.Stderr, 160)})
	}
	if r.Hang {
		c.Violation("terminates", w, "caller still blocked after ceiling\n"+r.HangStack)
		return
	}
	// universal clause: no lookup ends in an internal panic
	if panicText(r) {
		c.Violation("no-panic", w, fmt.Sprintf("%s => %v", a.block(), r))
		return
	}
	if strings.HasPrefix(a.op, "![") {
		c.Extra("not-asserted beyond no-panic: ![ ] (statement only covers the no-panic clause)", 1)
		return
	}
	inRange := cl == "in-range" || cl == "in-range-neg"
	// jsonl `[`: a streaming row filter. A parameter that is not all digits is taken as a column name,
	// so negative row numbers have no defined meaning there: only the no-panic clause is asserted.
	if a.format == "jsonl" && a.op != "[[/k]]" {
		anyNeg := false
		for _, k := range a.ks {
			anyNeg = anyNeg || k < 0
		}
		if anyNeg {
			c.Extra("not-asserted beyond no-panic: negative row number on jsonl `[` (taken as a column name)", 1)
			return
		}
	}
	if inRange {
		if r.Exit != 0 {
			c.Violation("in-range-returns-element", w, fmt.Sprintf("%s => %v; expected exit 0", a.block(), r))
			return
		}
		if len(a.ks) == 1 {
			exp := elemText(a.fam, idx(a.ks[0], a.n))
			if got := canon(r.Stdout); got != exp {
				c.Violation("in-range-returns-element", w, fmt.Sprintf("%s => stdout %q; expected element %q", a.block(), r.Stdout, exp))
			}
			return
		}
		// several indexes: the set of returned elements (order and multiplicity are not stated)
		exp := map[string]bool{}
		for _, k := range a.ks {
			exp[elemText(a.fam, idx(k, a.n))] = true
		}
		got := map[string]bool{}
		for _, e := range decodeList(r.Stdout) {
			got[e] = true
		}
		if !sameSet(exp, got) {
			c.Violation("in-range-returns-element", w, fmt.Sprintf("%s => stdout %q; expected the elements %v", a.block(), r.Stdout, keys(exp)))
		}
		return
	}
	// out of range: error message and non-zero exit
	clause := "out-of-range-fails"
	if a.format == "jsonl" && a.op != "[[/k]]" {
		clause = "out-of-range-fails(jsonl-row-filter)"
	}
	if r.Exit == 0 {
		c.Violation(clause, w, fmt.Sprintf("%s => %v; expected a non-zero exit number and an error message", a.block(), r))
	} else if strings.TrimSpace(r.Stderr) == "" {
		c.Violation(clause, w, fmt.Sprintf("%s => %v; expected an error message on stderr", a.block(), r))
	}
}

func sameSet(a, b map[string]bool) bool {
	if len(a) != len(b) {
		return false
	}
	for k := range a {
		if !b[k] {
			return false
		}
	}
	return true
}

func keys(m map[string]bool) []string {
	var o []string
	for k := range m {
		o = append(o, k)
	}
	sort.Strings(o)
	return o
}

// ---------------------------------------------------------------------------------------------
// maps

var mapKeys = []string{"a", "A", "b"}
var lookups = []string{"a", "A", "b", "c"}
var mapFams = []string{"str", "int", "obj", "null"} // obj only on json; null: a key that is present with a null value

type mcase struct {
	format, fam string
	present     int // bit set over mapKeys
	op          string
	keys        []string
}

func mapVal(fam string, i int) (lit string, text string) {
	switch fam {
	case "int":
		return strconv.Itoa(7 + i), strconv.Itoa(7 + i)
	case "obj":
		return fmt.Sprintf(`{"x":"v%s"}`, mapKeys[i]), fmt.Sprintf(`{"x":"v%s"}`, mapKeys[i])
	case "null":
		// only key a holds null (the other present keys hold strings so a wrong-key answer is visible)
		if i == 0 {
			return "null", "null"
		}
	}
	return `"v` + mapKeys[i] + `"`, "v" + mapKeys[i]
}

func encodeMap(format, fam string, present int) []byte {
	var b strings.Builder
	first := true
	if format == "json" {
		b.WriteString("{")
	}
	for i, k := range mapKeys {
		if present&(1<<i) == 0 {
			continue
		}
		lit, text := mapVal(fam, i)
		if format == "json" {
			if !first {
				b.WriteString(",")
			}
			b.WriteString(`"` + k + `":` + lit)
		} else {
			b.WriteString(k + ": " + text + "\n")
		}
		first = false
	}
	if format == "json" {
		b.WriteString("}")
	} else if first {
		b.WriteString("{}\n")
	}
	return []byte(b.String())
}

func (m mcase) presentKeys() string {
	s := ""
	for i, k := range mapKeys {
		if m.present&(1<<i) != 0 {
			s += k
		}
	}
	if s == "" {
		s = "-"
	}
	return s
}

// class of one key against the map: exact / variant (only another spelling present) / absent
func (m mcase) keyClass(key string) string {
	variant := false
	for i, k := range mapKeys {
		if m.present&(1<<i) == 0 {
			continue
		}
		if k == key {
			return "exact"
		}
		if strings.EqualFold(k, key) {
			variant = true
		}
	}
	if variant {
		return "variant"
	}
	return "absent"
}

func (m mcase) class() string {
	cl := "exact"
	for _, k := range m.keys {
		switch m.keyClass(k) {
		case "variant":
			return "variant"
		case "absent":
			cl = "absent"
		}
	}
	return cl
}

func (m mcase) witness() string {
	return fmt.Sprintf("map fmt=%s fam=%s keys=%s op=%s key=%s class=%s", m.format, m.fam, m.presentKeys(), m.op, strings.Join(m.keys, ","), m.class())
}

func (m mcase) block() string {
	switch m.op {
	case "[k]", "[i j]":
		return "<stdin> -> [" + strings.Join(m.keys, " ") + "]"
	case "[[/k]]":
		return "<stdin> -> [[/" + m.keys[0] + "]]"
	default:
		return "<stdin> -> ![ " + strings.Join(m.keys, " ") + " ]"
	}
}

func sameJSON(a, b string) bool {
	var x, y any
	if json.Unmarshal([]byte(a), &x) != nil || json.Unmarshal([]byte(b), &y) != nil {
		return false
	}
	bx, _ := json.Marshal(x)
	by, _ := json.Marshal(y)
	return string(bx) == string(by)
}

func checkMap(c *vlib.Ctx, m mcase, sample bool) {
	r := mx.Run(m.block(), &mx.Opt{Stdin: encodeMap(m.format, m.fam, m.present), StdinType: m.format})
	w := m.witness()
	cl := m.class()
	res := "clean-error"
	switch {
	case r.Hang:
		res = "hang"
	case panicText(r):
		res = "panic"
	case r.Exit == 0:
		res = "exit0"
	case strings.TrimSpace(r.Stderr) == "":
		res = "error-without-message"
	}
	c.Eval(true, fmt.Sprintf("map %s %s %s -> %s", m.format, m.op, cl, res))
	if sample {
		c.Sample(map[string]any{"case": w, "block": m.block(), "stdin": string(encodeMap(m.format, m.fam, m.present)), "stdout": r.Stdout, "exit": r.Exit})
	}
	if r.Hang {
		c.Violation("terminates", w, "caller still blocked after ceiling\n"+r.HangStack)
		return
	}
	if panicText(r) {
		c.Violation("no-panic", w, fmt.Sprintf("%s => %v", m.block(), r))
		return
	}
	if len(m.keys) != 1 || strings.HasPrefix(m.op, "![") {
		c.Extra("not-asserted beyond no-panic: ![ ] and several keys on a map", 1)
		return
	}
	switch cl {
	case "variant":
		c.Extra("not-asserted beyond no-panic: key present only in another letter case", 1)
	case "exact":
		i := strings.Index("aAb", m.keys[0])
		_, text := mapVal(m.fam, i)
		if text == "null" {
			// a key that is present with a null value: how null is printed is not asserted (murex prints
			// nothing), and `[[` treats null as missing (not asserted: the statement covers `[key]` on maps);
			// `[key]` must succeed and must not print some other key's value
			if m.op != "[k]" {
				c.Extra("not-asserted beyond no-panic: [[ ]] on a null-valued key", 1)
				return
			}
			if s := canon(r.Stdout); r.Exit != 0 || (s != "" && s != "null") {
				c.Violation("map-key-returns-value", w, fmt.Sprintf("%s => %v; key a is present (value null): expected exit 0 and a null/empty value", m.block(), r))
			}
			return
		}
		ok := r.Exit == 0 && (canon(r.Stdout) == text || m.fam == "obj" && sameJSON(r.Stdout, text))
		if !ok {
			c.Violation("map-key-returns-value", w, fmt.Sprintf("%s => %v; expected value %q and exit 0", m.block(), r, text))
		}
	case "absent":
		if r.Exit == 0 || strings.TrimSpace(r.Stderr) == "" {
			c.Violation("map-missing-key-fails", w, fmt.Sprintf("%s => %v; expected a non-zero exit number and an error message", m.block(), r))
		}
	}
}

// ---------------------------------------------------------------------------------------------

type bounds struct{ maxN, maxK, pairK, tripleN int }

func boundsFor(quick bool) bounds {
	if quick {
		return bounds{maxN: 12, maxK: 16, pairK: 4, tripleN: 0}
	}
	return bounds{maxN: 20, maxK: 30, pairK: 6, tripleN: 3}
}

// enumerate calls fa / fm for every case in a fixed order.
func enumerate(b bounds, fa func(acase) bool, fm func(mcase) bool) {
	for _, format := range formats {
		for _, fam := range families {
			for n := 0; n <= b.maxN; n++ {
				for k := -b.maxK; k <= b.maxK; k++ {
					for _, op := range []string{"[k]", "[[/k]]", "![ k ]"} {
						if !fa(acase{format, fam, n, op, []int{k}}) {
							return
						}
					}
				}
			}
			// several indexes
			for n := 0; n <= 4; n++ {
				for i := -b.pairK; i <= b.pairK; i++ {
					for j := -b.pairK; j <= b.pairK; j++ {
						for _, op := range []string{"[i j]", "![ i j ]"} {
							if !fa(acase{format, fam, n, op, []int{i, j}}) {
								return
							}
						}
					}
				}
			}
			if b.tripleN > 0 {
				n := b.tripleN
				for i := -n - 1; i <= n; i++ {
					for j := -n - 1; j <= n; j++ {
						for k := -n - 1; k <= n; k++ {
							if !fa(acase{format, fam, n, "[i j]", []int{i, j, k}}) {
								return
							}
						}
					}
				}
			}
		}
	}
	for _, format := range []string{"json", "yaml"} {
		for _, fam := range mapFams {
			if fam == "obj" && format != "json" {
				continue
			}
			for present := 0; present < 8; present++ {
				for _, k := range lookups {
					for _, op := range []string{"[k]", "[[/k]]", "![ k ]"} {
						if !fm(mcase{format, fam, present, op, []string{k}}) {
							return
						}
					}
					for _, k2 := range lookups {
						for _, op := range []string{"[i j]", "![ i j ]"} {
							if !fm(mcase{format, fam, present, op, []string{k, k2}}) {
								return
							}
						}
					}
				}
			}
		}
	}
}

func run(c *vlib.Ctx) {
	mx.Init(c.WorkDir)
	n := 0
	tick := func() bool {
		n++
		return !(n&0xff == 0 && c.Expired())
	}
	enumerate(boundsFor(c.Quick()),
		func(a acase) bool {
			if !c.Next() {
				return true
			}
			checkArray(c, a, n%1013 == 7)
			return tick()
		},
		func(m mcase) bool {
			if !c.Next() {
				return true
			}
			checkMap(c, m, n%211 == 3)
			return tick()
		})
}

func replay(c *vlib.Ctx, w string) {
	mx.Init(c.WorkDir)
	found := false
	enumerate(boundsFor(false),
		func(a acase) bool {
			if a.witness() == w {
				found = true
				checkArray(c, a, false)
				return false
			}
			return true
		},
		func(m mcase) bool {
			if m.witness() == w {
				found = true
				checkMap(c, m, false)
				return false
			}
			return true
		})
	if !found {
		fmt.Println("witness not in the enumeration space")
	}
}

func init() {
	vlib.Register(&vlib.Check{
		ID: "C16", Engine: "E2",
		Rule:   "arrays of every length n in 0..N (elements are distinct strings e0.. or distinct integers 100..) are injected as typed stdin in json, yaml and jsonl and looked up with `[k]`, `[[/k]]` and `![ k ]` for every k in [-K, K]; every ordered pair (i,j) in [-P,P]^2 on arrays of length 0..4 through `[i j]` / `![ i j ]`; (thorough) every index triple on a 3-array; every map over the key set {a,A,b} (all 8 subsets; string, integer and (json) object values) in json and yaml with the lookups a, A, b, c through `[key]`, `[[/key]]`, `![ key ]` and all key pairs. quick: N=12 K=16 P=4; thorough: N=20 K=30 P=6. Oracle: -n <= k < n => exit 0 and the printed element equals element k (negative from the end); otherwise non-zero exit and a message on stderr; never 'panic caught' / 'Murex has crashed' text; map key present exactly => its value, key with no spelling variant present => clean error. non-trivial = every case except a single non-negative in-range `[k]` on an array (i.e. negative, out-of-range, multi-index, `![`, `[[`, and map lookups)",
		Run:    run,
		Replay: replay,
		Assumptions: []string{
			"`![ ]` is held to the no-panic clause only; several keys on a map likewise",
			"a map key that is only a letter-case variant of a present key is not asserted (murex falls back to Title/lower/UPPER spellings; the statement is silent)",
			"several indexes on an array: the set of returned elements is compared, not order or multiplicity (jsonl streams rows in input order)",
			"jsonl `[k]` is a streaming row filter in which any parameter that is not all digits is a column name: negative k on jsonl `[` is held to the no-panic clause only (`[[/k]]` on jsonl is asserted fully)",
			"maps are not injected as jsonl (a jsonl document is a list of rows)",
		},
	})
}
