// Package lists: C38 — the list builtins (msort, mtac, prepend, append, match/!match, left, right,
// prefix, suffix) preserve their elements. Bounded-exhaustive enumeration of lists over a hostile
// element alphabet, run in-process, compared with the relations of the property statement.
package lists

import (
	"encoding/json"
	"fmt"
	"sort"
	"strings"
	"unicode/utf8"

	"verif/checks/g3util"
	"verif/mx"
	"verif/vlib"
)

// element alphabets (DESIGN §C38). str lists cannot carry the empty element (an empty line is
// indistinguishable from "no element" at the end of a stream) nor space-edged ones (the str reader trims).
var alphaJSON = []string{"", "a", "b", "B", "a b", "10", "9", "é", "\""}
var alphaStr = []string{"a", "b", "B", "a b", "10", "9", "é", "\"", "\xffab"} // the last one: malformed UTF-8 (str lists only)

type wit struct {
	Enc  string   `json:"enc"` // "json" (JSON string array on json-typed stdin) or "str" (one element per line, str-typed stdin)
	Op   string   `json:"op"`
	Args []string `json:"args"`
	List []string `json:"list"`
}

type opDef struct {
	name   string
	clause string
	args   [][]string // argument variants; the quick tier uses the first nq
	nq     int
	// prog returns the murex source; hostile arguments travel as variables a0, a1, …
	prog  func(name string, args []string) string
	model func(in, args []string) []string
}

func viaVars(name string, args []string) string {
	s := "<stdin> -> " + name
	for i := range args {
		s += fmt.Sprintf(" $a%d", i)
	}
	return s
}

func literal(name string, args []string) string {
	return strings.TrimSpace("<stdin> -> " + name + " " + strings.Join(args, " "))
}

// chars splits s into characters, keeping the original bytes: a byte that is not valid UTF-8 is one
// character (what a byte-preserving "count characters" has to do with malformed input).
func chars(s string) []string {
	var out []string
	for len(s) > 0 {
		_, n := utf8.DecodeRuneInString(s)
		out = append(out, s[:n])
		s = s[n:]
	}
	return out
}

func joinChars(c []string) string { return strings.Join(c, "") }

// leftModel: documented effect of `left n` ("the number of characters to return. If the parameter
// is a negative then left counts from the right"; example: Monday -> left -3 -> Mon).
func leftModel(e string, n int) string {
	r := chars(e)
	switch {
	case n > 0:
		if len(r) <= n {
			return e
		}
		return joinChars(r[:n])
	case n < 0:
		if len(r) < -n {
			return ""
		}
		return joinChars(r[:len(r)+n])
	}
	return ""
}

func rightModel(e string, n int) string {
	r := chars(e)
	switch {
	case n > 0:
		if len(r) <= n {
			return e
		}
		return joinChars(r[len(r)-n:])
	case n < 0:
		if len(r) < -n {
			return ""
		}
		return joinChars(r[-n:])
	}
	return ""
}

func atoi(s string) int {
	var n int
	fmt.Sscanf(s, "%d", &n)
	return n
}

func mapEach(in []string, f func(string) string) []string {
	out := make([]string, len(in))
	for i, e := range in {
		out[i] = f(e)
	}
	return out
}

var ops = []opDef{
	{"msort", "msort-sorted-permutation", [][]string{{}}, 1, literal, func(in, _ []string) []string {
		out := append([]string{}, in...)
		sort.Strings(out) // byte-wise string order; a sorted permutation is unique for a total order
		return out
	}},
	{"mtac", "mtac-reverse", [][]string{{}}, 1, literal, func(in, _ []string) []string {
		out := make([]string, len(in))
		for i, e := range in {
			out[len(in)-1-i] = e
		}
		return out
	}},
	{"prepend", "prepend-concat", [][]string{{"x", "y"}, {"a b"}, {"é", "10"}, {"x"}}, 1, viaVars, func(in, a []string) []string {
		return append(append([]string{}, a...), in...)
	}},
	{"append", "append-concat", [][]string{{"x", "y"}, {"a b"}, {"é", "10"}, {"x"}}, 1, viaVars, func(in, a []string) []string {
		return append(append([]string{}, in...), a...)
	}},
	// match: model returns the matching subsequence; the complement is derived in check()
	{"match", "match-partition", [][]string{{"a"}, {"1"}, {"b"}, {"a b"}, {"\""}, {"é"}, {"zz"}}, 2, viaVars, func(in, a []string) []string {
		var out []string
		for _, e := range in {
			if strings.Contains(e, a[0]) {
				out = append(out, e)
			}
		}
		return out
	}},
	{"left", "left-map", [][]string{{"1"}, {"-1"}, {"2"}}, 2, literal, func(in, a []string) []string {
		return mapEach(in, func(e string) string { return leftModel(e, atoi(a[0])) })
	}},
	{"right", "right-map", [][]string{{"1"}, {"-1"}, {"2"}}, 2, literal, func(in, a []string) []string {
		return mapEach(in, func(e string) string { return rightModel(e, atoi(a[0])) })
	}},
	{"prefix", "prefix-map", [][]string{{"p"}, {"é\""}, {"x y"}}, 1, viaVars, func(in, a []string) []string {
		return mapEach(in, func(e string) string { return a[0] + e })
	}},
	{"suffix", "suffix-map", [][]string{{"s"}, {"é\""}, {"x y"}}, 1, viaVars, func(in, a []string) []string {
		return mapEach(in, func(e string) string { return e + a[0] })
	}},
}

func findOp(name string) *opDef {
	for i := range ops {
		if ops[i].name == name {
			return &ops[i]
		}
	}
	return nil
}

func init() {
	vlib.Register(&vlib.Check{
		ID: "C38", Engine: "E2",
		Rule:        "every list of 0..L elements (L=4 quick — lists of exactly 4 elements only through msort, mtac, prepend, append and match — 5 thorough) over {\"\", a, b, B, 'a b', 10, 9, é, \"} as a JSON string array on json-typed stdin, and over the same set without \"\" as a str list (one element per line), plus a 600-element and a 40x200-byte list (larger than the str reader buffer), a malformed-UTF-8 element in the str lists, and cyclic lists of 8/16/24/40 elements (3 strides x every start offset), is piped through msort, mtac, prepend/append (argument lists injected as variables), match+!match (needles a,1 quick; a,1,b,'a b',\",é,zz thorough), left/right (1,-1 quick; 1,-1,2 thorough) and prefix/suffix (the thorough tier applies the extra argument variants to every list except those of exactly 5 elements); stdout is decoded (JSON array with scalars stringified / lines; an empty stdout is the empty list as murex's own array readers define it) and compared with: sorted permutation in byte order; exact reverse; exact concatenation; match = order-preserving subsequence of the elements containing the needle and !match = its complement; per-element documented map of the same length (left/right count characters as documented). non-trivial = the expected output differs from the input list (for match: both parts non-empty); exit numbers and stderr are not asserted",
		Run:         run,
		Replay:      replay,
		Assumptions: []string{"element alphabet and length bounds as stated in rule", "an empty stdout is read as the empty list (lang.ArrayTemplate does the same), so the json writers' 'no data returned' error for an empty result is recorded as an outcome, not asserted"},
	})
}

func listsFor(quick bool, alpha []string, fn func(l []string) bool) {
	maxLen := 5
	if quick {
		maxLen = 4
	}
	cont := true
	vlib.Seqs(len(alpha), 0, maxLen, func(idx []int) bool {
		l := make([]string, len(idx))
		for i, x := range idx {
			l[i] = alpha[x]
		}
		cont = fn(l)
		return cont
	})
	if !cont {
		return
	}
	// lists larger than the 4 KiB read buffer of the str reader: 600 short distinct elements in a
	// scrambled order, and 40 elements of 200 bytes
	big := make([]string, 600)
	for i := range big {
		big[i] = fmt.Sprintf("e%04d", (i*7919)%600)
	}
	if !fn(big) {
		return
	}
	wide := make([]string, 40)
	for i := range wide {
		wide[i] = fmt.Sprintf("w%02d", (i*17)%40) + strings.Repeat("x", 197)
	}
	if !fn(wide) {
		return
	}
	for _, n := range []int{8, 16, 24, 40} {
		for _, stride := range []int{1, 2, 4} {
			for s := range alpha {
				l := make([]string, n)
				for i := range l {
					l[i] = alpha[(s+i*stride)%len(alpha)]
				}
				if !fn(l) {
					return
				}
			}
		}
	}
}

func run(c *vlib.Ctx) {
	mx.Init(c.WorkDir)
	n := 0
	for _, enc := range []string{"json", "str"} {
		alpha := alphaJSON
		if enc == "str" {
			alpha = alphaStr
		}
		stop := false
		listsFor(c.Quick(), alpha, func(l []string) bool {
			for oi := range ops {
				o := &ops[oi]
				if c.Quick() && len(l) == 4 && oi > 4 {
					continue // quick tier: lists of exactly 4 elements only through the order-sensitive builtins
				}
				vars := o.args
				if c.Quick() || len(l) == 5 {
					vars = vars[:o.nq]
				}
				for _, a := range vars {
					if !c.Next() {
						continue
					}
					n++
					if n&0x1ff == 0 && c.Expired() {
						stop = true
						return false
					}
					w := wit{enc, o.name, a, l}
					res := check(w)
					c.Eval(res.nontrivial, res.outcome)
					if n%40009 == 1 {
						c.Sample(map[string]any{"case": w, "program": o.prog(o.name, a), "stdout": vlib.Clip(res.stdout, 120)})
					}
					if res.clause != "" {
						mw, mres := minimise(w, res)
						c.Violation(mres.clause, g3util.JSON(mw), mres.detail)
					}
				}
			}
			return true
		})
		if stop {
			return
		}
	}
}

type result struct {
	clause, detail string
	nontrivial     bool
	outcome        string
	stdout         string
}

func encodeStdin(enc string, l []string) []byte {
	if enc == "json" {
		if l == nil {
			l = []string{}
		}
		return []byte(g3util.JSON(l))
	}
	b := []byte{}
	for _, e := range l {
		b = append(b, e...)
		b = append(b, '\n')
	}
	return b
}

// decode turns stdout back into a list. JSON scalars that are not strings are kept by their JSON
// text (the builtins stringify; elements are compared as strings).
func decode(enc, out string) ([]string, error) {
	if enc == "json" {
		if strings.TrimSpace(out) == "" {
			return nil, nil
		}
		var raw []json.RawMessage
		if err := json.Unmarshal([]byte(out), &raw); err != nil {
			return nil, fmt.Errorf("stdout is not a JSON array: %v", err)
		}
		l := make([]string, len(raw))
		for i, r := range raw {
			var s string
			if json.Unmarshal(r, &s) == nil {
				l[i] = s
			} else {
				l[i] = string(r)
			}
		}
		return l, nil
	}
	if out == "" {
		return nil, nil
	}
	out = strings.TrimSuffix(out, "\n")
	return strings.Split(out, "\n"), nil
}

func runProg(w wit, prog string) (mx.Result, []string, error) {
	vars := map[string]string{}
	for i, a := range w.Args {
		vars[fmt.Sprintf("a%d", i)] = a
	}
	r := g3util.Run(prog, &mx.Opt{Stdin: encodeStdin(w.Enc, w.List), StdinType: w.Enc, Vars: vars})
	if cl, _ := g3util.Universal(r); cl != "" {
		return r, nil, nil
	}
	l, err := decode(w.Enc, r.Stdout)
	return r, l, err
}

func status(r mx.Result) string {
	switch {
	case r.Exit != 0 && r.Stdout == "":
		return "error-empty-stdout"
	case r.Exit != 0:
		return "error"
	}
	return "ok"
}

func check(w wit) (res result) {
	o := findOp(w.Op)
	if o == nil {
		return result{clause: "harness", detail: "unknown op " + w.Op}
	}
	want := o.model(w.List, w.Args)
	prog := o.prog(o.name, w.Args)
	r, got, derr := runProg(w, prog)
	res.stdout = r.Stdout
	ln := len(w.List)
	if ln > 5 {
		ln = 8
	}
	res.outcome = fmt.Sprintf("%s %s len=%d %s", w.Enc, w.Op, ln, status(r))
	if cl, d := g3util.Universal(r); cl != "" {
		res.clause, res.detail = cl, prog+": "+d
		return
	}
	if derr != nil {
		res.clause, res.detail = "output-decodes", fmt.Sprintf("%s: %v; stdout=%q stderr=%q", prog, derr, vlib.Clip(r.Stdout, 200), vlib.Clip(r.Stderr, 200))
		return
	}
	res.nontrivial = !g3util.EqualLists(want, w.List)
	if !g3util.EqualLists(got, want) {
		res.clause = o.clause
		res.detail = fmt.Sprintf("`%s` on %s list %q printed %q (exit %d, stderr %q); the statement requires %q", prog, w.Enc, w.List, got, r.Exit, vlib.Clip(r.Stderr, 160), want)
		return
	}
	if w.Op == "match" {
		// the complementary subsequence
		var rest []string
		for _, e := range w.List {
			if !strings.Contains(e, w.Args[0]) {
				rest = append(rest, e)
			}
		}
		res.nontrivial = len(want) > 0 && len(rest) > 0
		nprog := strings.Replace(prog, "-> match", "-> !match", 1)
		r2, got2, derr2 := runProg(w, nprog)
		res.outcome += " !" + status(r2)
		if cl, d := g3util.Universal(r2); cl != "" {
			res.clause, res.detail = cl, nprog+": "+d
			return
		}
		if derr2 != nil {
			res.clause, res.detail = "output-decodes", fmt.Sprintf("%s: %v; stdout=%q", nprog, derr2, vlib.Clip(r2.Stdout, 200))
			return
		}
		if !g3util.EqualLists(got2, rest) {
			res.clause = o.clause
			res.detail = fmt.Sprintf("`%s` on %s list %q printed %q (exit %d, stderr %q) while `%s` printed %q; together they must split the input into %q and %q", nprog, w.Enc, w.List, got2, r2.Exit, vlib.Clip(r2.Stderr, 160), prog, got, want, rest)
			return
		}
	}
	for _, e := range got {
		if !utf8.ValidString(e) {
			res.outcome += " invalid-utf8"
			break
		}
	}
	return
}

// minimise: greedy deletion of list elements while the same oracle clause still fails.
func minimise(w wit, res result) (wit, result) {
	for changed := true; changed; {
		changed = false
		for i := 0; i < len(w.List); i++ {
			cand := w
			cand.List = append(append([]string{}, w.List[:i]...), w.List[i+1:]...)
			if r := check(cand); r.clause == res.clause {
				w, res, changed = cand, r, true
				i--
			}
		}
	}
	return w, res
}

func replay(c *vlib.Ctx, witness string) {
	mx.Init(c.WorkDir)
	var w wit
	if err := json.Unmarshal([]byte(witness), &w); err != nil {
		fmt.Println("witness is not a C38 case:", err)
		return
	}
	res := check(w)
	c.Eval(res.nontrivial, res.outcome)
	if res.clause != "" {
		c.Violation(res.clause, g3util.JSON(w), res.detail)
	}
}
