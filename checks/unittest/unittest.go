// Package unittest: C31 — `test unit function` verdicts. Functions with fixed stdout / stderr / exit
// number are paired with the full product of assertion choices; the verdict returned by
// lang.GlobalUnitTests.Run and the exit number of `test run NAME` are compared with an oracle that
// evaluates every assertion of the plan on the known outputs.
package unittest

import (
	"encoding/json"
	"fmt"
	"regexp"
	"sort"
	"strconv"
	"strings"

	"verif/mx"
	"verif/vlib"

	"github.com/lmorg/murex/lang"
	"github.com/lmorg/murex/lang/types"
)

// ---------------------------------------------------------------------------------------------
// functions under test

type outSpec struct {
	text string
	dt   string
	kind string // "", "array", "map"
	n    int    // number of elements
}

// murex's data model: a `str` stream is a list of lines (its unmarshaller returns []string), so str
// output is an array of its lines; json output is whatever the document is.
var stdouts = []outSpec{
	{"", "str", "array", 0},
	{"a\n", "str", "array", 1},
	{`["a","b"]`, "json", "array", 2},
	{`{"k":1}`, "json", "map", 1},
	{`7`, "json", "", 0}, // neither an array nor a map
}
var stderrs = []string{"", "e\n"}
var exits = []int{0, 1, 3}

type fnSpec struct {
	out    outSpec
	stderr string
	exit   int
}

func fnByIndex(i int) fnSpec {
	return fnSpec{stdouts[i/(len(stderrs)*len(exits))], stderrs[(i/len(exits))%len(stderrs)], exits[i%len(exits)]}
}

const nFns = 5 * 2 * 3

func fnName(i int) string { return fmt.Sprintf("vt31q%d", i) }

func setup(c *vlib.Ctx) {
	mx.Init(c.WorkDir)
	// vsayq I: behaves as function number I: fixed stdout (with its data type), stderr and exit number
	lang.DefineFunction("vsayq", func(p *lang.Process) error {
		i, err := p.Parameters.Int(0)
		if err != nil || i < 0 || i >= nFns {
			return fmt.Errorf("vsayq: bad index")
		}
		f := fnByIndex(i)
		p.Stdout.SetDataType(f.out.dt)
		if f.out.text != "" {
			p.Stdout.Write([]byte(f.out.text))
		}
		if f.stderr != "" {
			p.Stderr.Write([]byte(f.stderr))
		}
		p.ExitNum = f.exit
		return nil
	}, types.Any)
	// vutrunq NAME: the boolean returned by lang.GlobalUnitTests.Run
	lang.DefineFunction("vutrunq", func(p *lang.Process) error {
		name, _ := p.Parameters.String(0)
		ok := lang.GlobalUnitTests.Run(p, name)
		p.ExitNum = 0
		_, err := p.Stdout.Writeln([]byte("\nverdict=" + strconv.FormatBool(ok)))
		return err
	}, types.String)
	// vutallq: runs every registered plan (`*`) and prints the overall verdict and the results table
	lang.DefineFunction("vutallq", func(p *lang.Process) error {
		ok := lang.GlobalUnitTests.Run(p, "*")
		p.ExitNum = 0
		b, _ := json.Marshal(p.Tests.Results.Dump())
		_, err := p.Stdout.Writeln([]byte("\nverdict=" + strconv.FormatBool(ok) + "\nresults=" + string(b)))
		return err
	}, types.String)
	for i := 0; i < nFns; i++ {
		r := mx.Run(fmt.Sprintf("function %s { vsayq %d }", fnName(i), i), nil)
		if r.Exit != 0 || r.Stderr != "" {
			c.HarnessError("cannot define function: %v", r)
		}
	}
	// sanity: the functions really behave as specified
	for i := 0; i < nFns; i++ {
		f := fnByIndex(i)
		r := mx.Run(fnName(i), nil)
		if r.Stdout != f.out.text || r.Stderr != f.stderr || r.Exit != f.exit {
			c.HarnessError("function %d behaves as %v, specified %+v", i, r, f)
		}
	}
}

// ---------------------------------------------------------------------------------------------
// plans

type dim struct {
	name    string
	choices []string
}

var dims = []dim{
	{"StdoutMatch", []string{"none", "equal", "different"}},
	{"StdoutRegex", []string{"none", "match", "no-match", "invalid"}},
	{"StdoutType", []string{"none", "right", "wrong"}},
	{"StdoutIsArray", []string{"none", "true"}},
	{"StdoutIsMap", []string{"none", "true"}},
	{"StdoutGreaterThan", []string{"none", "below-length", "above-length"}},
	{"ExitNum", []string{"actual", "other"}},
	{"StderrMatch", []string{"none", "equal", "different"}},
	{"StderrRegex", []string{"none", "match", "no-match", "invalid"}},
	// set-up and clear-down blocks: they run, their exit numbers are reported as information only and must
	// never take the place of the function's own exit number, stdout or stderr
	{"PreBlock", []string{"none", "fails"}},
	{"PostBlock", []string{"none", "succeeds", "fails"}},
}

// baseline choice per dimension (quick tier varies at most 4 dimensions away from it). StderrMatch's
// baseline is "equal" so that the baseline plan passes for functions that write to stderr too.
var baseline = []int{0, 0, 0, 0, 0, 0, 0, 1, 0, 0, 0}

func otherType(dt string) string {
	if dt == "json" {
		return "str"
	}
	return "json"
}

// buildPlan returns the plan for the choice vector, or ok=false when the combination does not exist
// for this function (e.g. "equal to an empty stdout" is the same plan as "none").
func buildPlan(f fnSpec, ch []int) (plan map[string]any, ok bool) {
	plan = map[string]any{}
	for d, x := range ch {
		choice := dims[d].choices[x]
		switch dims[d].name {
		case "StdoutMatch", "StderrMatch":
			actual := f.out.text
			if dims[d].name == "StderrMatch" {
				actual = f.stderr
			}
			switch choice {
			case "equal":
				if actual == "" {
					return nil, false // identical to "none"
				}
				plan[dims[d].name] = actual
			case "different":
				plan[dims[d].name] = actual + "zz"
			}
		case "StdoutRegex", "StderrRegex":
			actual := f.out.text
			if dims[d].name == "StderrRegex" {
				actual = f.stderr
			}
			switch choice {
			case "match":
				plan[dims[d].name] = "^" + regexp.QuoteMeta(actual) + "$"
			case "no-match":
				plan[dims[d].name] = "^zz$"
			case "invalid":
				plan[dims[d].name] = "a("
			}
		case "StdoutType":
			switch choice {
			case "right":
				plan["StdoutType"] = f.out.dt
			case "wrong":
				plan["StdoutType"] = otherType(f.out.dt)
			}
		case "StdoutIsArray", "StdoutIsMap":
			if choice == "true" {
				plan[dims[d].name] = true
			}
		case "StdoutGreaterThan":
			switch choice {
			case "below-length":
				// only defined for collections, and "length-1" must still be a present (non-zero) assertion
				if f.out.kind == "" || f.out.n-1 < 1 {
					return nil, false
				}
				plan["StdoutGreaterThan"] = f.out.n - 1
			case "above-length":
				if f.out.kind == "" {
					return nil, false
				}
				plan["StdoutGreaterThan"] = f.out.n + 1
			}
		case "PreBlock", "PostBlock":
			switch choice {
			case "succeeds":
				plan[dims[d].name] = "true"
			case "fails":
				plan[dims[d].name] = "false"
			}
		case "ExitNum":
			n := f.exit
			if choice == "other" {
				n++
			}
			if n != 0 {
				plan["ExitNum"] = n
			}
		}
	}
	return plan, true
}

// ---------------------------------------------------------------------------------------------
// oracle: evaluates the plan itself on the known outputs

type verdict struct {
	pass     bool
	present  int      // assertions present besides the exit number
	failing  []string // names of the assertions that do not hold
	asserted bool
	why      string
}

func str(plan map[string]any, k string) string { s, _ := plan[k].(string); return s }
func num(plan map[string]any, k string) int {
	switch t := plan[k].(type) {
	case int:
		return t
	case float64:
		return int(t)
	}
	return 0
}
func flag(plan map[string]any, k string) bool { b, _ := plan[k].(bool); return b }

func oracle(f fnSpec, plan map[string]any) verdict {
	v := verdict{asserted: true}
	fail := func(name string) { v.failing = append(v.failing, name) }
	if num(plan, "ExitNum") != f.exit {
		fail("ExitNum")
	}
	if flag(plan, "StdoutIsArray") {
		v.present++
		if f.out.kind != "array" {
			fail("StdoutIsArray")
		}
	}
	if flag(plan, "StdoutIsMap") {
		v.present++
		if f.out.kind != "map" {
			fail("StdoutIsMap")
		}
	}
	if n := num(plan, "StdoutGreaterThan"); n > 0 {
		v.present++
		switch {
		case f.out.kind == "":
			return verdict{why: "length of an output that is neither an array nor a map"}
		case n == f.out.n:
			return verdict{why: "StdoutGreaterThan equal to the length (strictly greater or greater-or-equal?)"}
		case f.out.n < n:
			fail("StdoutGreaterThan")
		}
	}
	if s := str(plan, "StdoutMatch"); s != "" {
		v.present++
		if s != f.out.text {
			fail("StdoutMatch")
		}
	}
	regex := func(name, actual string) {
		if s := str(plan, name); s != "" {
			v.present++
			rx, err := regexp.Compile(s)
			if err != nil || !rx.MatchString(actual) {
				fail(name)
			}
		}
	}
	regex("StdoutRegex", f.out.text)
	if s := str(plan, "StdoutType"); s != "" {
		v.present++
		if s != f.out.dt {
			fail("StdoutType")
		}
	}
	// stderr: an explicit StderrMatch must equal stderr; a plan with neither StderrMatch nor StderrRegex
	// asserts that nothing was written to stderr (murex's deliberate rule: the zero value of
	// StderrMatch is the empty string, cf. /repo/behavioural/quiet_flag.mx `StderrMatch: ""`)
	if s := str(plan, "StderrMatch"); s != "" {
		v.present++
		if s != f.stderr {
			fail("StderrMatch")
		}
	} else if str(plan, "StderrRegex") == "" && f.stderr != "" {
		fail("StderrMatch(implicit empty)")
	}
	regex("StderrRegex", f.stderr)
	v.pass = len(v.failing) == 0
	return v
}

// ---------------------------------------------------------------------------------------------
// one case

type witnessT struct {
	Fn   int            `json:"fn"`
	Out  string         `json:"stdout"`
	Err  string         `json:"stderr"`
	Exit int            `json:"exit"`
	Plan map[string]any `json:"plan"`
}

const block = "config set test enabled true\nconfig set test auto-report false\ntest unit function $vname $vplan\nvutrunq $vname\ntest run $vname\nexitnum"

func one(c *vlib.Ctx, fi int, plan map[string]any, sample bool) {
	f := fnByIndex(fi)
	pj, _ := json.Marshal(plan) // map keys sorted: canonical
	wj, _ := json.Marshal(witnessT{fi, f.out.text, f.stderr, f.exit, plan})
	w := string(wj)
	exp := oracle(f, plan)

	lang.GlobalUnitTests = new(lang.UnitTests) // plans accumulate globally: start from none
	r := mx.Run(block, &mx.Opt{Vars: map[string]string{"vname": fnName(fi), "vplan": string(pj)}})

	outcome := "not-asserted"
	if exp.asserted {
		if exp.pass {
			outcome = fmt.Sprintf("passed (%d assertions besides exit number)", exp.present)
		} else {
			sort.Strings(exp.failing)
			outcome = "failed: " + strings.Join(exp.failing, "+")
		}
	}
	c.Eval(exp.present >= 2, outcome)
	if sample {
		c.Sample(map[string]any{"function": fmt.Sprintf("stdout=%q (%s) stderr=%q exit=%d", f.out.text, f.out.dt, f.stderr, f.exit), "plan": string(pj), "oracle": outcome})
	}
	if r.Hang {
		c.Violation("terminates", w, "caller still blocked after the ceiling\n"+vlib.Clip(r.HangStack, 500))
		return
	}
	if mx.HasPanicText(r.Stderr) || mx.HasPanicText(r.Stdout) {
		c.Violation("no-panic", w, vlib.Clip(r.String(), 1500))
		return
	}
	if !exp.asserted {
		c.Extra("not asserted: "+exp.why, 1)
		return
	}
	got, runExit := "", ""
	lines := strings.Split(strings.TrimSuffix(r.Stdout, "\n"), "\n")
	for _, l := range lines {
		if strings.HasPrefix(l, "verdict=") {
			got = strings.TrimPrefix(l, "verdict=")
		}
	}
	if len(lines) > 0 {
		runExit = lines[len(lines)-1]
	}
	if got == "" || (runExit != "0" && runExit != "1") {
		c.HarnessError("cannot read the verdict from %v (witness %s)", r, w)
	}
	want := strconv.FormatBool(exp.pass)
	if got != want {
		c.Violation("verdict", w, fmt.Sprintf("GlobalUnitTests.Run returned %s, the plan's assertions give %s (not holding: %v)\nreport: %s", got, want, exp.failing, vlib.Clip(stripANSI(r.Stdout), 900)))
	}
	wantExit := "1"
	if exp.pass {
		wantExit = "0"
	}
	if runExit != wantExit {
		c.Violation("test-run-exit", w, fmt.Sprintf("`test run` exit number %s, expected %s (assertions not holding: %v)", runExit, wantExit, exp.failing))
	}
}

var ansi = regexp.MustCompile("\x1b\\[[0-9;]*m")

func stripANSI(s string) string { return ansi.ReplaceAllString(s, "") }

// enumeratePlans: every choice vector (thorough), or those at most maxDev dimensions away from the
// baseline (quick).
func enumeratePlans(maxDev int, fn func(ch []int) bool) {
	radix := make([]int, len(dims))
	for i, d := range dims {
		radix[i] = len(d.choices)
	}
	vlib.Product(radix, func(ch []int) bool {
		if maxDev >= 0 {
			dev := 0
			for i, x := range ch {
				if x != baseline[i] {
					dev++
				}
			}
			if dev > maxDev {
				return true
			}
		}
		return fn(ch)
	})
}

// multi: several plans registered in one registry and run together (`test run *`): every plan is
// executed and reported on its own merits, whatever the plans before it did.
func multi(c *vlib.Ctx) {
	fns := []int{0, 1, 2} // three different functions
	perms := [][]int{{0, 1, 2}, {0, 2, 1}, {1, 0, 2}, {1, 2, 0}, {2, 0, 1}, {2, 1, 0}}
	for mask := 0; mask < 8; mask++ {
		for pi, perm := range perms {
			if !c.Next() {
				continue
			}
			lang.GlobalUnitTests = new(lang.UnitTests)
			want := map[string]bool{}
			var wit []string
			prog := "config set test enabled true\nconfig set test auto-report false\n"
			vars := map[string]string{}
			for k, idx := range perm {
				fi := fns[idx]
				f := fnByIndex(fi)
				pass := mask&(1<<idx) != 0
				exit := f.exit
				if !pass {
					exit = f.exit + 1
				}
				plan := map[string]any{"ExitNum": exit}
				if f.stderr != "" {
					plan["StderrMatch"] = f.stderr
				}
				pj, _ := json.Marshal(plan)
				vars[fmt.Sprintf("vname%d", k)] = fnName(fi)
				vars[fmt.Sprintf("vplan%d", k)] = string(pj)
				prog += fmt.Sprintf("test unit function $vname%d $vplan%d\n", k, k)
				want[fnName(fi)] = pass
				wit = append(wit, fmt.Sprintf("%s:%v", fnName(fi), pass))
			}
			prog += "vutallq"
			w := "multi-plan run, registration order " + strings.Join(wit, " ")
			r := mx.Run(prog, &mx.Opt{Vars: vars})
			c.Eval(mask != 7 && mask != 0, fmt.Sprintf("multi-plan mask=%d perm=%d", mask, pi))
			if r.Hang || mx.HasPanicText(r.Stderr) {
				c.Violation("terminates", w, vlib.Clip(r.String(), 800))
				continue
			}
			var results []struct {
				Status string
				Exec   string
			}
			verdict := ""
			for _, l := range strings.Split(r.Stdout, "\n") {
				if strings.HasPrefix(l, "verdict=") {
					verdict = strings.TrimPrefix(l, "verdict=")
				}
				if strings.HasPrefix(l, "results=") {
					json.Unmarshal([]byte(strings.TrimPrefix(l, "results=")), &results)
				}
			}
			if verdict == "" {
				c.HarnessError("cannot read the multi-plan verdict from %v", r)
			}
			if verdict != strconv.FormatBool(mask == 7) {
				c.Violation("verdict", w, fmt.Sprintf("running every plan returned %s, expected %v", verdict, mask == 7))
			}
			for name, pass := range want {
				passed, failed := false, false
				for _, x := range results {
					if x.Exec == name {
						passed = passed || strings.EqualFold(x.Status, "PASSED")
						failed = failed || strings.EqualFold(x.Status, "FAILED")
					}
				}
				switch {
				case pass && (!passed || failed):
					c.Violation("verdict", w, fmt.Sprintf("plan of %s holds but is reported passed=%v failed=%v (results %s)", name, passed, failed, vlib.Clip(r.Stdout, 600)))
				case !pass && !failed:
					c.Violation("verdict", w, fmt.Sprintf("plan of %s does not hold but no failure is reported for it (results %s)", name, vlib.Clip(r.Stdout, 600)))
				}
			}
		}
	}
}

func run(c *vlib.Ctx) {
	setup(c)
	multi(c)
	maxDev := 4
	if !c.Quick() {
		maxDev = -1
	}
	n := 0
	for fi := 0; fi < nFns; fi++ {
		f := fnByIndex(fi)
		stop := false
		enumeratePlans(maxDev, func(ch []int) bool {
			plan, ok := buildPlan(f, ch)
			if !ok {
				return true
			}
			if !c.Next() {
				return true
			}
			n++
			if n&0x3f == 0 && c.Expired() {
				stop = true
				return false
			}
			one(c, fi, plan, n%997 == 11)
			return true
		})
		if stop {
			return
		}
	}
}

func replay(c *vlib.Ctx, w string) {
	setup(c)
	var wt witnessT
	if err := json.Unmarshal([]byte(w), &wt); err != nil || wt.Fn < 0 || wt.Fn >= nFns {
		fmt.Println("cannot parse witness:", err)
		return
	}
	one(c, wt.Fn, wt.Plan, false)
}

func init() {
	vlib.Register(&vlib.Check{
		ID: "C31", Engine: "E2",
		Rule:   "functions = {stdout: empty(str), a\\n(str), [\"a\",\"b\"](json), {\"k\":1}(json), 7(json)} x {stderr: empty, e\\n} x {exit 0,1,3} (30, each a one-command function with exactly that behaviour); plans = product of StdoutMatch {none,equal,different} x StdoutRegex {none,match,no-match,invalid} x StdoutType {none,right,wrong} x StdoutIsArray x StdoutIsMap x StdoutGreaterThan {none,length-1,length+1} x ExitNum {actual,other} x StderrMatch {none,equal,different} x StderrRegex {none,match,no-match,invalid} x PreBlock {none, `false`} x PostBlock {none, `true`, `false`} (blocks that must not influence the verdict), combinations that do not exist for a function (equality with an empty stream, lengths of non-collections) dropped; thorough = the full product, quick = every plan differing from the all-pass baseline in at most 4 dimensions. Per case the plan is registered with `test unit function NAME <json>` (unit-test registry emptied first), then lang.GlobalUnitTests.Run (boolean) and `test run NAME` (exit number) are observed with test enabled and auto-report off; oracle: passed <=> every assertion present in the plan holds on the known outputs (the oracle evaluates the plan JSON itself). PLUS multi-plan runs: three functions, every pass/fail assignment and every registration order, all plans run together with `*`: each plan must be reported on its own merits. Non-trivial = plans with at least two assertions besides the exit number (their conjunction decides the verdict)",
		Run:    run,
		Replay: replay,
		Assumptions: []string{
			"ExitNum is always asserted (its zero value means exit 0), and a plan with neither StderrMatch nor StderrRegex asserts an empty stderr (zero value of StderrMatch; murex's own behavioural tests rely on it); a StderrRegex alone waives that",
			"a str stream counts as an array of its lines (murex's data model: the str unmarshaller returns the list of lines); a json scalar is neither array nor map",
			"StdoutGreaterThan equal to the length is not generated (name says greater-than, implementation is greater-or-equal) and the length of a scalar is not asserted",
			"functions end through their last command's exit number, not `return` (a `return` inside a unit-tested function also cancels the caller; outside this property)",
			"Stdout/StderrBlock, Pre/PostBlocks with output, Stdin, Parameters, StderrType/IsArray/IsMap are not varied",
		},
	})
}
