// Package flags: C24 — parameters.ParseFlags against a reference parser written from the statement,
// and the `args` builtin exposing the same result. Bounded-exhaustive: every well-formed flag table
// over a fixed universe x every argument list up to a length bound over a 12-token alphabet.
package flags

import (
	"encoding/json"
	"fmt"
	"reflect"
	"runtime"
	"sort"
	"strings"
	"time"

	"verif/mx"
	"verif/vlib"

	"github.com/lmorg/murex/lang"
	"github.com/lmorg/murex/lang/parameters"
)

// ---------------------------------------------------------------------------------------------
// space

type decl struct{ name, val string }

// universe of declarations; an alias is only allowed when its target is declared (no cycles possible)
var universe = []decl{{"--s", "str"}, {"--i", "int"}, {"--n", "num"}, {"--b", "bool"}, {"-a", "--s"}, {"-x", "-a"}}

var tokens = []string{"--s", "--i", "--n", "--b", "-a", "-x", "--zz", "v", "5", "x5", "-5", "--"}

var valueTokens = map[string]bool{"v": true, "5": true, "x5": true, "-5": true}

type table struct {
	flags map[string]string
	add   bool
	text  string // canonical
}

func tables() []table {
	var out []table
	for mask := 0; mask < 1<<len(universe); mask++ {
		m := map[string]string{}
		var parts []string
		for i, d := range universe {
			if mask&(1<<i) != 0 {
				m[d.name] = d.val
				parts = append(parts, d.name+":"+d.val)
			}
		}
		ok := true
		for _, v := range m {
			if strings.HasPrefix(v, "-") && m[v] == "" {
				ok = false
			}
		}
		if !ok {
			continue
		}
		for _, add := range []bool{false, true} {
			out = append(out, table{m, add, fmt.Sprintf("flags=%s add=%v", strings.Join(parts, ","), add)})
		}
	}
	return out
}

func mkTable(flags map[string]string, add bool) table {
	var parts []string
	for _, d := range universe {
		if flags[d.name] != "" {
			parts = append(parts, d.name+":"+d.val)
		}
	}
	return table{flags, add, fmt.Sprintf("flags=%s add=%v", strings.Join(parts, ","), add)}
}

func witness(t table, list []string) string {
	return t.text + " args=" + strings.Join(list, ",")
}

func parseWitness(w string) (t table, list []string, ok bool) {
	t.flags = map[string]string{}
	for _, f := range strings.Fields(w) {
		k, v, found := strings.Cut(f, "=")
		if !found {
			continue
		}
		switch k {
		case "flags":
			if v != "" {
				for _, d := range strings.Split(v, ",") {
					n, x, _ := strings.Cut(d, ":")
					t.flags[n] = x
				}
			}
			ok = true
		case "add":
			t.add = v == "true"
		case "args":
			if v != "" {
				list = strings.Split(v, ",")
			}
		}
	}
	t = mkTable(t.flags, t.add)
	return
}

// ---------------------------------------------------------------------------------------------
// reference parser (from the statement)

type expect struct {
	asserted    bool
	why         string // reason when not asserted
	err         bool
	flags       map[string]any
	additional  []string
	usedFlag    bool // a declared flag or `--` took part (non-triviality)
	usedAlias   bool
	mustReport  string // ill-formed lists: the value flag that must be reported if the call succeeds
	prefixFlags map[string]any
}

func reference(t table, list []string) expect {
	e := expect{asserted: true, flags: map[string]any{}, additional: []string{}}
	afterDD := false
	seen := map[string]string{} // resolved flag -> raw value text already bound
	for i := 0; i < len(list); i++ {
		tok := list[i]
		if afterDD {
			e.additional = append(e.additional, tok)
			continue
		}
		if tok == "--" {
			e.usedFlag = true
			if t.add {
				afterDD = true
				continue
			}
			if i == len(list)-1 {
				// `--` with nothing after it while additional parameters are not allowed: statement silent
				return expect{why: "trailing -- with additional disallowed", usedFlag: true}
			}
			e.err = true
			return e
		}
		if !strings.HasPrefix(tok, "-") {
			if !t.add {
				e.err = true
				return e
			}
			e.additional = append(e.additional, tok)
			continue
		}
		// a flag: follow aliases to the target
		name := tok
		for hops := 0; strings.HasPrefix(t.flags[name], "-") && hops < 8; hops++ {
			name = t.flags[name]
			e.usedAlias = true
		}
		typ := t.flags[name]
		if typ == "" {
			e.err = true // undeclared flag
			return e
		}
		e.usedFlag = true
		if typ == "bool" {
			e.flags[name] = true
			continue
		}
		if i+1 >= len(list) {
			e.err = true // value flag without a value
			return e
		}
		val := list[i+1]
		if !valueTokens[val] {
			// ill-formed: a value flag followed by something that is not a plain value token
			return expect{why: "ill-formed (value flag not followed by a value token)", usedFlag: true, usedAlias: e.usedAlias, mustReport: mustReportIf(t, name, val), prefixFlags: e.flags}
		}
		i++
		if prev, dup := seen[name]; dup && prev != val {
			return expect{why: "same flag given twice with different values", usedFlag: true, usedAlias: e.usedAlias}
		}
		seen[name] = val
		switch typ {
		case "str":
			e.flags[name] = val
		case "int":
			switch val {
			case "5":
				e.flags[name] = 5
			case "-5":
				e.flags[name] = -5
			default:
				e.err = true
				return e
			}
		case "num":
			switch val {
			case "5":
				e.flags[name] = float64(5)
			case "-5":
				e.flags[name] = float64(-5)
			default:
				e.err = true
				return e
			}
		}
	}
	return e
}

// mustReportIf: a value flag followed by a dash-token that is neither `--` nor a declared flag/alias is
// unambiguous enough: that token can only be the flag's value, so a successful parse must report the flag.
// (Followed by a *declared* flag murex drops the value flag silently; the statement does not say which of
// the two readings is right, so that case stays unasserted.)
func mustReportIf(t table, name, next string) string {
	if next == "--" || t.flags[next] != "" {
		return ""
	}
	return name
}

// ---------------------------------------------------------------------------------------------
// real code

type apiResult struct {
	flags      map[string]any
	additional []string
	err        string
	isErr      bool
	panicked   string
}

func callAPI(t table, list []string) (r apiResult) {
	defer func() {
		if x := recover(); x != nil {
			buf := make([]byte, 4096)
			buf = buf[:runtime.Stack(buf, false)]
			r.panicked = fmt.Sprintf("%v\n%s", x, vlib.Clip(string(buf), 1200))
		}
	}()
	fl := make(map[string]string, len(t.flags))
	for k, v := range t.flags {
		fl[k] = v
	}
	params := append([]string{}, list...) // ParseFlags rewrites aliases in place
	f, add, err := parameters.ParseFlags(params, &parameters.Arguments{AllowAdditional: t.add, Flags: fl})
	if err != nil {
		r.isErr = true
		r.err = err.Error()
		return
	}
	r.flags = f.GetMap()
	r.additional = add
	return
}

func errClass(msg string) string {
	switch {
	case strings.Contains(msg, "flag not recognized"):
		return "flag-not-recognized"
	case strings.Contains(msg, "parameter found without a flag"):
		return "parameter-without-flag"
	case strings.Contains(msg, "flag found without value"):
		return "flag-without-value"
	case strings.Contains(msg, "is not a"):
		return "value-not-convertible"
	}
	return "other-error"
}

func fmtFlags(m map[string]any) string {
	keys := make([]string, 0, len(m))
	for k := range m {
		keys = append(keys, k)
	}
	sort.Strings(keys)
	var b strings.Builder
	b.WriteString("{")
	for i, k := range keys {
		if i > 0 {
			b.WriteString(" ")
		}
		fmt.Fprintf(&b, "%s=%T(%v)", k, m[k], m[k])
	}
	b.WriteString("}")
	return b.String()
}

// ---------------------------------------------------------------------------------------------
// the `args` builtin

type argsObj struct {
	Self       string
	Flags      map[string]any
	Additional []string
	Error      string
}

const argsBlock = "args vr $vspec\nexitnum\nout $vr"

type argsState struct {
	broken map[string]bool // error classes for which `args` was seen not to return in this worker
}

const argsCeiling = 3 * time.Second

func specJSON(t table) string {
	b, _ := json.Marshal(map[string]any{"AllowAdditional": t.add, "Flags": t.flags})
	return string(b)
}

func runArgs(t table, list []string) mx.Result {
	params := append([]string{}, list...)
	return mx.Run(argsBlock, &mx.Opt{
		Vars:    map[string]string{"vspec": specJSON(t)},
		Ceiling: argsCeiling,
		Setup:   func(f *lang.Fork) { f.Parameters.DefineParsed(params) },
	})
}

// checkArgs compares what `args` exposes with the real ParseFlags result for the same input.
func checkArgs(c *vlib.Ctx, st *argsState, t table, list []string, api apiResult) string {
	w := "args " + witness(t, list)
	class := ""
	if api.isErr {
		class = errClass(api.err)
		if st.broken[class] {
			c.Extra("args not run (its error class "+class+" was already seen to crash the builtin in this worker)", 1)
			return "args-skipped"
		}
	}
	r := runArgs(t, list)
	if r.Hang {
		if api.isErr {
			st.broken[class] = true
			c.Violation("args-returns", "args class="+class+" "+witness(t, list), "`args` did not return (caller still blocked after "+argsCeiling.String()+"); ParseFlags error was: "+api.err+"\n"+vlib.Clip(r.HangStack, 600))
		} else {
			c.Violation("args-returns", w, "`args` did not return on a list that ParseFlags accepts\n"+vlib.Clip(r.HangStack, 600))
		}
		return "args-hang"
	}
	if mx.HasPanicText(r.Stderr) || mx.HasPanicText(r.Stdout) {
		c.Violation("args-no-panic", w, r.String())
		return "args-panic"
	}
	exitLine, rest, _ := strings.Cut(r.Stdout, "\n")
	var obj argsObj
	if err := json.Unmarshal([]byte(strings.TrimSpace(rest)), &obj); err != nil {
		c.Violation("args-sets-variable", w, fmt.Sprintf("the variable written by args is not the documented JSON object: %v; run: %s", err, r.String()))
		return "args-bad-json"
	}
	if api.isErr {
		if obj.Error != api.err {
			c.Violation("args-error-text", w, fmt.Sprintf("Error=%q, ParseFlags error=%q", obj.Error, api.err))
		}
		if exitLine != "1" {
			c.Violation("args-exit", w, fmt.Sprintf("exit number after a parse error = %q, expected 1 (non-zero)", exitLine))
		}
		return "args-error-reported"
	}
	if obj.Error != "" || exitLine != "0" {
		c.Violation("args-exit", w, fmt.Sprintf("ParseFlags succeeded but args reports Error=%q exit=%s", obj.Error, exitLine))
	}
	// numbers come back through JSON: compare on the JSON form of the API result
	wantFlags, _ := json.Marshal(api.flags)
	gotFlags, _ := json.Marshal(obj.Flags)
	if obj.Flags == nil {
		gotFlags = []byte("{}")
	}
	if string(wantFlags) != string(gotFlags) {
		c.Violation("args-flags", w, fmt.Sprintf("args Flags=%s, ParseFlags flags=%s", gotFlags, wantFlags))
	}
	if !sameList(obj.Additional, api.additional) {
		c.Violation("args-additional", w, fmt.Sprintf("args Additional=%q, ParseFlags additional=%q", obj.Additional, api.additional))
	}
	return "args-ok"
}

func sameList(a, b []string) bool {
	if len(a) != len(b) {
		return false
	}
	for i := range a {
		if a[i] != b[i] {
			return false
		}
	}
	return true
}

// representatives: one fixed, smallest case per error class, run by every worker before the
// enumeration so that (a) the witness of a crash is stable and minimal and (b) the rest of that
// class is not run through `args` when it would only hang again.
var representatives = []struct {
	class string
	flags map[string]string
	list  []string
}{
	{"flag-not-recognized", map[string]string{"--s": "str"}, []string{"--zz"}},
	{"parameter-without-flag", map[string]string{"--s": "str"}, []string{"v"}},
	{"flag-without-value", map[string]string{"--s": "str"}, []string{"--s"}},
	{"value-not-convertible", map[string]string{"--i": "int"}, []string{"--i", "v"}},
}

func probeRepresentatives(c *vlib.Ctx, st *argsState) {
	for _, rep := range representatives {
		t := mkTable(rep.flags, false)
		api := callAPI(t, rep.list)
		if !api.isErr || errClass(api.err) != rep.class {
			c.HarnessError("representative %v of class %s gives %+v", rep.list, rep.class, api)
		}
		var r mx.Result
		crash := mx.CaptureFD2(func() { r = runArgs(t, rep.list) })
		if r.Hang || strings.Contains(crash, "Murex has crashed") {
			st.broken[rep.class] = true
			d := "`args` did not return"
			if !r.Hang {
				d = "`args` crashed"
			}
			if strings.Contains(crash, "Murex has crashed") {
				d += "; crash report on fd 2: " + crashSummary(crash)
			}
			c.Violation("args-returns", "args class="+rep.class+" "+witness(t, rep.list), d+"; ParseFlags error was: "+api.err)
		}
	}
}

func crashSummary(s string) string {
	var keep []string
	for _, l := range strings.Split(s, "\n") {
		l = strings.TrimSpace(l)
		if strings.HasPrefix(l, "Error:") || strings.Contains(l, "murex/lang/parameters.") || strings.Contains(l, "murex/builtins/") {
			keep = append(keep, l)
		}
	}
	return vlib.Clip(strings.Join(keep, " | "), 500)
}

// ---------------------------------------------------------------------------------------------

func init() {
	vlib.Register(&vlib.Check{
		ID: "C24", Engine: "E2",
		Rule:   "flag tables = all 32 well-formed subsets of {--s:str,--i:int,--n:num,--b:bool,-a->--s,-x->-a} (alias targets declared) x AllowAdditional in {false,true}; argument lists = every sequence of up to L tokens over {--s,--i,--n,--b,-a,-x,--zz,v,5,x5,-5,--} (API: L=4 quick / 5 thorough; through the `args` builtin: L=3 quick / 4 thorough). Each case calls parameters.ParseFlags and compares flags (name, Go type, value), additional and error/no-error with a reference parser written from the statement; lists that the statement does not define (value flag followed by a flag-like token or `--`, the same flag given twice with different values, a trailing `--` when additional is disallowed) are only required not to panic and are counted separately. The `args` builtin is run in a function scope holding the list as its parameters and must return, set the variable to the same flags/additional, or set Error to the ParseFlags error text with exit number 1. Non-trivial = lists in which at least one flag declared in the table, or `--`, takes part (lists of bare values / undeclared flags only are trivial)",
		Run:    run,
		Replay: replay,
		Assumptions: []string{
			"flag universe, token alphabet and length bounds as stated; IgnoreInvalidFlags and StrictFlagPlacement stay false (not mentioned by the statement)",
			"a standalone token starting with '-' that is not declared is an undeclared flag (hence an error), including -5 outside a value position",
			"`args` is run through every list only while its error class has not been seen to block the caller in this worker; one fixed representative per error class is always run",
		},
	})
}

func run(c *vlib.Ctx) {
	mx.Init(c.WorkDir)
	st := &argsState{broken: map[string]bool{}}
	if r := mx.Run("out ok", nil); r.Stdout != "ok\n" {
		c.HarnessError("in-process seam not working: %v", r)
	}
	probeRepresentatives(c, st)
	apiLen, argsLen := 4, 3
	if !c.Quick() {
		apiLen, argsLen = 5, 4
	}
	tabs := tables()
	n := 0
	vlib.Seqs(len(tokens), 0, apiLen, func(idx []int) bool {
		list := make([]string, len(idx))
		for i, x := range idx {
			list[i] = tokens[x]
		}
		for ti := range tabs {
			if !c.Next() {
				continue
			}
			n++
			if n&0x3ff == 0 && c.Expired() {
				return false
			}
			one(c, st, tabs[ti], list, len(list) <= argsLen, n)
		}
		return true
	})
}

func one(c *vlib.Ctx, st *argsState, t table, list []string, withArgs bool, n int) {
	w := witness(t, list)
	exp := reference(t, list)
	api := callAPI(t, list)
	outcome := ""
	switch {
	case api.panicked != "":
		c.Violation("ParseFlags-no-panic", w, api.panicked)
		outcome = "api-panic"
	case !exp.asserted:
		c.Extra("not asserted: "+exp.why, 1)
		// even where the statement does not define the result: a declared value flag that was given
		// and followed by a token cannot silently vanish from a successful result ("reports each
		// declared flag ... and otherwise reports a clean error")
		if exp.mustReport != "" && !api.isErr {
			if _, ok := api.flags[exp.mustReport]; !ok {
				c.Violation("flag-not-dropped", w, fmt.Sprintf("ParseFlags succeeded with flags=%s additional=%q: the declared flag %s was given (followed by a token) and is neither reported nor rejected", fmtFlags(api.flags), api.additional, exp.mustReport))
			}
		}
		if api.isErr {
			outcome = "undefined-list/error"
		} else {
			outcome = "undefined-list/result"
		}
	case exp.err:
		if !api.isErr {
			c.Violation("clean-error", w, fmt.Sprintf("ParseFlags returned flags=%s additional=%q, the statement requires an error", fmtFlags(api.flags), api.additional))
		}
		outcome = "error/" + errClass(api.err)
	default:
		outcome = fmt.Sprintf("ok flags=%d additional=%d", len(exp.flags), min(len(exp.additional), 3))
		if exp.usedAlias {
			outcome += " alias"
		}
		if api.isErr {
			c.Violation("result", w, fmt.Sprintf("ParseFlags error %q, expected flags=%s additional=%q", api.err, fmtFlags(exp.flags), exp.additional))
		} else {
			if !reflect.DeepEqual(api.flags, exp.flags) {
				c.Violation("flags", w, fmt.Sprintf("flags=%s expected %s", fmtFlags(api.flags), fmtFlags(exp.flags)))
			}
			if !sameList(api.additional, exp.additional) {
				c.Violation("additional", w, fmt.Sprintf("additional=%q expected %q", api.additional, exp.additional))
			}
		}
	}
	if withArgs && api.panicked == "" {
		outcome += " | " + checkArgs(c, st, t, list, api)
	}
	c.Eval(exp.usedFlag, outcome)
	if !sampled[outcome] && (strings.HasPrefix(outcome, "ok flags=2") || strings.HasPrefix(outcome, "ok flags=1 additional=1 alias") || strings.HasPrefix(outcome, "error/value") || strings.HasPrefix(outcome, "undefined-list/result")) {
		sampled[outcome] = true
		c.Sample(map[string]any{"case": w, "flags": fmtFlags(api.flags), "additional": api.additional, "error": api.err, "asserted": exp.asserted, "outcome": outcome})
	}
}

var sampled = map[string]bool{}

func replay(c *vlib.Ctx, w string) {
	mx.Init(c.WorkDir)
	st := &argsState{broken: map[string]bool{}}
	viaArgs := strings.HasPrefix(w, "args ")
	t, list, ok := parseWitness(w)
	if !ok {
		fmt.Println("cannot parse witness")
		return
	}
	if strings.HasPrefix(w, "args class=") {
		// a representative: same oracle as the probe
		api := callAPI(t, list)
		var r mx.Result
		crash := mx.CaptureFD2(func() { r = runArgs(t, list) })
		if r.Hang || strings.Contains(crash, "Murex has crashed") {
			class := strings.TrimPrefix(strings.Fields(w)[1], "class=")
			c.Violation("args-returns", "args class="+class+" "+witness(t, list), "`args` did not return; "+crashSummary(crash)+"; ParseFlags error was: "+api.err)
		}
		return
	}
	one(c, st, t, list, viaArgs, 0)
}
