// Package literals: C36 — a %[ ] / %{ } literal written in JSON syntax builds the same value that
// encoding/json builds from the same text. JSON documents are enumerated exhaustively from a small
// grammar, printed in several layouts, assigned with `v = %…` in-process, and the JSON text murex
// keeps for v is decoded and compared with encoding/json's decoding of the literal's own text.
package literals

import (
	"encoding/json"
	"fmt"
	"reflect"
	"strings"

	"verif/checks/g1util"
	"verif/mx"
	"verif/vlib"
)

// ---------------------------------------------------------------------------------------------
// documents

type node struct {
	leaf string // JSON text of a scalar
	arr  bool
	obj  bool
	kids []*node
	keys []string // JSON text of the keys (objects)
}

// leaves: numbers, booleans, null and double-quoted strings without backslash, $, ~, ( and ).
// Strings that look like other types or contain the literal's own punctuation are the interesting ones.
var leavesFull = []string{
	`0`, `1`, `-1`, `1.5`, `1e3`, `true`, `false`, `null`, `""`, `"a"`, `"a b"`, `"é"`, `"["`, `"{"`, `","`, `":"`,
	`"]"`, `"}"`, `"1"`, `"true"`, `"null"`, `"#"`, `"'"`, `"1..3"`, `" "`, `"%[1]"`,
	`-0`, `1E3`, `1e-2`, `-1.5e+2`, `10`, `0.5`, `1.0`, `123456789`, `9007199254740993`, `1e21`,
}
var leavesMid = []string{`1`, `"a"`, `true`, `null`, `-1.5`, `""`}
var leavesTen = []string{`0`, `1.5`, `-1`, `true`, `false`, `null`, `""`, `"a b"`, `"1"`, `":"`}
var leavesFour = []string{`1`, `"a"`, `null`, `false`}
var leavesTwo = []string{`1`, `"a"`}

var posKeys = []string{`"a"`, `"b c"`, `"é"`}
var allKeys = []string{`"a"`, `"b c"`, `"é"`, `""`, `"1"`, `"true"`, `"null"`, `"["`, `"{"`, `":"`, `","`, `"#"`, `"a.b"`, `"A"`, `"}"`, `" "`}

func leafNodes(ls []string) []*node {
	out := make([]*node, len(ls))
	for i, l := range ls {
		out[i] = &node{leaf: l}
	}
	return out
}

// containers: every array and every object with 0..maxKids children drawn from elems (objects use the
// positional keys "a", "b c", "é").
func containers(elems []*node, maxKids int, fn func(n *node) bool) bool {
	for _, isObj := range []bool{false, true} {
		for k := 0; k <= maxKids; k++ {
			radix := make([]int, k)
			for i := range radix {
				radix[i] = len(elems)
			}
			ok := true
			emit := func(idx []int) bool {
				n := &node{arr: !isObj, obj: isObj}
				for i, x := range idx {
					n.kids = append(n.kids, elems[x])
					if isObj {
						n.keys = append(n.keys, posKeys[i])
					}
				}
				ok = fn(n)
				return ok
			}
			if k == 0 {
				emit(nil)
			} else {
				vlib.Product(radix, emit)
			}
			if !ok {
				return false
			}
		}
	}
	return true
}

func collect(elems []*node, maxKids int) []*node {
	var out []*node
	containers(elems, maxKids, func(n *node) bool { out = append(out, n); return true })
	return out
}

// ---------------------------------------------------------------------------------------------
// layouts

type layout int

const (
	compact layout = iota // [1,2] {"a":1}
	spaced                // [1, 2] {"a": 1}
	padded                // [ 1 , 2 ] { "a" : 1 }   (a space wherever JSON allows white space)
	multiline             // json.MarshalIndent style: one element per line
	nLayouts
)

var layoutNames = []string{"compact", "spaced", "padded", "multi-line"}

func (n *node) print(b *strings.Builder, l layout, depth int) {
	if !n.arr && !n.obj {
		b.WriteString(n.leaf)
		return
	}
	open, shut := "[", "]"
	if n.obj {
		open, shut = "{", "}"
	}
	if len(n.kids) == 0 {
		b.WriteString(open)
		if l == padded {
			b.WriteString(" ")
		}
		b.WriteString(shut)
		return
	}
	ind := func(d int) string { return "\n" + strings.Repeat("  ", d) }
	b.WriteString(open)
	switch l {
	case padded:
		b.WriteString(" ")
	case multiline:
		b.WriteString(ind(depth + 1))
	}
	for i, k := range n.kids {
		if i > 0 {
			switch l {
			case compact:
				b.WriteString(",")
			case spaced:
				b.WriteString(", ")
			case padded:
				b.WriteString(" , ")
			case multiline:
				b.WriteString("," + ind(depth+1))
			}
		}
		if n.obj {
			b.WriteString(n.keys[i])
			switch l {
			case compact:
				b.WriteString(":")
			case padded:
				b.WriteString(" : ")
			default:
				b.WriteString(": ")
			}
		}
		k.print(b, l, depth+1)
	}
	switch l {
	case padded:
		b.WriteString(" ")
	case multiline:
		b.WriteString(ind(depth))
	}
	b.WriteString(shut)
}

func (n *node) text(l layout) string {
	var b strings.Builder
	n.print(&b, l, 0)
	return b.String()
}

func (n *node) depth() int {
	d := 0
	for _, k := range n.kids {
		if x := k.depth(); x > d {
			d = x
		}
	}
	if n.arr || n.obj {
		return d + 1
	}
	return 0
}

func (n *node) size() int {
	s := 1
	for _, k := range n.kids {
		s += k.size()
	}
	return s
}

// tricky: the document contains a string that looks like another type or like the literal's own syntax.
func (n *node) tricky() bool {
	if !n.arr && !n.obj {
		if strings.HasPrefix(n.leaf, `"`) {
			s := strings.Trim(n.leaf, `"`)
			return s == "" || strings.ContainsAny(s, "[]{},:#'%. ") || s == "1" || s == "true" || s == "null"
		}
		return (n.leaf[0] == '-' || n.leaf[0] >= '0' && n.leaf[0] <= '9') && (strings.ContainsAny(n.leaf, "eE") || n.leaf == "-0" || len(n.leaf) > 9)
	}
	for i, k := range n.kids {
		if k.tricky() {
			return true
		}
		if n.obj && (&node{leaf: n.keys[i]}).tricky() {
			return true
		}
	}
	return false
}

// ---------------------------------------------------------------------------------------------
// enumeration

func enumDocs(quick bool, fn func(n *node, section string) bool) {
	full := leafNodes(leavesFull)
	cont := true
	emit := func(section string) func(n *node) bool {
		return func(n *node) bool { cont = fn(n, section); return cont }
	}
	// depth 1: containers of leaves
	k1 := 2
	if !quick {
		k1 = 3
	}
	if !containers(full, k1, emit("depth1")) {
		return
	}
	// keys: single-pair objects over every key x every leaf; duplicate keys (the last one wins in JSON)
	for _, k := range allKeys {
		for _, v := range full {
			if !fn(&node{obj: true, keys: []string{k}, kids: []*node{v}}, "keys") {
				return
			}
		}
	}
	for _, a := range leafNodes(leavesMid) {
		for _, b := range leafNodes(leavesMid) {
			if !fn(&node{obj: true, keys: []string{`"a"`, `"a"`}, kids: []*node{a, b}}, "dup-key") {
				return
			}
			if !fn(&node{obj: true, keys: []string{`"a"`, `"b"`, `"a"`}, kids: []*node{a, b, a}}, "dup-key") {
				return
			}
		}
	}
	// depth 2: children are leaves or containers (<=2 children over 6 leaves)
	inner := collect(leafNodes(leavesMid), 2)
	if !containers(append(append([]*node{}, full...), inner...), 2, emit("depth2")) {
		return
	}
	// depth 3: one child at the top, below it <=2 children per level over {1,"a",null}
	l3 := leafNodes([]string{`1`, `"a"`, `null`})
	in1 := collect(l3, 2)
	in2 := collect(append(append([]*node{}, l3...), in1...), 2)
	if !containers(in2, 1, emit("depth3")) {
		return
	}
	if quick {
		return
	}
	// thorough: <=3 children at depth 2 over 10 leaves + containers(<=2 children over 4 leaves)
	inner4 := collect(leafNodes(leavesFour), 2)
	if !containers(append(leafNodes(leavesTen), inner4...), 3, emit("depth2-wide")) {
		return
	}
	// thorough: depth 3 with <=2 children at every level over {1,"a"}
	l2 := leafNodes(leavesTwo)
	t1 := collect(l2, 2)
	t2 := collect(append(append([]*node{}, l2...), t1...), 2)
	if !containers(append(append([]*node{}, l2...), t2...), 2, emit("depth3-wide")) {
		return
	}
}

// ---------------------------------------------------------------------------------------------
// check

func init() {
	vlib.Register(&vlib.Check{
		ID: "C36", Engine: "E2",
		Rule: "JSON documents are enumerated completely from a grammar: (depth1) every array and object with <=2 [thorough <=3] children over 36 scalar leaves (numbers incl. exponents, -0, 2^53+1; true/false/null; strings incl. \"\", \"1\", \"true\", \"null\", \"[\", \"{\", \"]\", \"}\", \",\", \":\", \"#\", \"'\", \"1..3\", \"%[1]\", \"é\"); " +
			"(keys) single-pair objects over 16 keys x 36 leaves, and duplicate-key objects; (depth2) containers with <=2 children that are leaves or containers(<=2 children over 6 leaves); (depth3) three levels of nesting; " +
			"thorough adds <=3 children at depth 2 over 10 leaves and <=2 children at all of 3 levels. Every document is printed in 4 layouts (compact, `, `/`: ` spaced, a space wherever JSON allows white space, one element per line) and run in-process as `v = %<text>`; " +
			"the JSON text and the Go value that the variable table holds for v are compared (reflect.DeepEqual after json.Unmarshal) with encoding/json's decoding of the very same text. " +
			"non-trivial = the document contains a string (value or key) that would change type or structure if its quotes were mishandled (empty, looks like a number/boolean/null, contains [ ] { } , : # ' % . or a space) or a number that is not in canonical form (exponent, -0, more than 9 digits)",
		Run:    run,
		Replay: replay,
		Assumptions: []string{
			"strings without backslash, $, ~, ( and ) as in the property's quantifier",
			"a line break between a key's colon and its value (valid JSON, rejected by %{ } where a new line separates pairs by design) is probed and counted, not asserted",
		},
	})
}

func check(c *vlib.Ctx, text, section string, l layout, n *node, sampleIt bool) {
	var want any
	if err := json.Unmarshal([]byte(text), &want); err != nil {
		c.HarnessError("generator produced invalid JSON %q: %v", text, err)
	}
	r, vars := g1util.RunVars("v = %"+text, nil, "v")
	v := vars[0]
	outcome := section + "/" + layoutNames[l] + " "
	switch {
	case r.Hang:
		outcome += "hang"
	case r.Exit != 0 || !v.Set:
		outcome += "error"
	default:
		outcome += "ok:" + v.DataType
	}
	nt := true
	if n != nil {
		nt = n.tricky()
	}
	c.Eval(nt, outcome)
	if sampleIt {
		c.Sample(map[string]any{"literal": "%" + text, "stored": v.String, "datatype": v.DataType})
	}
	w := "%" + text
	switch {
	case r.Hang:
		c.Violation("terminates", w, r.HangStack)
		return
	case mx.HasPanicText(r.Stderr) || mx.HasPanicText(r.Err):
		c.Violation("no-panic", w, r.String())
		return
	case r.Exit != 0 || !v.Set:
		c.Violation("accepts-json", w, "a literal in JSON syntax was rejected: "+vlib.Clip(r.String(), 500))
		return
	}
	var got any
	if err := json.Unmarshal([]byte(v.String), &got); err != nil {
		c.Violation("value", w, fmt.Sprintf("v holds %q (%s), which is not JSON: %v", v.String, v.DataType, err))
		return
	}
	if !reflect.DeepEqual(got, want) {
		wb, _ := json.Marshal(want)
		c.Violation("value", w, fmt.Sprintf("v holds %s (%s), encoding/json gives %s", v.String, v.DataType, wb))
		return
	}
	// the Go value murex keeps next to the text must be the same value as well
	if !reflect.DeepEqual(normalise(v.Value), want) {
		wb, _ := json.Marshal(want)
		c.Violation("go-value", w, fmt.Sprintf("variable table holds Go value %#v, encoding/json gives %s", v.Value, wb))
	}
}

// normalise: ints to float64 so that the comparison is about the value, not Go's numeric type.
func normalise(v any) any {
	switch t := v.(type) {
	case int:
		return float64(t)
	case []any:
		o := make([]any, len(t))
		for i := range t {
			o[i] = normalise(t[i])
		}
		return o
	case map[string]any:
		o := make(map[string]any, len(t))
		for k, x := range t {
			o[k] = normalise(x)
		}
		return o
	}
	return v
}

func run(c *vlib.Ctx) {
	mx.Init(c.WorkDir)
	cnt := 0
	enumDocs(c.Quick(), func(n *node, section string) bool {
		for l := layout(0); l < nLayouts; l++ {
			if !c.Next() {
				continue
			}
			cnt++
			if cnt&0xff == 0 && c.Expired() {
				return false
			}
			check(c, n.text(l), section, l, n, cnt%2503 == 1)
		}
		return true
	})
	// probe (not asserted): a line break between ':' and the value
	if c.Shard == 0 {
		for _, t := range []string{"{\"a\":\n1}", "{\"a\":\n{\"b\": 1}\n}", "{\"a\"\n: 1}"} {
			r, vars := g1util.RunVars("v = %"+t, nil, "v")
			if r.Exit != 0 || !vars[0].Set {
				c.Extra("probe (not asserted): valid JSON with a line break between key, ':' and value is rejected", 1)
			} else {
				c.Extra("probe (not asserted): valid JSON with a line break between key, ':' and value is accepted", 1)
			}
		}
	}
}

// replay: the witness is the literal itself ("%" + JSON text).
func replay(c *vlib.Ctx, w string) {
	mx.Init(c.WorkDir)
	text := strings.TrimPrefix(w, "%")
	var x any
	if json.Unmarshal([]byte(text), &x) != nil {
		fmt.Println("witness is not JSON: nothing asserted")
		return
	}
	check(c, text, "replay", compact, nil, false)
}
