package literals
