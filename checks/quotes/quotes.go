// Package quotes: C09 — quoted string literals evaluate to exactly their contents, as a statement
// argument and as an expression value. Every string over a quote/metacharacter-rich alphabet is encoded
// by every encoder that can represent it ('…', "…" with only the documented escapes, %(…)), the literal
// is put in source text, and the value murex computes is compared with the original string.
package quotes

import (
	"fmt"
	"strings"

	"verif/checks/g2rec"
	"verif/mx"
	"verif/vlib"

	"github.com/lmorg/murex/lang"
	"github.com/lmorg/murex/utils/home"
)

type item struct {
	name string // for the Rule / witnesses
	val  string // what the item contributes to the value
	kind int    // 0 literal character, 1 `$(x)` expansion, 2 `~` expansion
}

const varVal = "q'\") \\$z;~ "

var alphabet = []item{
	{"a", "a", 0}, {"space", " ", 0}, {"'", "'", 0}, {"\"", "\"", 0}, {"\\", "\\", 0}, {"(", "(", 0}, {")", ")", 0},
	{"[", "[", 0}, {"#", "#", 0}, {";", ";", 0}, {"|", "|", 0}, {"LF", "\n", 0}, {"é", "é", 0}, {"$", "$", 0}, {"~", "~", 0}, {"{", "{", 0},
	{"TAB", "\t", 0}, {"CR", "\r", 0},
	{"$(x)", varVal, 1}, {"~expansion", "", 2},
}

func init() {
	alphabet[len(alphabet)-1].val = home.MyDir
	vlib.Register(&vlib.Check{
		ID: "C09", Engine: "E2",
		Rule: "every sequence of up to 3 (quick) / 4 (thorough) items over {a space ' \" \\ ( ) [ # ; | LF é $ ~ { TAB CR, the expansion $(x) of an injected variable holding q'\") \\$z;~ , the expansion ~ of the home directory} plus every sequence of 4 (quick) / 5 (thorough) items over the first 16 of these is encoded by each encoder that can represent it: sq '…' (no ', no expansion), dq-min \"…\" (only \\ \" $ ~ backslash-escaped), dq-esc (also \\s \\t \\r \\n), dq-all (every punctuation character backslash-escaped), dq-raw (white space written as backslash + the literal space/TAB/CR/LF), bq %(…) (balanced parentheses, no literal $ or ~); each literal is evaluated as `vargsrec LIT`, `vargsrec LIT z` (argv recorded by a Go builtin) and `v = LIT` (variable read through the Go API) and must give exactly the original string; non-trivial = the value contains at least one item other than a/é",
		Run:    run,
		Replay: replay,
		Assumptions: []string{
			"alphabet and length bounds as stated in the rule; the alphabet has no } and no upper-case letter, so no {UPPER} ANSI constant (a documented feature of %(…)) can appear",
			"a `~` expansion is only generated where the next character cannot continue a user name",
		},
	})
}

func userNameChar(r byte) bool {
	return r == '_' || r == '.' || r == '-' || r >= 'a' && r <= 'z' || r >= 'A' && r <= 'Z' || r >= '0' && r <= '9'
}

type encoded struct {
	enc string
	src string
}

var dqLevel = map[string]int{"dq-min": 0, "dq-esc": 1, "dq-all": 2, "dq-raw": 3}
var esc = map[string]string{" ": "\\s", "\t": "\\t", "\r": "\\r", "\n": "\\n"}

var encoders = []string{"sq", "dq-min", "dq-esc", "dq-all", "dq-raw", "bq"}

// tildeOK: a `~` expansion must not be followed by something that could continue a user name.
func tildeOK(seq []item) bool {
	for i, it := range seq {
		if it.kind == 2 && i+1 < len(seq) {
			nx := seq[i+1]
			if nx.kind != 0 || userNameChar(nx.val[0]) {
				// `~a` would be a user lookup; `~$(x)`/`~~` are avoided as well
				return false
			}
		}
	}
	return true
}

func value(seq []item) string {
	var b strings.Builder
	for _, it := range seq {
		b.WriteString(it.val)
	}
	return b.String()
}

// encode returns the literal representing seq under one encoder, ok=false if it cannot represent it.
func encode(seq []item, enc string) (string, bool) {
	if !tildeOK(seq) {
		return "", false
	}
	var s strings.Builder
	switch enc {
	case "sq":
		for _, it := range seq {
			if it.kind != 0 || it.val == "'" {
				return "", false
			}
		}
		return "'" + value(seq) + "'", true
	case "bq":
		depth := 0
		s.WriteString("%(")
		for _, it := range seq {
			switch it.kind {
			case 1:
				s.WriteString("$(x)")
				continue
			case 2:
				s.WriteString("~")
				continue
			}
			switch it.val {
			case "$", "~":
				return "", false
			case "(":
				depth++
			case ")":
				depth--
				if depth < 0 {
					return "", false
				}
			}
			s.WriteString(it.val)
		}
		s.WriteString(")")
		return s.String(), depth == 0
	}
	level := dqLevel[enc]
	s.WriteByte('"')
	for _, it := range seq {
		switch it.kind {
		case 1:
			s.WriteString("$(x)")
			continue
		case 2:
			s.WriteString("~")
			continue
		}
		c := it.val
		switch {
		case c == "\\" || c == "\"" || c == "$" || c == "~":
			s.WriteString("\\" + c)
		case esc[c] != "":
			switch {
			case level == 3:
				// dq-raw: the documented `\<char>` escape applied to the white-space character itself
				s.WriteString("\\" + c)
			case level >= 1:
				s.WriteString(esc[c])
			default:
				s.WriteString(c)
			}
		case c == "a" || c == "é":
			s.WriteString(c)
		default:
			if level >= 2 {
				s.WriteString("\\" + c)
			} else {
				s.WriteString(c)
			}
		}
	}
	s.WriteByte('"')
	return s.String(), true
}

// encodings returns the value of the item sequence and every distinct literal representing it.
func encodings(seq []item) (val string, out []encoded) {
	val = value(seq)
	seen := map[string]bool{}
	for _, enc := range encoders {
		if src, ok := encode(seq, enc); ok && !seen[src] {
			seen[src] = true
			out = append(out, encoded{enc, src})
		}
	}
	return val, out
}

func plain(seq []item) bool {
	for _, it := range seq {
		if it.kind != 0 || (it.val != "a" && it.val != "é") {
			return false
		}
	}
	return true
}

func prepare(c *vlib.Ctx) {
	mx.Init(c.WorkDir)
	g2rec.Install()
	// calibration on a harmless literal
	one(c, []item{alphabet[0]}, false)
	if len(c.P.Violations) > 0 {
		c.HarnessError("calibration on a harmless literal failed: %+v", c.P.Violations)
	}
	c.P.Evaluations, c.P.Nontrivial = 0, 0
	c.P.Outcomes = map[string]int64{}
	c.P.Samples = nil
	c.P.Extra = map[string]int64{}
}

// nBase: the first 16 items are the alphabet of the design; the longest sequences of each tier are
// enumerated over these only.
const nBase = 16

func run(c *vlib.Ctx) {
	prepare(c)
	n := 0
	seq := make([]item, 0, 8)
	each := func(k, lo, hi int) {
		vlib.Seqs(k, lo, hi, func(idx []int) bool {
			if !c.Next() {
				return true
			}
			n++
			if n&0x3f == 0 && c.Expired() {
				return false
			}
			seq = seq[:0]
			for _, i := range idx {
				seq = append(seq, alphabet[i])
			}
			one(c, seq, n%20011 == 1)
			return true
		})
	}
	eachLong := func(l int) { each(nBase, l, l) }
	if c.Quick() {
		each(len(alphabet), 0, 3)
		eachLong(4)
	} else {
		each(len(alphabet), 0, 4)
		each(nBase, 5, 5)
	}
}

var positions = []struct {
	name string
	src  func(lit string) string
}{
	{"stmt", func(l string) string { return g2rec.Recorder + " " + l }},
	{"stmt-z", func(l string) string { return g2rec.Recorder + " " + l + " z" }},
	{"expr", func(l string) string { return "v = " + l }},
}

func one(c *vlib.Ctx, seq []item, sample bool) {
	val, encs := encodings(seq)
	if len(encs) == 0 {
		c.Extra("not-encodable (~ expansion followed by a user-name character or another expansion)", 1)
		return
	}
	nontrivial := !plain(seq)
	for _, e := range encs {
		for pi := range positions {
			res, clause, detail := evalLit(pi, e.src, val)
			c.Eval(nontrivial, positions[pi].name+" "+e.enc+" "+res)
			if clause != "" {
				report(c, seq, pi, e.enc, clause, detail)
			}
			if sample && pi == 0 {
				c.Sample(map[string]any{"encoder": e.enc, "literal": e.src, "value": val, "result": res})
			}
		}
	}
}

func witness(pi int, enc, src string) string { return positions[pi].name + " " + enc + ": " + src }

// report minimises the failing item sequence (greedy deletion of items while the same oracle clause
// still fails for the same encoder and position) and records the violation under the minimal literal,
// so that one defect gives one witness per position instead of thousands.
func report(c *vlib.Ctx, seq []item, pi int, enc, clause, detail string) {
	cur := append([]item{}, seq...)
	for again := true; again; {
		again = false
		for i := range cur {
			cand := append(append([]item{}, cur[:i]...), cur[i+1:]...)
			src, ok := encode(cand, enc)
			if !ok {
				continue
			}
			_, cl, d := evalLit(pi, src, value(cand))
			if cl == clause {
				cur, detail, again = cand, d, true
				break
			}
		}
	}
	if len(cur) != len(seq) {
		c.Extra("violations reported under a smaller literal", 1)
	}
	src, _ := encode(cur, enc)
	for _, e := range encoders { // name the literal after the first encoder that produces it
		if s, ok := encode(cur, e); ok && s == src {
			enc = e
			break
		}
	}
	c.Violation(clause, witness(pi, enc, src), detail)
}

// evalLit evaluates one literal in one position and applies the oracle. Returns the outcome class and,
// if the oracle fails, the clause and detail.
func evalLit(pi int, lit, val string) (res, clause, detail string) {
	src := positions[pi].src(lit)
	var fork *lang.Fork
	o := &mx.Opt{Vars: map[string]string{"x": varVal}, Setup: func(f *lang.Fork) { fork = f }}
	g2rec.Reset()
	r := mx.Run(src, o)
	if r.Hang {
		return "hang", "terminates", "caller still blocked after ceiling\n" + r.HangStack
	}
	if mx.HasPanicText(r.Stderr) || mx.HasPanicText(r.Err) {
		return "panic", "no-panic", r.String()
	}
	if positions[pi].name == "expr" {
		if r.Exit != 0 || r.Err != "" {
			return "rejected", "literal-accepted", fmt.Sprintf("`%s` was rejected: %s", src, vlib.Clip(r.String(), 600))
		}
		got, err := fork.Variables.GetString("v")
		if err != nil {
			// the assignment did not happen: the literal was not accepted as a value
			return "rejected", "literal-accepted", fmt.Sprintf("variable v not set after `%s` (%v): %s", src, err, vlib.Clip(r.String(), 600))
		}
		if got != val {
			return "differs", "expr-value", fmt.Sprintf("`%s`: v = %q, expected %q", src, got, val)
		}
		return "ok", "", ""
	}
	calls := g2rec.Calls()
	if len(calls) == 0 && (r.Exit != 0 || r.Err != "" || strings.Contains(r.Stderr, "Error in `"+g2rec.Recorder+"`")) {
		return "rejected", "literal-accepted", fmt.Sprintf("`%s` was rejected: %s", src, vlib.Clip(r.String(), 600))
	}
	want := []string{val}
	if positions[pi].name == "stmt-z" {
		want = append(want, "z")
	}
	if len(calls) != 1 || !eq(calls[0], want) || r.Exit != 0 {
		return "differs", "stmt-value", fmt.Sprintf("`%s`: recorder calls %q (exit %d, stderr %q), expected one call with %q", src, calls, r.Exit, vlib.Clip(r.Stderr, 300), want)
	}
	return "ok", "", ""
}

func eq(a, b []string) bool {
	if len(a) != len(b) {
		return false
	}
	for i := range a {
		if a[i] != b[i] {
			return false
		}
	}
	return true
}

// replay: the witness is `<position> <encoder>: <literal source>`; the literal is looked up in the
// enumeration (thorough bounds) so that its expected value is known.
func replay(c *vlib.Ctx, w string) {
	prepare(c)
	found := false
	seq := make([]item, 0, 8)
	vlib.Seqs(len(alphabet), 0, 5, func(idx []int) bool {
		seq = seq[:0]
		for _, i := range idx {
			seq = append(seq, alphabet[i])
		}
		for _, enc := range encoders {
			src, ok := encode(seq, enc)
			if !ok {
				continue
			}
			for pi := range positions {
				if witness(pi, enc, src) == w {
					if _, clause, detail := evalLit(pi, src, value(seq)); clause != "" {
						c.Violation(clause, w, detail)
					}
					found = true
					return false
				}
			}
		}
		return true
	})
	if !found {
		fmt.Println("witness not in the enumeration space")
	}
}
