// Package cachettl: C30 (the cache never returns stale or foreign values). Explicit-state
// breadth-first search over histories of Write / Read / Trim / Clear on the real utils/cache package
// (in-memory layer + sqlite layer in the worker's private cache.db).
package cachettl

import (
	"context"
	"encoding/json"
	"fmt"
	"sort"
	"strconv"
	"strings"
	"time"

	"verif/mx"
	"verif/vlib"

	"github.com/lmorg/murex/utils/cache"
)

var (
	namespaces = []string{cache.HINT_SUMMARY, cache.MAN_SUMMARY}
	nsTok      = []string{"n1", "n2"}
	keys       = []string{"k1", "k2"}
	vals       = []string{"v1", "v2"}
	// TTL classes, all at least 30 minutes away from the real clock
	ttlTok = []string{"past", "near", "far"}
	ttlOff = []time.Duration{-time.Hour, 30 * time.Minute, 2 * time.Hour}
)

type cell struct {
	val    string
	ttl    int // index into ttlTok
	writes int
}

type inst struct {
	cells map[string]*cell // "n1/k1" -> latest write (model)
}

func cellKey(ns, k int) string { return nsTok[ns] + "/" + keys[k] }

func ops() []string {
	var out []string
	for ns := range namespaces {
		for k := range keys {
			out = append(out, fmt.Sprintf("read:%s:%s", nsTok[ns], keys[k]))
		}
	}
	for ns := range namespaces {
		for k := range keys {
			for _, v := range vals {
				for _, t := range ttlTok {
					out = append(out, fmt.Sprintf("write:%s:%s:%s:%s", nsTok[ns], keys[k], v, t))
				}
			}
		}
	}
	return append(out, "trim", "clear")
}

func idx(l []string, s string) int {
	for i, x := range l {
		if x == s {
			return i
		}
	}
	return -1
}

type viol func(clause, detail string)

func (in *inst) expectRead(ns, k int) (string, bool) {
	c := in.cells[cellKey(ns, k)]
	if c == nil || c.ttl == 0 {
		return "", false
	}
	return c.val, true
}

func (in *inst) checkRead(ns, k int, v viol) string {
	var got string
	ok := cache.Read(namespaces[ns], keys[k], &got)
	want, wantOK := in.expectRead(ns, k)
	c := in.cells[cellKey(ns, k)]
	switch {
	case ok && !wantOK && c != nil:
		v("stale", fmt.Sprintf("Read(%s) returned %q but the latest write there (%q) expired an hour ago", cellKey(ns, k), got, c.val))
	case ok && !wantOK:
		v("foreign", fmt.Sprintf("Read(%s) returned %q but nothing was written under that key and namespace", cellKey(ns, k), got))
	case ok && got != want:
		v("stale", fmt.Sprintf("Read(%s) returned %q, the most recent write is %q", cellKey(ns, k), got, want))
	case !ok && wantOK:
		v("lost", fmt.Sprintf("Read(%s) returned nothing, expected %q (TTL %s)", cellKey(ns, k), want, ttlTok[c.ttl]))
	}
	if ok {
		return "read hit"
	}
	if c != nil {
		return "read miss (expired)"
	}
	return "read miss (never written)"
}

func (in *inst) checkAll(v viol) {
	for ns := range namespaces {
		for k := range keys {
			in.checkRead(ns, k, v)
		}
	}
}

// stale: some cell was written more than once or holds an expired entry.
func (in *inst) stale() bool {
	for _, c := range in.cells {
		if c.writes > 1 || c.ttl == 0 {
			return true
		}
	}
	return false
}

func (in *inst) step(op string, v viol) (mutating bool, label string, ok bool) {
	if v == nil {
		v = func(string, string) {}
	}
	f := strings.Split(op, ":")
	ctx := context.Background()
	switch {
	case f[0] == "read" && len(f) == 3:
		ns, k := idx(nsTok, f[1]), idx(keys, f[2])
		if ns < 0 || k < 0 {
			return false, "", false
		}
		return false, in.checkRead(ns, k, v), true
	case f[0] == "write" && len(f) == 5:
		ns, k, t := idx(nsTok, f[1]), idx(keys, f[2]), idx(ttlTok, f[4])
		if ns < 0 || k < 0 || t < 0 || idx(vals, f[3]) < 0 {
			return false, "", false
		}
		cache.Write(namespaces[ns], keys[k], f[3], time.Now().Add(ttlOff[t]))
		c := in.cells[cellKey(ns, k)]
		if c == nil {
			c = &cell{}
			in.cells[cellKey(ns, k)] = c
		}
		label = "write " + f[4]
		if c.writes > 0 {
			label += " over " + ttlTok[c.ttl]
		}
		c.val, c.ttl = f[3], t
		c.writes++
		in.checkAll(v)
		return true, label, true
	case op == "trim":
		if _, err := cache.Trim(ctx); err != nil {
			v("trim-error", err.Error())
		}
		in.checkAll(v)
		return true, "trim", true
	case op == "clear":
		if _, err := cache.Clear(ctx); err != nil {
			v("clear-error", err.Error())
		}
		in.cells = map[string]*cell{}
		in.checkAll(v)
		return true, "clear", true
	}
	return false, "", false
}

// canon: what the real cache exposes: the four reads plus Dump() of both layers with TTLs
// reduced to their class.
func canon(c *vlib.Ctx) string {
	var b strings.Builder
	for ns := range namespaces {
		for k := range keys {
			var got string
			if cache.Read(namespaces[ns], keys[k], &got) {
				b.WriteString(got + " ")
			} else {
				b.WriteString("- ")
			}
		}
	}
	d, err := cache.Dump(context.Background())
	if err != nil {
		c.HarnessError("cache.Dump: %v", err)
	}
	raw, _ := json.Marshal(d)
	var dump map[string]struct {
		Internal []struct{ Key, Value, TTL string }
		CacheDb  []struct{ Key, Value, TTL string }
	}
	if err := json.Unmarshal(raw, &dump); err != nil {
		c.HarnessError("cache.Dump format: %v %s", err, raw)
	}
	class := func(s string) string {
		t, err := time.ParseInLocation(time.UnixDate, s, time.Local)
		if err != nil {
			return "?" + s
		}
		switch d := time.Until(t); {
		case d < 0:
			return "past"
		case d < 75*time.Minute:
			return "near"
		default:
			return "far"
		}
	}
	for i, ns := range namespaces {
		var items []string
		for _, it := range dump[ns].Internal {
			items = append(items, "mem:"+it.Key+"="+it.Value+"@"+class(it.TTL))
		}
		for _, it := range dump[ns].CacheDb {
			items = append(items, "db:"+it.Key+"="+it.Value+"@"+class(it.TTL))
		}
		sort.Strings(items)
		b.WriteString("|" + nsTok[i] + " " + strings.Join(items, ","))
	}
	return b.String()
}

func reset(c *vlib.Ctx) *inst {
	if _, err := cache.Clear(context.Background()); err != nil {
		c.HarnessError("cache.Clear: %v", err)
	}
	if !cache.DbEnabled() {
		c.HarnessError("the persistent cache got disabled (sqlite error in %s)", cache.DbPath())
	}
	return &inst{cells: map[string]*cell{}}
}

func replayHist(c *vlib.Ctx, hist []string) *inst {
	in := reset(c)
	for _, op := range hist {
		in.step(op, nil)
	}
	return in
}

func setup(c *vlib.Ctx) {
	mx.Init(c.WorkDir) // points the cache db at the worker's scratch directory
	cache.InitCache()
	if !cache.DbEnabled() || !strings.HasPrefix(cache.DbPath(), c.WorkDir) {
		c.HarnessError("cache db not usable / not private: enabled=%v path=%s", cache.DbEnabled(), cache.DbPath())
	}
	in := reset(c)
	in.step("write:n1:k1:v1:far", nil)
	var s string
	if !cache.Read(namespaces[0], keys[0], &s) || s != "v1" {
		c.HarnessError("cache does not store anything (read back %q)", s)
	}
}

func run(c *vlib.Ctx) {
	setup(c)
	maxDepth := 1 << 30
	if c.Quick() {
		maxDepth = 3
	}
	all := ops()
	reset(c)
	seen := map[string]bool{canon(c): true}
	queue := [][]string{{}}
	c.P.States = 1
	deepest := 0
	for qi := 0; qi < len(queue); qi++ {
		hist := queue[qi]
		if c.Expired() {
			return
		}
		for _, op := range all {
			in := replayHist(c, hist)
			before := canon(c)
			nt := in.stale()
			w := strings.TrimSpace(strings.Join(hist, " ") + " " + op)
			mut, label, _ := in.step(op, func(clause, detail string) { c.Violation(clause, w, detail) })
			c.P.Transitions++
			after := canon(c)
			if !mut && after != before {
				c.Violation("read-is-pure", w, fmt.Sprintf("observable state changed from %s to %s", before, after))
			}
			c.Eval(nt, label)
			if mut && !seen[after] {
				seen[after] = true
				c.P.States++
				if len(hist)+1 < maxDepth || !c.Quick() {
					queue = append(queue, append(append([]string{}, hist...), op))
					deepest = max(deepest, len(hist)+1)
				}
				if c.P.States%37 == 2 {
					c.Sample(map[string]any{"history": w, "state (reads | dump)": after})
				}
			}
		}
	}
	if !cache.DbEnabled() {
		c.HarnessError("the persistent cache got disabled during the run")
	}
	c.Extra("bfs depth (longest history expanded +1)", int64(deepest))
	if c.Quick() {
		c.Note("quick tier: histories of at most " + strconv.Itoa(maxDepth) + " mutating operations (states found at that depth are checked but not expanded)")
	}
}

func replay(c *vlib.Ctx, w string) {
	setup(c)
	hist := strings.Fields(w)
	in := reset(c)
	for i, op := range hist {
		var v viol
		if i == len(hist)-1 {
			v = func(clause, detail string) { c.Violation(clause, w, detail) }
		}
		in.step(op, v)
	}
}

func init() {
	vlib.Register(&vlib.Check{
		ID: "C30", Engine: "E3",
		Rule: "breadth-first search over histories of {Write(ns,key,value,ttl), Read(ns,key), Trim, Clear} on the real utils/cache package (in-memory layer + sqlite layer, private db per worker) with namespaces {hint_summary, man_summary}, keys {k1,k2}, values {v1,v2} and TTL classes {1 h ago, +30 min (sqlite layer only), +2 h (both layers)}; canonical state = the four Read results plus cache.Dump() of both layers with TTLs reduced to their class; every operation is executed in every reachable state by replaying the shortest history after cache.Clear, after each mutating operation all four cells are read and compared with the model (latest write under that key and namespace if its TTL is in the future, else nothing), successors with a new canonical state are enqueued (quick: histories <= 3 operations; thorough: to the fixpoint); non-trivial = transitions executed in a state where some cell was written more than once or holds an expired entry",
		Shards: func(string) int { return 1 },
		Run:    run,
		Replay: replay,
		Assumptions: []string{
			"the clock is real (time.Now, sqlite unixepoch()); all TTLs are at least 30 minutes away from now, expiry during a history is outside the bound",
			"Dump() is used only to identify states, its content is not asserted; what Trim reports is not asserted",
		},
	})
}
