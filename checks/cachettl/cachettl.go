// Package cachettl: C30 (the cache never returns stale or foreign values). Explicit-state
// breadth-first search over histories of Write / Read / Trim / Clear on the real utils/cache package
// (in-memory layer + sqlite layer in the worker's private cache.db).
package cachettl

import (
	"context"
	"fmt"
	"os"
	"strings"
	"time"

	"verif/mx"
	"verif/vlib"

	"github.com/lmorg/murex/utils/cache"
)

var (
	// two private namespaces; they come into being the way murex creates unknown namespaces: by the
	// first cache.Read on them (InitCache's eight standard namespaces would make every Clear/Trim
	// open eight sqlite connections)
	namespaces = []string{"verif_n1", "verif_n2"}
	nsTok      = []string{"n1", "n2"}
	keys       = []string{"k1", "k2"}
	vals       = []string{"v1", "v2"}
	// TTL classes, all at least 30 minutes away from the real clock
	ttlTok = []string{"past", "near", "far"}
	ttlOff = []time.Duration{-time.Hour, 30 * time.Minute, 2 * time.Hour}
)

type cell struct {
	val    string
	ttl    int // index into ttlTok
	writes int
}

type inst struct {
	cells map[string]*cell // "n1/k1" -> latest write (model)
}

func cellKey(ns, k int) string { return nsTok[ns] + "/" + keys[k] }

func ops() []string {
	var out []string
	for ns := range namespaces {
		for k := range keys {
			out = append(out, fmt.Sprintf("read:%s:%s", nsTok[ns], keys[k]))
		}
	}
	for ns := range namespaces {
		for k := range keys {
			if ns == 1 && k == 1 {
				continue // n2/k2 is never written: it must always read as empty
			}
			for vi, v := range vals {
				if ns == 1 && vi > 0 {
					continue // the other namespace is written with v1 only (keeps the state set at 7*7*4)
				}
				for _, t := range ttlTok {
					out = append(out, fmt.Sprintf("write:%s:%s:%s:%s", nsTok[ns], keys[k], v, t))
				}
			}
		}
	}
	return append(out, "trim", "clear")
}

func idx(l []string, s string) int {
	for i, x := range l {
		if x == s {
			return i
		}
	}
	return -1
}

type viol func(clause, detail string)

func (in *inst) expectRead(ns, k int) (string, bool) {
	c := in.cells[cellKey(ns, k)]
	if c == nil || c.ttl == 0 {
		return "", false
	}
	return c.val, true
}

func (in *inst) checkRead(ns, k int, v viol) string {
	var got string
	ok := cache.Read(namespaces[ns], keys[k], &got)
	want, wantOK := in.expectRead(ns, k)
	c := in.cells[cellKey(ns, k)]
	switch {
	case ok && !wantOK && c != nil:
		v("stale", fmt.Sprintf("Read(%s) returned %q but the latest write there (%q) expired an hour ago", cellKey(ns, k), got, c.val))
	case ok && !wantOK:
		v("foreign", fmt.Sprintf("Read(%s) returned %q but nothing was written under that key and namespace", cellKey(ns, k), got))
	case ok && got != want:
		v("stale", fmt.Sprintf("Read(%s) returned %q, the most recent write is %q", cellKey(ns, k), got, want))
	case !ok && wantOK:
		v("lost", fmt.Sprintf("Read(%s) returned nothing, expected %q (TTL %s)", cellKey(ns, k), want, ttlTok[c.ttl]))
	}
	if ok {
		return "read hit"
	}
	if c != nil {
		return "read miss (expired)"
	}
	return "read miss (never written)"
}

func (in *inst) checkAll(v viol) {
	for ns := range namespaces {
		for k := range keys {
			in.checkRead(ns, k, v)
		}
	}
}

// stale: some cell was written more than once or holds an expired entry.
func (in *inst) stale() bool {
	for _, c := range in.cells {
		if c.writes > 1 || c.ttl == 0 {
			return true
		}
	}
	return false
}

func (in *inst) step(op string, v viol) (mutating bool, label string, ok bool) {
	if v == nil {
		v = func(string, string) {}
	}
	f := strings.Split(op, ":")
	ctx := context.Background()
	switch {
	case f[0] == "read" && len(f) == 3:
		ns, k := idx(nsTok, f[1]), idx(keys, f[2])
		if ns < 0 || k < 0 {
			return false, "", false
		}
		return false, in.checkRead(ns, k, v), true
	case f[0] == "write" && len(f) == 5:
		ns, k, t := idx(nsTok, f[1]), idx(keys, f[2]), idx(ttlTok, f[4])
		if ns < 0 || k < 0 || t < 0 || idx(vals, f[3]) < 0 {
			return false, "", false
		}
		cache.Write(namespaces[ns], keys[k], f[3], time.Now().Add(ttlOff[t]))
		c := in.cells[cellKey(ns, k)]
		if c == nil {
			c = &cell{}
			in.cells[cellKey(ns, k)] = c
		}
		label = "write " + f[4]
		if c.writes > 0 {
			label += " over " + ttlTok[c.ttl]
		}
		c.val, c.ttl = f[3], t
		c.writes++
		in.checkAll(v)
		return true, label, true
	case op == "trim":
		if _, err := cache.Trim(ctx); err != nil {
			v("trim-error", err.Error())
		}
		for k, c := range in.cells {
			if c.ttl == 0 {
				delete(in.cells, k) // removing an expired entry changes nothing observable
			}
		}
		in.checkAll(v)
		return true, "trim", true
	case op == "clear":
		if _, err := cache.Clear(ctx); err != nil {
			v("clear-error", err.Error())
		}
		in.cells = map[string]*cell{}
		in.checkAll(v)
		return true, "clear", true
	}
	return false, "", false
}

func reset(c *vlib.Ctx) *inst {
	if _, err := cache.Clear(context.Background()); err != nil {
		fail(c, "cache.Clear: %v", err)
	}
	if !cache.DbEnabled() {
		fail(c, "the persistent cache got disabled (sqlite error in %s)", cache.DbPath())
	}
	return &inst{cells: map[string]*cell{}}
}

func replayHist(c *vlib.Ctx, hist []string) *inst {
	in := reset(c)
	for _, op := range hist {
		in.step(op, nil)
	}
	return in
}

// setup returns a cleanup function. mx.Init points the cache db at the worker's scratch directory;
// sqlite syncs every commit, which costs ~10 ms per operation on the disk, so the private db is
// moved to a private tmpfs directory when /dev/shm exists.
func setup(c *vlib.Ctx) func() {
	mx.Init(c.WorkDir)
	cleanup := func() {}
	dir := c.WorkDir
	if st, err := os.Stat("/dev/shm"); err == nil && st.IsDir() {
		if d, err := os.MkdirTemp("/dev/shm", "verif-C30-"); err == nil {
			dir = d
			cleanup = func() { os.RemoveAll(d) }
			cache.SetPath(d + "/cache.db")
		}
	}
	scratch = cleanup
	for _, ns := range namespaces {
		var s string
		cache.Read(ns, "init", &s) // creates the namespace (in-memory map + table)
	}
	if !cache.DbEnabled() || !strings.HasPrefix(cache.DbPath(), dir) {
		fail(c, "cache db not usable / not private: enabled=%v path=%s", cache.DbEnabled(), cache.DbPath())
	}
	in := reset(c)
	in.step("write:n1:k1:v1:far", nil)
	var s string
	if !cache.Read(namespaces[0], keys[0], &s) || s != "v1" {
		fail(c, "cache does not store anything (read back %q)", s)
	}
	return cleanup
}

var scratch = func() {}

// fail: harness error, after removing the tmpfs scratch directory.
func fail(c *vlib.Ctx, f string, a ...any) {
	scratch()
	c.HarnessError(f, a...)
}

// ---- the frontier is computed on the reference model ---------------------------------------------

type mstate struct {
	hist []string
	key  string
}

// modelKey: per cell the latest value and its TTL class (expired entries included).
func modelKey(in *inst) string {
	var b strings.Builder
	for ns := range namespaces {
		for k := range keys {
			c := in.cells[cellKey(ns, k)]
			if c == nil {
				b.WriteString("- ")
			} else {
				b.WriteString(c.val + "@" + ttlTok[c.ttl] + " ")
			}
		}
	}
	return b.String()
}

func modelApply(hist []string) *inst {
	in := &inst{cells: map[string]*cell{}}
	for _, op := range hist {
		f := strings.Split(op, ":")
		switch f[0] {
		case "write":
			ck := f[1] + "/" + f[2]
			c := in.cells[ck]
			if c == nil {
				c = &cell{}
				in.cells[ck] = c
			}
			c.val, c.ttl = f[3], idx(ttlTok, f[4])
			c.writes++
		case "trim":
			for k, c := range in.cells {
				if c.ttl == 0 {
					delete(in.cells, k)
				}
			}
		case "clear":
			in.cells = map[string]*cell{}
		}
	}
	return in
}

// frontier: breadth-first over the model, every mutating op from every state; states are expanded
// while their shortest history is shorter than maxLen.
func frontier(muts []string, maxLen int) []mstate {
	start := mstate{nil, modelKey(modelApply(nil))}
	seen := map[string]bool{start.key: true}
	out := []mstate{start}
	for i := 0; i < len(out); i++ {
		if len(out[i].hist) >= maxLen {
			continue
		}
		for _, op := range muts {
			h := append(append([]string{}, out[i].hist...), op)
			k := modelKey(modelApply(h))
			if !seen[k] {
				seen[k] = true
				out = append(out, mstate{h, k})
			}
		}
	}
	return out
}

func run(c *vlib.Ctx) {
	defer setup(c)()
	maxLen := 1 << 30
	if c.Quick() {
		maxLen = 1
	}
	var reads, muts []string
	for _, op := range ops() {
		if strings.HasPrefix(op, "read:") {
			reads = append(reads, op)
		} else {
			muts = append(muts, op)
		}
	}
	states := frontier(muts, maxLen)
	var n uint64
	deepest := 0
	for si, st := range states {
		deepest = max(deepest, len(st.hist))
		if c.Mine(uint64(si)) {
			c.P.States++ // every state is counted by exactly one worker
		}
		if c.Expired() {
			return
		}
		// the four reads, one after the other on the same instance
		mine := c.Mine(n)
		n++
		if mine {
			in := replayHist(c, st.hist)
			nt := in.stale()
			for _, op := range reads {
				w := strings.TrimSpace(strings.Join(st.hist, " ") + " " + op)
				_, label, _ := in.step(op, func(clause, detail string) { c.Violation(clause, w, detail) })
				c.P.Transitions++
				c.Eval(nt, label)
			}
			// and once more: a read must not change what the next read returns
			w := strings.TrimSpace(strings.Join(st.hist, " ") + " " + strings.Join(reads, " ") + " " + strings.Join(reads, " "))
			in.checkAll(func(clause, detail string) { c.Violation(clause, w, detail) })
		}
		if len(st.hist) > maxLen {
			continue
		}
		for _, op := range muts {
			mine := c.Mine(n)
			n++
			if !mine {
				continue
			}
			in := replayHist(c, st.hist)
			w := strings.TrimSpace(strings.Join(st.hist, " ") + " " + op)
			_, label, _ := in.step(op, func(clause, detail string) { c.Violation(clause, w, detail) })
			c.P.Transitions++
			c.Eval(in.stale(), label)
			if c.P.Transitions%97 == 0 {
				c.Sample(map[string]any{"history": w, "model state after": modelKey(in)})
			}
		}
	}
	if !cache.DbEnabled() {
		fail(c, "the persistent cache got disabled during the run")
	}
	if c.Shard == 0 {
		c.Extra("bfs depth (longest shortest history)", int64(deepest))
		c.Extra("model states (frontier)", int64(len(states)))
	}
}

func replay(c *vlib.Ctx, w string) {
	defer setup(c)()
	hist := strings.Fields(w)
	in := reset(c)
	for i, op := range hist {
		var v viol
		if i == len(hist)-1 {
			v = func(clause, detail string) { c.Violation(clause, w, detail) }
		}
		in.step(op, v)
	}
}

func init() {
	vlib.Register(&vlib.Check{
		ID: "C30", Engine: "E3",
		Rule:   "breadth-first search over histories of {Write(ns,key,value,ttl), Read(ns,key), Trim, Clear} on the real utils/cache package (in-memory layer + sqlite layer, private db per worker on tmpfs) with two namespaces created by their first Read, keys {k1,k2}, values {v1,v2} and TTL classes {1 h ago, +30 min (sqlite layer only), +2 h (both layers)}; writes go to the cells n1/k1, n1/k2, n2/k1 (same namespace other key, same key other namespace), n2/k1 only with v1, n2/k2 is only read; a state is, per cell, the latest value and TTL class (expired included); because murex opens a new sqlite connection for every call (~25 ms) the frontier (states and their shortest histories) is computed on the reference model and the transitions (every operation in every state) are dealt out to 16 workers, each of which replays the state's shortest history on the real cache after cache.Clear, executes the operation and then reads all four cells, comparing with the model (latest write under that key and namespace if its TTL is in the future, else nothing); quick: histories of <= 2 mutating operations, thorough: to the fixpoint of the state set (7*7*4 states); non-trivial = transitions after which some cell has been written more than once or holds an expired entry (a stale candidate exists when the cells are read back)",
		Run:    run,
		Replay: replay,
		Assumptions: []string{
			"the clock is real (time.Now, sqlite unixepoch()); all TTLs are at least 30 minutes away from now, expiry during a history is outside the bound",
			"stale items of the in-memory layer (a +2 h value overwritten by a shorter TTL) are not part of the state identity: they are reached as targets of transitions and checked there, but operations from them are only explored through the shortest history of their state", "what Trim/Clear report and Dump() are not asserted",
		},
	})
}
