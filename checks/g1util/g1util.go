// Package g1util: helpers shared by the g1 checks (exprs, literals, convert): run a block in-process and
// read a variable of the block's scope back through the Go API (exact Go value, murex data type, string form).
package g1util

import (
	"reflect"

	"github.com/lmorg/murex/lang"

	"verif/mx"
)

// Var is what the variable table holds for one name after a run.
type Var struct {
	Set      bool   // the name exists in the scope of the executed block
	Value    any    // Go value (float64, int, bool, string, nil, []any, map[string]any …)
	DataType string // murex data type
	String   string // string form kept by murex
}

// RunVars runs block and returns the result plus the requested local variables of its scope.
// opt may be nil; opt.Setup (if any) is still called.
func RunVars(block string, opt *mx.Opt, names ...string) (mx.Result, []Var) {
	var o mx.Opt
	if opt != nil {
		o = *opt
	}
	var fk *lang.Fork
	user := o.Setup
	o.Setup = func(f *lang.Fork) {
		fk = f
		if user != nil {
			user(f)
		}
	}
	r := mx.Run(block, &o)
	out := make([]Var, len(names))
	if r.Hang || fk == nil {
		return r, out
	}
	for i, n := range names {
		out[i] = ReadVar(fk, n)
	}
	return r, out
}

// ReadVar reads one local variable of the fork's scope. Variables.Dump() returns the scope's own table
// (map[string]*variable, exported fields) — it distinguishes "unset" from "set to null", which
// GetValue/GetDataType cannot.
func ReadVar(fk *lang.Fork, name string) Var {
	m := reflect.ValueOf(fk.Variables.Dump())
	if m.Kind() != reflect.Map {
		return Var{}
	}
	e := m.MapIndex(reflect.ValueOf(name))
	if !e.IsValid() || e.IsNil() {
		return Var{}
	}
	s := e.Elem()
	v := Var{Set: true}
	if f := s.FieldByName("Value"); f.IsValid() && f.CanInterface() {
		v.Value = f.Interface()
	}
	if f := s.FieldByName("DataType"); f.IsValid() {
		v.DataType = f.String()
	}
	if f := s.FieldByName("String"); f.IsValid() {
		v.String = f.String()
	}
	return v
}
