// Package varargs: C08 — `$name` / `@name` used as command arguments are passed verbatim: exactly one
// argument per scalar (at most one trailing CR/LF removed), exactly one per array element, never
// re-split, re-expanded or able to start another command. Hostile values are injected through the
// variable table (never through source text) and observed byte-for-byte by a Go builtin recorder, by a
// murex function's $PARAMS, by `out` and by an external argv dumper.
package varargs

import (
	"encoding/json"
	"fmt"
	"os"
	"path/filepath"
	"strings"

	"verif/checks/g2rec"
	"verif/mx"
	"verif/vlib"

	"github.com/lmorg/murex/lang"
	"github.com/lmorg/murex/lang/types"
)

// Σ of the design (23 characters). `a` and `é` are also the names of the sentinel commands, so values
// such as `;a`, `|a`, `{a}`, `${a}`, `$(a)`, "\na" try to start a command that the harness can see.
var sigma = []string{"a", " ", "'", "\"", "$", "@", "~", "*", ";", "|", "&", "{", "}", "(", ")", "[", "#", "\\", "\n", "\r", "\t", "é", "\x01"}

// elements of arrays are single-line (the statement says so): Σ without LF, plus the empty string
var sigmaElem = func() []string {
	var out []string
	for _, s := range sigma {
		if s != "\n" {
			out = append(out, s)
		}
	}
	return out
}()

const setup = `function vparamsg2 { out $PARAMS }`

func plain(s string) bool {
	for _, r := range s {
		if r != 'a' && r != 'é' {
			return false
		}
	}
	return true
}

// accepted forms of a scalar value as one argument: verbatim, or with one trailing LF, CRLF or CR removed
func trims(v string) []string {
	out := []string{v}
	for _, suf := range []string{"\r\n", "\n", "\r"} {
		if strings.HasSuffix(v, suf) {
			out = append(out, strings.TrimSuffix(v, suf))
		}
	}
	return out
}

func trimClass(v, got string) string {
	switch {
	case got == v:
		return "verbatim"
	case got+"\n" == v:
		return "LF-trimmed"
	case got+"\r\n" == v:
		return "CRLF-trimmed"
	case got+"\r" == v:
		return "CR-trimmed"
	}
	return "other"
}

func in(s string, set []string) bool {
	for _, x := range set {
		if x == s {
			return true
		}
	}
	return false
}

func init() {
	vlib.Register(&vlib.Check{
		ID: "C08", Engine: "E2",
		Rule: "scalars: every string over the 23-character alphabet {a space ' \" $ @ ~ * ; | & { } ( ) [ # \\ LF CR TAB é \\x01} up to length 3 (quick) / 4 (thorough) is stored in a str variable through the Go variable API and used as `vargsrec $v`, `vargsrec x $v y`, `vparamsg2 $v` (murex function printing $PARAMS), `out $v` and, for length <= 2, as argument of an external argv dumper; arrays: every array of up to 3 elements of length <= 1 (quick; thorough adds up to 2 elements of length <= 2) over the alphabet without LF plus the empty string, stored as a json variable and used as `@v` in the same positions; the received argument vector is compared byte-for-byte and invocations of the sentinel commands `a`/`é` (which hostile values try to start) are counted; non-trivial = the value (or some element) contains at least one character other than `a`/`é`, or is empty",
		Run:    run,
		Replay: replay,
		Assumptions: []string{
			"alphabet and length bounds as stated in the rule",
			"glob expansion cannot be observed through this seam: murex only globs in an interactive shell-scope statement after a y/N readline prompt; the scalar/array paths are only checked for not changing the argument",
			"an empty array `[]` is not asserted: murex documents an error (strict-arrays) instead of passing zero arguments",
		},
	})
}

type env struct {
	c      *vlib.Ctx
	script string
}

func prepare(c *vlib.Ctx) *env {
	mx.Init(c.WorkDir)
	g2rec.Install("a", "é")
	if r := mx.Run(setup, nil); r.Exit != 0 || r.Hang {
		c.HarnessError("setup block failed: %v", r)
	}
	e := &env{c: c, script: filepath.Join(c.WorkDir, "argvdump.sh")}
	if err := os.WriteFile(e.script, []byte("#!/bin/sh\nfor a in \"$@\"; do printf '%s\\0' \"$a\"; done\n"), 0755); err != nil {
		c.HarnessError("cannot write argv dumper: %v", err)
	}
	// calibration: the observers work on a harmless value
	e.scalar("a", true, true)
	e.array([]string{"a", "é"}, true, true)
	if len(c.P.Violations) > 0 {
		c.HarnessError("calibration on harmless values failed: %+v", c.P.Violations)
	}
	c.P.Evaluations, c.P.Nontrivial = 0, 0
	c.P.Outcomes = map[string]int64{}
	c.P.Samples = nil
	c.P.Extra = map[string]int64{}
	return e
}

func run(c *vlib.Ctx) {
	e := prepare(c)
	maxS := 3
	if !c.Quick() {
		maxS = 4
	}
	n := 0
	vlib.Strings(sigma, 0, maxS, func(s string, idx []int) bool {
		if !c.Next() {
			return true
		}
		n++
		if n&0xff == 0 && c.Expired() {
			return false
		}
		e.scalar(s, len(idx) <= 2, n%4001 == 1)
		return true
	})
	// arrays
	elem1 := append([]string{""}, sigmaElem...)
	arr := func(elems []string, maxN int) {
		vlib.Seqs(len(elems), 0, maxN, func(idx []int) bool {
			if !c.Next() {
				return true
			}
			n++
			if n&0xff == 0 && c.Expired() {
				return false
			}
			a := make([]string, len(idx))
			for i, x := range idx {
				a[i] = elems[x]
			}
			e.array(a, len(idx) <= 2 && len(elems) == len(elem1), n%4001 == 1)
			return true
		})
	}
	arr(elem1, 3)
	if !c.Quick() {
		var elem2 []string
		vlib.Strings(sigmaElem, 2, 2, func(s string, _ []int) bool { elem2 = append(elem2, s); return true })
		// arrays of 1..2 elements in which at least one element has length 2 (the others were done above)
		all := append(append([]string{}, elem1...), elem2...)
		vlib.Seqs(len(all), 1, 2, func(idx []int) bool {
			long := false
			for _, x := range idx {
				long = long || x >= len(elem1)
			}
			if !long {
				return true
			}
			if !c.Next() {
				return true
			}
			n++
			if n&0xff == 0 && c.Expired() {
				return false
			}
			a := make([]string, len(idx))
			for i, x := range idx {
				a[i] = all[x]
			}
			e.array(a, false, n%4001 == 1)
			return true
		})
	}
}

func witnessScalar(tpl, v string) string { return fmt.Sprintf("scalar %s: %q", tpl, v) }
func witnessArray(tpl string, a []string) string {
	b, _ := json.Marshal(a)
	return fmt.Sprintf("array %s: %s", tpl, b)
}

// observe runs block and returns the recorded argument vector of the single recorder call.
func (e *env) observe(block string, o *mx.Opt, w string) (args []string, ok bool) {
	c := e.c
	g2rec.Reset()
	r := mx.Run(block, o)
	if r.Hang {
		c.Violation("terminates", w, "caller still blocked after ceiling\n"+r.HangStack)
		return nil, false
	}
	if mx.HasPanicText(r.Stderr) {
		c.Violation("no-panic", w, r.String())
		return nil, false
	}
	if s := g2rec.Sentinel(); s != 0 {
		c.Violation("starts-no-other-command", w, fmt.Sprintf("the sentinel command was started %d time(s) by `%s`; %v", s, block, r))
		return nil, false
	}
	calls := g2rec.Calls()
	if len(calls) != 1 {
		c.Violation("command-runs-once", w, fmt.Sprintf("`%s`: recorder invoked %d times; %v", block, len(calls), r))
		return nil, false
	}
	if r.Exit != 0 {
		c.Violation("command-runs-once", w, fmt.Sprintf("`%s`: exit %d; %v", block, r.Exit, r))
		return nil, false
	}
	return calls[0], true
}

func (e *env) scalar(v string, external, sample bool) {
	c := e.c
	o := &mx.Opt{Vars: map[string]string{"v": v}}
	acc := trims(v)
	outcome := "scalar"
	// 1. recorder, alone
	if got, ok := e.observe(g2rec.Recorder+" $v", o, witnessScalar("$v", v)); ok {
		if len(got) != 1 || !in(got[0], acc) {
			c.Violation("scalar-one-verbatim-argument", witnessScalar("$v", v), fmt.Sprintf("received %q, expected exactly one argument %q (or with one trailing CR/LF removed)", got, v))
			outcome += " argv-differs"
		} else {
			outcome += " " + trimClass(v, got[0])
		}
	} else {
		outcome += " failed"
	}
	// 2. recorder, between two other arguments
	if got, ok := e.observe(g2rec.Recorder+" x $v y", o, witnessScalar("x $v y", v)); ok {
		if len(got) != 3 || got[0] != "x" || got[2] != "y" || !in(got[1], acc) {
			c.Violation("scalar-one-verbatim-argument", witnessScalar("x $v y", v), fmt.Sprintf("received %q, expected [x %q y]", got, v))
		}
	}
	// 3. $PARAMS of a murex function
	g2rec.Reset()
	r := mx.Run("vparamsg2 $v", o)
	e.params(r, witnessScalar("$PARAMS", v), func(got []string) bool { return len(got) == 1 && in(got[0], acc) }, fmt.Sprintf("[%q]", v))
	// 4. out
	g2rec.Reset()
	r = mx.Run("out $v", o)
	w := witnessScalar("out", v)
	if e.clean(r, w) {
		okOut := false
		for _, a := range acc {
			okOut = okOut || r.Stdout == a+"\n"
		}
		if !okOut || r.Exit != 0 {
			c.Violation("scalar-out", w, fmt.Sprintf("`out $v` printed %q (exit %d), expected %q", r.Stdout, r.Exit, v+"\n"))
		}
	}
	// 5. external argv dumper
	if external {
		g2rec.Reset()
		r = mx.Run(e.script+" $v", o)
		w := witnessScalar("external", v)
		if e.clean(r, w) {
			got := splitNul(r.Stdout)
			if r.Exit != 0 || len(got) != 1 || !in(got[0], acc) {
				c.Violation("scalar-external-argv", w, fmt.Sprintf("external command received %q (exit %d, stderr %q), expected [%q]", got, r.Exit, vlib.Clip(r.Stderr, 300), v))
			}
			outcome += " ext"
		}
	}
	c.Eval(!plain(v) || v == "", outcome)
	if sample {
		c.Sample(map[string]any{"kind": "scalar", "value": v, "outcome": outcome})
	}
}

func splitNul(s string) []string {
	if s == "" {
		return []string{}
	}
	p := strings.Split(s, "\x00")
	if p[len(p)-1] == "" {
		p = p[:len(p)-1]
	}
	return p
}

// clean: universal part for runs that do not use the recorder.
func (e *env) clean(r mx.Result, w string) bool {
	c := e.c
	if r.Hang {
		c.Violation("terminates", w, "caller still blocked after ceiling\n"+r.HangStack)
		return false
	}
	if mx.HasPanicText(r.Stderr) {
		c.Violation("no-panic", w, r.String())
		return false
	}
	if s := g2rec.Sentinel(); s != 0 {
		c.Violation("starts-no-other-command", w, fmt.Sprintf("the sentinel command was started %d time(s); %v", s, r))
		return false
	}
	return true
}

func (e *env) params(r mx.Result, w string, ok func([]string) bool, want string) {
	c := e.c
	if !e.clean(r, w) {
		return
	}
	var got []string
	if err := json.Unmarshal([]byte(r.Stdout), &got); err != nil || r.Exit != 0 {
		c.Violation("params-json", w, fmt.Sprintf("$PARAMS printed %q (exit %d, stderr %q), expected %s", r.Stdout, r.Exit, vlib.Clip(r.Stderr, 300), want))
		return
	}
	if !ok(got) {
		c.Violation("params-json", w, fmt.Sprintf("$PARAMS = %q, expected %s", got, want))
	}
}

func (e *env) array(a []string, external, sample bool) {
	c := e.c
	js, _ := json.Marshal(a)
	o := &mx.Opt{Setup: func(f *lang.Fork) {
		if err := f.Variables.Set(f.Process, "v", string(js), types.Json); err != nil {
			c.HarnessError("cannot set json variable: %v", err)
		}
	}}
	nontrivial := false
	hasEmpty := false
	for _, s := range a {
		nontrivial = nontrivial || !plain(s) || s == ""
		hasEmpty = hasEmpty || s == ""
	}
	if len(a) == 0 {
		// statement: zero arguments; murex: documented "array is empty" error. Only the universal part.
		g2rec.Reset()
		r := mx.Run(g2rec.Recorder+" @v", o)
		e.clean(r, witnessArray("@v", a))
		c.Extra("not-asserted: empty array (documented strict-arrays error)", 1)
		c.Eval(false, "array empty: not asserted")
		return
	}
	var noEmpty []string
	for _, s := range a {
		if s != "" {
			noEmpty = append(noEmpty, s)
		}
	}
	outcome := fmt.Sprintf("array n=%d", len(a))
	// clause naming: an array that only loses its empty-string elements is one specific defect
	reportedEmpty := false
	differ := func(tpl string, got, want []string, strip func([]string) []string) {
		w := witnessArray(tpl, a)
		if hasEmpty && strip != nil && eq(strip(got), noEmptyOrNil(noEmpty)) {
			if !strings.Contains(outcome, " empty-dropped") {
				outcome += " empty-dropped"
			}
			if reportedEmpty {
				// same signature as under the plain `@v` template: one witness per array is enough
				c.Extra("empty-string element dropped (further templates of an already reported array)", 1)
				return
			}
			reportedEmpty = true
			c.Violation("array-empty-string-element-kept", w, fmt.Sprintf("received %q, expected %q: the empty-string element(s) were dropped", got, want))
			return
		}
		c.Violation("array-one-verbatim-argument-per-element", w, fmt.Sprintf("received %q, expected %q", got, want))
		outcome += " argv-differs"
	}
	if got, ok := e.observe(g2rec.Recorder+" @v", o, witnessArray("@v", a)); ok {
		if !eq(got, a) {
			differ("@v", got, a, func(g []string) []string { return noEmptyOrNil(g) })
		} else {
			outcome += " verbatim"
		}
	} else {
		outcome += " failed"
	}
	want := append(append([]string{"x"}, a...), "y")
	if got, ok := e.observe(g2rec.Recorder+" x @v y", o, witnessArray("x @v y", a)); ok {
		if !eq(got, want) {
			differ("x @v y", got, want, func(g []string) []string {
				if len(g) >= 2 && g[0] == "x" && g[len(g)-1] == "y" {
					return noEmptyOrNil(g[1 : len(g)-1])
				}
				return []string{"\x00mismatch"}
			})
		}
	}
	// $PARAMS
	g2rec.Reset()
	r := mx.Run("vparamsg2 @v", o)
	w := witnessArray("$PARAMS", a)
	if e.clean(r, w) {
		var got []string
		if err := json.Unmarshal([]byte(r.Stdout), &got); err != nil || r.Exit != 0 {
			if hasEmpty && len(noEmpty) == 0 {
				// all elements dropped => murex reports an empty array: same defect
				if !reportedEmpty {
					c.Violation("array-empty-string-element-kept", w, fmt.Sprintf("$PARAMS printed %q (exit %d), expected %s", r.Stdout, r.Exit, js))
				}
				c.Extra("empty-string element dropped (further templates of an already reported array)", 1)
			} else {
				c.Violation("params-json", w, fmt.Sprintf("$PARAMS printed %q (exit %d, stderr %q), expected %s", r.Stdout, r.Exit, vlib.Clip(r.Stderr, 300), js))
			}
		} else if !eq(got, a) {
			differ("$PARAMS", got, a, func(g []string) []string { return noEmptyOrNil(g) })
		}
	}
	// out: arguments joined by one space
	g2rec.Reset()
	r = mx.Run("out @v", o)
	w = witnessArray("out", a)
	if e.clean(r, w) {
		if r.Stdout != strings.Join(a, " ")+"\n" || r.Exit != 0 {
			if hasEmpty && r.Stdout == strings.Join(noEmpty, " ")+"\n" {
				if !reportedEmpty {
					c.Violation("array-empty-string-element-kept", w, fmt.Sprintf("`out @v` printed %q, expected %q", r.Stdout, strings.Join(a, " ")+"\n"))
				}
				c.Extra("empty-string element dropped (further templates of an already reported array)", 1)
			} else {
				c.Violation("array-out", w, fmt.Sprintf("`out @v` printed %q (exit %d), expected %q", r.Stdout, r.Exit, strings.Join(a, " ")+"\n"))
			}
		}
	}
	if external {
		g2rec.Reset()
		r = mx.Run(e.script+" @v", o)
		w := witnessArray("external", a)
		if e.clean(r, w) {
			got := splitNul(r.Stdout)
			if r.Exit != 0 || !eq(got, a) {
				differ("external", got, a, func(g []string) []string { return noEmptyOrNil(g) })
			}
			outcome += " ext"
		}
	}
	c.Eval(nontrivial, outcome)
	if sample {
		c.Sample(map[string]any{"kind": "array", "value": a, "outcome": outcome})
	}
}

func noEmptyOrNil(a []string) []string {
	out := []string{}
	for _, s := range a {
		if s != "" {
			out = append(out, s)
		}
	}
	return out
}

func eq(a, b []string) bool {
	if len(a) != len(b) {
		return false
	}
	for i := range a {
		if a[i] != b[i] {
			return false
		}
	}
	return true
}

// replay: witness is `scalar <tpl>: "<go-quoted value>"` or `array <tpl>: <json>`; the whole case (all
// templates) is re-run.
func replay(c *vlib.Ctx, w string) {
	e := prepare(c)
	i := strings.Index(w, ": ")
	if i < 0 {
		fmt.Println("unrecognised witness")
		return
	}
	body := w[i+2:]
	if strings.HasPrefix(w, "scalar ") {
		var v string
		if _, err := fmt.Sscanf(body, "%q", &v); err != nil {
			fmt.Println("unrecognised witness:", err)
			return
		}
		e.scalar(v, true, false)
		return
	}
	var a []string
	if err := json.Unmarshal([]byte(body), &a); err != nil {
		fmt.Println("unrecognised witness:", err)
		return
	}
	e.array(a, true, false)
}
