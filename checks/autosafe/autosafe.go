// Package autosafe: C34 — the tab-completion tokenizer's "safe to execute" verdict
// (parser.Parse(line,0).Unsafe == false) is cross-checked against what the real block parser would
// execute for the text autocomplete runs (Source[:LastFlowToken], see shell/autocomplete/dynamic.go).
// API seam only: nothing is executed.
package autosafe

import (
	"fmt"
	"strings"

	"verif/vlib"

	"github.com/lmorg/murex/lang"
	"github.com/lmorg/murex/lang/expressions"
	"github.com/lmorg/murex/lang/types"
	"github.com/lmorg/murex/utils/consts"
	"github.com/lmorg/murex/utils/parser"
)

// token alphabet (DESIGN C34 plus `try`, the one safe command in the alphabet that executes a block parameter)
var tokens = []string{"out", "rm", "zz", "try", " ", "|", "->", ";", "&&", "||", "{", "}", "${", "@{", "(", ")", "x", "1", "=", ">>", "|>", ">", "'", "\"", "\\", "\n", ":", "<f>"}

// safe commands (from the safe list) that execute a `{…}` parameter as code: only for these the oracle follows
// block parameters (for any other command a block parameter is data)
var blockRunners = map[string]bool{"try": true, "trypipe": true, "if": true, "and": true, "or": true, "while": true, "foreach": true, "formap": true, "for": true, "catch": true}

// commands that write what is piped to them into a file
var fileWriters = map[string]bool{">": true, ">>": true, "|>": true, "~>": true}

var safe map[string]bool

func loadSafe() {
	safe = map[string]bool{}
	for _, s := range parser.GetSafeCmds() {
		safe[s] = true
	}
}

func init() {
	vlib.Register(&vlib.Check{
		ID: "C34", Engine: "E2",
		Rule: "every sequence of up to L tokens (quick L=4, thorough L=5) over the 28-token alphabet {out rm zz try space | -> ; && || { } ${ @{ ( ) x 1 = >> |> > ' \" \\ newline : <f>} (each used alone, followed by `|`, and as `out <seq>|`) is given to parser.Parse(line,0); when the verdict is Unsafe==false the text autocomplete would execute (Source[:LastFlowToken], outer braces stripped as Fork.Execute does) is parsed with the real expressions.ParseBlock and walked recursively (block parameters of block-running safe commands, ${..}/@{..} sub-shells outside single quotes): every command must be on parser.GetSafeCmds() (read at run time), no assignment expression, no file-writing redirection command, no inline call name(args) of an unsafe command. One-directional: Unsafe==true lines are only counted (and split into truly-unsafe / conservative). Lines the real parser rejects cannot execute and are skipped. Each violating line is reduced by greedy single-token deletion (same clause) and reported under its 1-minimal witness. non-trivial = verdict safe AND a flow token exists AND the executed text parses to at least one command (the oracle had something to examine)",
		Run:    run,
		Replay: func(c *vlib.Ctx, w string) { loadSafe(); replay(c, w) },
		Assumptions: []string{
			"token alphabet and length bound as stated; safe list = parser.GetSafeCmds() at start-up (the configured default)",
			"`{…}` parameters are followed only for the safe commands that run them (try trypipe if and or while foreach formap for catch); a block given to any other safe command is data",
			"named-pipe redirections such as <f> are not files and are not asserted (neither as redirection nor as the pseudo command a leading <f> becomes); a command word containing quotes, escapes or brackets is not asserted (its final name is only known to the executing parser); sub-shells are looked for in bare words, double quotes and parentheses (where the real parser expands them), not inside single quotes, %[..] / %{..} literals or nested data blocks",
		},
	})
}

type finding struct {
	clause string
	what   string
}

type truth struct {
	rejected bool
	cmds     int
	depth    int
	bad      *finding
	// commands whose word is not a plain bareword (not asserted)
	notAsserted int
	// syntactic features of the executed text (used to name the cause of a wrong verdict)
	castPrefix bool // a statement written `:type command …`
}

// plainWord: the raw command word is what will be looked up: letters, digits, _ ! . - only, or one of the
// operator commands ( > >> |>
func plainWord(w []rune) bool {
	s := string(w)
	if len(s) > 0 && s[len(s)-1] == ':' {
		s = s[:len(s)-1]
	}
	switch s {
	case "(", ">", ">>", "|>":
		return true
	case "":
		return false
	}
	for _, r := range s {
		if !(r >= 'a' && r <= 'z' || r >= 'A' && r <= 'Z' || r >= '0' && r <= '9' || r == '_' || r == '!' || r == '.' || r == '-') {
			return false
		}
	}
	return true
}

// analyse walks the text exactly as Fork.Execute would parse it.
func analyse(text []rune, depth int, t *truth) {
	if depth > t.depth {
		t.depth = depth
	}
	if depth > 8 {
		return
	}
	text = types.BlockStripCurlyBrace(text)
	tree, err := expressions.ParseBlock(text)
	if err != nil {
		if depth == 0 {
			t.rejected = true
		}
		// a nested block that does not parse fails when it is run: nothing in it executes
		return
	}
	for _, fn := range *tree {
		name := string(fn.CommandName())
		t.cmds++
		if raw := strings.TrimLeft(string(fn.Raw), " \t"); strings.HasPrefix(raw, ":") {
			t.castPrefix = true
		}
		if name == lang.ExpressionFunctionName {
			for _, p := range fn.Parameters {
				if isAssignment(p) {
					t.flag("assignment", fmt.Sprintf("expression %q assigns", string(p)))
				}
				exprCalls(p, depth, t)
				subshells(p, depth, t, false)
			}
			continue
		}
		switch {
		case name == consts.NamedPipeProcName:
			// a leading <name> (read from a named pipe): declared out of scope, see Assumptions
			t.notAsserted++
		case !plainWord(fn.Command):
			// quotes, escapes, brackets … in the command word: the name that is finally looked up is only known
			// after the executing parser has expanded it; the oracle stays silent
			t.notAsserted++
		case fileWriters[name]:
			t.flag("file-redirection", fmt.Sprintf("command %q writes a file", name))
		case !safe[name]:
			t.flag("unsafe-command", fmt.Sprintf("command %q is not on the safe list", name))
		}
		// the command word itself may hold a sub-shell
		subshells(fn.Command, depth, t, false)
		for _, p := range fn.Parameters {
			if blockRunners[name] && len(p) >= 2 && p[0] == '{' && p[len(p)-1] == '}' && balancedBlock(p) {
				analyse(p, depth+1, t)
				continue
			}
			subshells(p, depth, t, true)
		}
	}
}

func isBare(r rune) bool {
	return r == '_' || r == '.' || r >= 'a' && r <= 'z' || r >= 'A' && r <= 'Z' || r >= '0' && r <= '9'
}

// call: `name(args)` runs the block `name args` in a fork (expressions/parse_function.go).
func call(name, args []rune, depth int, t *truth) {
	if !safe[string(name)] {
		t.flag("function-call", fmt.Sprintf("inline call %s(%s) runs command %q which is not on the safe list", string(name), string(args), string(name)))
	}
	block := append(append(append([]rune{}, name...), ' '), args...)
	analyse(block, depth+1, t)
}

// closeParen returns the index of the `)` matching the `(` at p[i] (single and double quotes respected) or -1.
func closeParen(p []rune, i int) int {
	depth := 0
	for ; i < len(p); i++ {
		switch p[i] {
		case '\'':
			j := indexFrom(p, i+1, '\'')
			if j < 0 {
				return -1
			}
			i = j
		case '"':
			j := indexFrom(p, i+1, '"')
			if j < 0 {
				return -1
			}
			i = j
		case '\\':
			i++
		case '(':
			depth++
		case ')':
			depth--
			if depth == 0 {
				return i
			}
		}
	}
	return -1
}

// exprCalls finds `bareword(` function calls in an expression the real parser accepted: a bareword that does
// not start with a digit, at the start of the expression or after a blank / operator, directly followed by `(`.
func exprCalls(e []rune, depth int, t *truth) {
	for i := 0; i < len(e); i++ {
		switch e[i] {
		case '\'', '"':
			j := indexFrom(e, i+1, e[i])
			if j < 0 {
				return
			}
			i = j
			continue
		case '{', '[', '%', '$', '@', '~':
			return // stay out of objects, arrays, variables (sound, may miss)
		}
		if !isBare(e[i]) {
			continue
		}
		start := i
		for i < len(e) && isBare(e[i]) {
			i++
		}
		word := e[start:i]
		okBefore := start == 0 || strings.ContainsRune(" \t=+-*/(<>!&|,", e[start-1])
		if okBefore && !(word[0] >= '0' && word[0] <= '9') && i < len(e) && e[i] == '(' {
			end := closeParen(e, i)
			if end < 0 {
				return
			}
			switch string(word) {
			case "true", "false", "null":
			default:
				call(word, e[i+1:end], depth, t)
			}
			i = end
			continue
		}
		i--
	}
}

func (t *truth) flag(clause, what string) {
	if t.bad == nil {
		t.bad = &finding{clause, what}
	}
}

// balancedBlock: p is one `{…}` literal (the closing brace of the first opening brace is the last rune)
func balancedBlock(p []rune) bool {
	end := skipBlock(p, 0)
	return end == len(p)-1
}

// skipBlock returns the index of the `}` closing the `{` at p[i] (quotes respected), or -1.
func skipBlock(p []rune, i int) int {
	depth := 0
	for ; i < len(p); i++ {
		switch p[i] {
		case '\'':
			j := indexFrom(p, i+1, '\'')
			if j < 0 {
				return -1
			}
			i = j
		case '"':
			j := i + 1
			for j < len(p) && p[j] != '"' {
				if p[j] == '\\' {
					j++
				}
				j++
			}
			if j >= len(p) {
				return -1
			}
			i = j
		case '{':
			depth++
		case '}':
			depth--
			if depth == 0 {
				return i
			}
		}
	}
	return -1
}

func indexFrom(p []rune, i int, r rune) int {
	for ; i < len(p); i++ {
		if p[i] == r {
			return i
		}
	}
	return -1
}

// subshells finds ${…} and @{…} in the raw (pre-parse) text of one word where the executing parser
// would expand them, and analyses their bodies.
func subshells(p []rune, depth int, t *truth, isParam bool) {
	if isParam {
		// `word(args)` as a statement parameter whose leading word is made of bareword characters only
		k := 0
		for k < len(p) && isBare(p[k]) {
			k++
		}
		if k > 0 && k < len(p) && p[k] == '(' {
			if end := closeParen(p, k); end > 0 {
				call(p[:k], p[k+1:end], depth, t)
			}
		}
	}
	const (
		bare = iota
		dq
	)
	mode := bare
	paren := 0
	for i := 0; i < len(p); i++ {
		r := p[i]
		switch {
		case mode == bare && paren == 0 && r == '\\':
			i++
		case mode == dq && r == '\\':
			i++
		case mode == bare && paren == 0 && r == '\'':
			j := indexFrom(p, i+1, '\'')
			if j < 0 {
				return
			}
			i = j
		case mode == bare && paren == 0 && r == '"':
			mode = dq
		case mode == dq && r == '"':
			mode = bare
		case mode == bare && r == '(' && (paren > 0 || isParam && i == 0 || i > 0 && p[i-1] == '%'):
			paren++
		case mode == bare && paren > 0 && r == ')':
			paren--
		case mode == bare && paren == 0 && r == '%' && i+1 < len(p) && (p[i+1] == '[' || p[i+1] == '{'):
			return // data literal: not followed
		case r == '$' && i+1 < len(p) && p[i+1] == '{':
			end := skipBlock(p, i+1)
			if end < 0 {
				return
			}
			t.flag("sub-shell", fmt.Sprintf("sub-shell %q would run", string(p[i:end+1])))
			analyse(p[i+2:end], depth+1, t)
			i = end
		case mode == bare && paren == 0 && r == '@' && i == 0 && i+1 < len(p) && p[i+1] == '{':
			end := skipBlock(p, i+1)
			if end < 0 {
				return
			}
			t.flag("sub-shell", fmt.Sprintf("sub-shell %q would run", string(p[i:end+1])))
			analyse(p[i+2:end], depth+1, t)
			i = end
		case mode == bare && paren == 0 && r == '{':
			end := skipBlock(p, i)
			if end < 0 {
				return
			}
			i = end // data block
		}
	}
}

// isAssignment: the expression (accepted by the real expression parser) contains an assignment
// operator (= := += -= *= /=) outside quotes and parentheses.
func isAssignment(e []rune) bool {
	paren := 0
	for i := 0; i < len(e); i++ {
		switch e[i] {
		case '\'', '"':
			j := indexFrom(e, i+1, e[i])
			if j < 0 {
				return false
			}
			i = j
		case '(':
			paren++
		case ')':
			paren--
		case '{', '[', '%', '$', '@':
			return false // objects / arrays / variables with index: keep the scanner out of them (sound, may miss)
		case '=':
			if paren != 0 {
				continue
			}
			prev, next := rune(0), rune(0)
			if i > 0 {
				prev = e[i-1]
			}
			if i+1 < len(e) {
				next = e[i+1]
			}
			if prev == '=' || prev == '!' || prev == '<' || prev == '>' || prev == '~' {
				continue
			}
			if next == '=' || next == '~' || next == '>' {
				i++
				continue
			}
			return true
		}
	}
	return false
}

type result struct {
	line          []rune
	unsafeVerdict bool
	noFlow        bool
	executed      string
	tr            truth
	panicked      string
}

func evaluate(line string) (res result) {
	r := []rune(line)
	res.line = r
	defer func() {
		if p := recover(); p != nil {
			res.panicked = fmt.Sprint(p)
		}
	}()
	pt, _ := parser.Parse(r, 0)
	res.unsafeVerdict = pt.Unsafe
	if pt.LastFlowToken <= 0 || pt.LastFlowToken > len(r) {
		res.noFlow = true
		return
	}
	text := r[:pt.LastFlowToken]
	res.executed = string(text)
	analyse(text, 0, &res.tr)
	return
}

// violates: the one-directional oracle. The clause names the cause:
//   - "word-never-vetted": a command word ended by a flow token instead of a blank is never compared with
//     the safe list (see neverVetted).
//   - otherwise the tokenizer had its blanks and the verdict is still wrong: "assignment", "function-call",
//     "sub-shell" (what the real parser would do), or "unsafe-command/<feature>", "file-redirection/<feature>"
//     where feature is the first syntactic trigger found in the executed text (see feature), "plain" if none.
func violates(res result) *finding {
	if res.panicked != "" || res.unsafeVerdict || res.noFlow || res.tr.rejected || res.tr.bad == nil {
		return nil
	}
	base := res.tr.bad
	if neverVetted(res.line) {
		return &finding{"word-never-vetted", base.clause + ": " + base.what}
	}
	switch base.clause {
	case "unsafe-command", "file-redirection":
		return &finding{base.clause + "/" + feature(res), base.what}
	}
	return base
}

// feature: the first syntactic trigger present in the executed text, in a fixed order; "plain" if none.
func feature(res result) string {
	ex := []rune(res.executed)
	switch {
	case gluedAppend(ex):
		return "glued-append" // `>>` directly after a non-blank (or at the start): the tokenizer wants a blank before it
	case res.tr.castPrefix:
		return "cast-prefix"
	case strings.ContainsAny(res.executed, "()"):
		return "paren" // a parenthesis glued to a word: a quote for the tokenizer, not for the real parser (and the reverse)
	case strings.ContainsRune(res.executed, '\\'):
		return "escape"
	}
	return "plain"
}

func gluedAppend(ex []rune) bool {
	for i := 0; i+1 < len(ex); i++ {
		if ex[i] == '>' && ex[i+1] == '>' && (i == 0 || ex[i-1] != ' ' && ex[i-1] != '\t') {
			return true
		}
	}
	return false
}

// neverVetted decides the cause "the tokenizer only compares a command word with the safe list when a blank
// (or colon) ends it": a blank is inserted in front of every flow token the tokenizer itself recognises in the
// line (which gives it the terminator it waits for and means the same to the real parser); if the verdict then
// becomes Unsafe the line is a witness of that cause, otherwise the verdict is wrong for another reason.
func neverVetted(line []rune) bool {
	bounds := map[int]bool{}
	for k := 1; k <= len(line); k++ {
		pt, _ := parser.Parse(line[:k], 0)
		if pt.LastFlowToken > 0 && pt.LastFlowToken < len(line) {
			bounds[pt.LastFlowToken] = true
		}
	}
	var spaced []rune
	for i, r := range line {
		if bounds[i] && line[i-1] != ' ' {
			spaced = append(spaced, ' ')
		}
		spaced = append(spaced, r)
	}
	pt, _ := parser.Parse(spaced, 0)
	return pt.Unsafe
}

func join(idx []int) string {
	var b strings.Builder
	for _, i := range idx {
		b.WriteString(tokens[i])
	}
	return b.String()
}

var tokX = func() int {
	for i, t := range tokens {
		if t == "x" {
			return i
		}
	}
	panic("no x token")
}()

// minimise: replace any contiguous run of tokens by nothing or by one of the simple tokens `x`, `out`, ` `, `|`, as
// long as the line still violates the same clause and gets strictly simpler (fewer tokens, then simpler
// tokens); repeat to a fixpoint. Deterministic (first improving candidate wins).
func minimise(idx []int, clause string) []int {
	cur := append([]int{}, idx...)
	tokOut, tokSp, tokPipe := tokIndex("out"), tokIndex(" "), tokIndex("|")
	weight := func(s []int) int {
		w := 0
		for _, t := range s {
			switch t {
			case tokX:
				w += 100
			case tokOut, tokSp, tokPipe:
				w += 101
			default:
				w += 102
			}
		}
		return w
	}
	for changed := true; changed; {
		changed = false
	search:
		for span := len(cur); span >= 1; span-- {
			for i := 0; i+span <= len(cur); i++ {
				for _, repl := range [][]int{nil, {tokX}, {tokOut}, {tokSp}, {tokPipe}} {
					cand := append(append(append([]int{}, cur[:i]...), repl...), cur[i+span:]...)
					if weight(cand) >= weight(cur) {
						continue
					}
					if f := violates(evaluate(join(cand))); f != nil && f.clause == clause {
						cur = cand
						changed = true
						break search
					}
				}
			}
		}
	}
	return cur
}

func run(c *vlib.Ctx) {
	loadSafe()
	if !safe["out"] || !safe["try"] || safe["rm"] || safe["zz"] || safe["x"] {
		c.HarnessError("safe list does not have the shape the alphabet assumes (out, try safe; rm, zz, x not)")
	}
	maxLen := 4
	if !c.Quick() {
		maxLen = 5
	}
	n := 0
	for ci := range contexts {
		vlib.Seqs(len(tokens), 0, maxLen, func(idx []int) bool {
			if !c.Next() {
				return true
			}
			n++
			if n&0xfff == 0 && c.Expired() {
				return false
			}
			one(c, withContext(ci, idx), n)
			return true
		})
	}
}

// contexts: the enumerated token sequence is used alone, followed by `|` (so that all of it is executed), as
// the parameters of a safe command followed by `|`, and as the parameters that follow a plain-word parameter of a
// block-running safe command (`try x <seq>|`).
var contexts = [][2][]string{{nil, nil}, {nil, {"|"}}, {{"out", " "}, {"|"}}, {{"try", " ", "x", " "}, {"|"}}}

func tokIndex(t string) int {
	for i, x := range tokens {
		if x == t {
			return i
		}
	}
	panic("token not in alphabet: " + t)
}

func withContext(ci int, idx []int) []int {
	out := make([]int, 0, len(idx)+3)
	for _, t := range contexts[ci][0] {
		out = append(out, tokIndex(t))
	}
	out = append(out, idx...)
	for _, t := range contexts[ci][1] {
		out = append(out, tokIndex(t))
	}
	return out
}

func one(c *vlib.Ctx, idx []int, n int) {
	line := join(idx)
	res := evaluate(line)
	switch {
	case res.panicked != "":
		// C20's business; nothing can be said here
		c.Extra("parser panicked (not asserted here, see C20)", 1)
		c.Eval(false, "parser-panic")
		return
	case res.unsafeVerdict:
		if res.noFlow || res.tr.rejected {
			c.Eval(false, "verdict-unsafe/not-executable")
		} else if res.tr.bad != nil {
			c.Eval(false, "verdict-unsafe/truly-unsafe:"+res.tr.bad.clause)
		} else {
			c.Eval(false, "verdict-unsafe/conservative")
		}
		return
	case res.noFlow:
		c.Eval(false, "verdict-safe/no-flow-token(nothing executed)")
		return
	case res.tr.rejected:
		c.Eval(false, "verdict-safe/rejected-by-real-parser")
		return
	case res.tr.cmds == 0:
		c.Eval(false, "verdict-safe/empty-tree")
		return
	}
	if res.tr.notAsserted > 0 {
		c.Extra("commands not asserted (command word is not a plain bareword, or named pipe)", int64(res.tr.notAsserted))
	}
	f := violates(res)
	if f == nil {
		c.Eval(true, fmt.Sprintf("verdict-safe/confirmed cmds=%d depth=%d", min(res.tr.cmds, 4), res.tr.depth))
		if n%40009 == 1 {
			c.Sample(map[string]any{"line": line, "executed": res.executed, "verdict": "safe", "commands": res.tr.cmds})
		}
		return
	}
	c.Eval(true, "verdict-safe/VIOLATION:"+f.clause)
	m := minimise(idx, f.clause)
	w := join(m)
	mr := evaluate(w)
	mf := violates(mr)
	if mf == nil { // cannot happen: minimise only accepts violating candidates
		w, mr, mf = line, res, f
	}
	c.Violation(mf.clause, w, fmt.Sprintf("parser.Parse(%q,0).Unsafe=false, autocomplete would execute %q: %s", w, mr.executed, mf.what))
	c.Extra("violating lines before reduction, clause "+f.clause, 1)
}

func replay(c *vlib.Ctx, w string) {
	res := evaluate(w)
	if res.panicked != "" {
		fmt.Println("parser panicked:", res.panicked)
		return
	}
	fmt.Printf("line=%q Unsafe=%v executed=%q rejected=%v cmds=%d\n", w, res.unsafeVerdict, res.executed, res.tr.rejected, res.tr.cmds)
	if f := violates(res); f != nil {
		c.Violation(f.clause, w, fmt.Sprintf("parser.Parse(%q,0).Unsafe=false, autocomplete would execute %q: %s", w, res.executed, f.what))
	}
}
