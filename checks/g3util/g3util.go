// Package g3util: small helpers shared by the g3 checks (witness encoding, murex run classification).
package g3util

import (
	"bytes"
	"encoding/json"
	"fmt"
	"strings"

	"verif/mx"
)

// JSON encodes v compactly without HTML escaping (witnesses stay readable and canonical: struct
// fields keep declaration order, map keys are sorted by encoding/json).
func JSON(v any) string {
	var b bytes.Buffer
	e := json.NewEncoder(&b)
	e.SetEscapeHTML(false)
	if err := e.Encode(v); err != nil {
		return fmt.Sprintf("<unencodable: %v>", err)
	}
	return strings.TrimSuffix(b.String(), "\n")
}

// Universal inspects one in-process run for the universal clauses (termination, no internal panic).
// It returns "" when the run is clean, otherwise the clause name and a detail text.
func Universal(r mx.Result) (clause, detail string) {
	if r.Hang {
		return "terminates", "caller still blocked after the ceiling (a builtin that panics never signals termination)\n" + clip(r.HangStack, 1200)
	}
	if mx.HasPanicText(r.Stdout) || mx.HasPanicText(r.Stderr) || mx.HasPanicText(r.Err) || r.Crash != "" {
		return "no-panic", "internal panic reported: " + clip(r.Stderr+r.Err+r.Crash, 600)
	}
	return "", ""
}

func clip(s string, n int) string {
	if len(s) <= n {
		return s
	}
	return s[:n] + "…"
}

// Clip shortens long strings (60 KiB elements) for details and samples.
func Clip(s string, n int) string { return clip(s, n) }

// ClipList renders a list with long elements abbreviated.
func ClipList(l []string) string {
	var b strings.Builder
	b.WriteString("[")
	for i, e := range l {
		if i > 0 {
			b.WriteString(" ")
		}
		if len(e) > 40 {
			fmt.Fprintf(&b, "%q…(%d bytes)", e[:12], len(e))
		} else {
			fmt.Fprintf(&b, "%q", e)
		}
	}
	b.WriteString("]")
	return b.String()
}

// EqualLists compares two string lists (nil and empty are equal).
func EqualLists(a, b []string) bool {
	if len(a) != len(b) {
		return false
	}
	for i := range a {
		if a[i] != b[i] {
			return false
		}
	}
	return true
}
