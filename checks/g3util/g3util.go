// Package g3util: small helpers shared by the g3 checks (witness encoding, murex run classification).
package g3util

import (
	"bytes"
	"encoding/json"
	"fmt"
	"os"
	"strings"
	"sync"
	"syscall"
	"time"

	"verif/mx"

	"github.com/lmorg/murex/lang"
)

// JSON encodes v compactly without HTML escaping (witnesses stay readable and canonical: struct
// fields keep declaration order, map keys are sorted by encoding/json).
func JSON(v any) string {
	var b bytes.Buffer
	e := json.NewEncoder(&b)
	e.SetEscapeHTML(false)
	if err := e.Encode(v); err != nil {
		return fmt.Sprintf("<unencodable: %v>", err)
	}
	return strings.TrimSuffix(b.String(), "\n")
}

// Universal inspects one in-process run for the universal clauses (termination, no internal panic).
// It returns "" when the run is clean, otherwise the clause name and a detail text.
func Universal(r mx.Result) (clause, detail string) {
	if r.Crash != "" {
		d := "a builtin panicked (crash.Handler report on fd 2): " + clip(r.Crash, 600)
		if r.Hang {
			d += "; the caller is left blocked (the crashed process never signals termination)"
		}
		return "no-panic", d
	}
	if r.Hang {
		return "terminates", "caller still blocked after the ceiling (a builtin that panics never signals termination)\n" + clip(r.HangStack, 1200)
	}
	if mx.HasPanicText(r.Stdout) || mx.HasPanicText(r.Stderr) || mx.HasPanicText(r.Err) || r.Crash != "" {
		return "no-panic", "internal panic reported: " + clip(r.Stderr+r.Err+r.Crash, 600)
	}
	return "", ""
}

func clip(s string, n int) string {
	if len(s) <= n {
		return s
	}
	return s[:n] + "…"
}

// Clip shortens long strings (60 KiB elements) for details and samples.
func Clip(s string, n int) string { return clip(s, n) }

// ClipList renders a list with long elements abbreviated.
func ClipList(l []string) string {
	var b strings.Builder
	b.WriteString("[")
	for i, e := range l {
		if i > 0 {
			b.WriteString(" ")
		}
		if len(e) > 40 {
			fmt.Fprintf(&b, "%q…(%d bytes)", e[:12], len(e))
		} else {
			fmt.Fprintf(&b, "%q", e)
		}
	}
	b.WriteString("]")
	return b.String()
}

// EqualLists compares two string lists (nil and empty are equal).
func EqualLists(a, b []string) bool {
	if len(a) != len(b) {
		return false
	}
	for i := range a {
		if a[i] != b[i] {
			return false
		}
	}
	return true
}

// ---- crash-aware runner ---------------------------------------------------------------------------
//
// A builtin that panics is recovered by murex's crash.Handler, which prints a report ending in
// "!!! Murex has crashed !!!" to fd 2 and returns without signalling termination: the caller then
// stays blocked until mx.Run's ceiling (20 s). Run watches fd 2 for that marker so that such a case
// is classified at once (clause no-panic) instead of costing the full ceiling. Everything read from
// fd 2 is passed through to the original descriptor.

const crashMarker = "!!! Murex has crashed !!!"

var (
	watchOnce sync.Once
	crashCh   = make(chan string, 64)
)

func watch() {
	r, w, err := os.Pipe()
	if err != nil {
		return
	}
	saved, err := syscall.Dup(2)
	if err != nil {
		return
	}
	if err := syscall.Dup2(int(w.Fd()), 2); err != nil {
		return
	}
	orig := os.NewFile(uintptr(saved), "stderr-orig")
	go func() {
		var acc []byte
		buf := make([]byte, 32768)
		for {
			n, err := r.Read(buf)
			if n > 0 {
				orig.Write(buf[:n])
				acc = append(acc, buf[:n]...)
				for {
					i := bytes.Index(acc, []byte(crashMarker))
					if i < 0 {
						break
					}
					report := string(acc[:i])
					acc = acc[i+len(crashMarker):]
					select {
					case crashCh <- report:
					default:
					}
				}
				if len(acc) > 1<<16 {
					acc = acc[len(acc)-(1<<15):]
				}
			}
			if err != nil {
				return
			}
		}
	}()
}

// crashSummary keeps the panic value and the murex frames of a crash report.
func crashSummary(report string) string {
	if i := strings.LastIndex(report, "Error: "); i >= 0 {
		report = report[i:]
	}
	var keep []string
	for _, l := range strings.Split(report, "\n") {
		l = strings.TrimSpace(l)
		switch {
		case strings.HasPrefix(l, "Error: "):
			keep = append(keep, l)
		case strings.HasPrefix(l, "- function: ") && !strings.Contains(l, "runtime."):
			keep = append(keep, strings.TrimSuffix(strings.TrimPrefix(l, "- function: "), "(...)"))
		}
	}
	return strings.Join(keep, " <- ")
}

// Run is mx.Run with immediate crash detection.
func Run(block string, o *mx.Opt) mx.Result {
	watchOnce.Do(watch)
	for len(crashCh) > 0 {
		<-crashCh
	}
	done := make(chan mx.Result, 1)
	var fork *lang.Fork
	oo := mx.Opt{}
	if o != nil {
		oo = *o
	}
	userSetup := oo.Setup
	oo.Setup = func(f *lang.Fork) {
		fork = f
		if userSetup != nil {
			userSetup(f)
		}
	}
	go func() { done <- mx.Run(block, &oo) }()
	select {
	case r := <-done:
		// a crash report may have been printed by a run that nevertheless returned
		select {
		case rep := <-crashCh:
			r.Crash = "Murex has crashed: " + crashSummary(rep)
		default:
		}
		return r
	case rep := <-crashCh:
		// give the run a moment to return on its own (it does not after a recovered builtin panic)
		select {
		case r := <-done:
			r.Crash = "Murex has crashed: " + crashSummary(rep)
			return r
		case <-time.After(5 * time.Millisecond):
		}
		reap(fork)
		return mx.Result{Hang: true, Crash: "Murex has crashed: " + crashSummary(rep)}
	}
}

// reap cancels what an abandoned (crashed) run left behind: the surviving pipeline stages would
// otherwise spin in streams.Stdin.Read for ever, waiting for the crashed stage to close its stdout.
func reap(fork *lang.Fork) {
	defer func() { recover() }()
	if fork == nil {
		return
	}
	for _, procs := range fork.Forks.GetForks() {
		for i := range *procs {
			p := &(*procs)[i]
			if p.Stdin != nil {
				p.Stdin.ForceClose()
			}
			if p.Stdout != nil {
				p.Stdout.ForceClose()
			}
			if p.Done != nil {
				p.Done()
			}
		}
	}
	fork.KillForks(1)
	if fork.Done != nil {
		fork.Done()
	}
}
