// Package scoping: C11 (variables are scoped per function call, globals are shared). Programs are
// operation histories: every op tree up to a size bound is rendered as a murex program, run
// in-process, and every read is compared with a scope-stack model.
package scoping

import (
	"fmt"
	"os"
	"sort"
	"strconv"
	"strings"

	"verif/mx"
	"verif/vlib"

	"github.com/lmorg/murex/lang"
)

// node kinds
const (
	kSet = iota
	kUnset
	kRead
	kGSet
	kGRead
	kGUnset
	kCall
	kIf
	kForeach
	kSub
	kSwitch
	kVRead // read through the value getter: the variable used as an operand of an expression
)

type leaf struct {
	kind int
	name string
	val  int
	tok  string // witness token
}

// leaves, simplest first. Local values 1,2 and global values 3,4 never coincide, so a read that
// returns the wrong table's value is visible; the last leaf gives the global the SAME value as a local
// assignment (a write that is skipped or merged because "the value is already there" must still bind).
var leaves = []leaf{
	{kRead, "x", 0, "rx"},
	{kSet, "x", 1, "x=1"},
	{kGSet, "x", 3, "gx=3"},
	{kUnset, "x", 0, "ux"},
	{kGUnset, "x", 0, "gux"},
	{kGRead, "x", 0, "grx"},
	{kSet, "x", 2, "x=2"},
	{kGSet, "x", 4, "gx=4"},
	{kVRead, "x", 0, "rvx"},
	{kRead, "y", 0, "ry"},
	{kSet, "y", 1, "y=1"},
	{kGSet, "y", 3, "gy=3"},
	{kUnset, "y", 0, "uy"},
	{kGSet, "x", 1, "gx=1"},
}

var containers = []struct {
	kind int
	tok  string
}{{kCall, "call"}, {kIf, "if"}, {kForeach, "foreach"}, {kSub, "sub"}, {kSwitch, "switch"}}

type node struct {
	leaf
	kids []*node
}

// ---- enumeration of forests with exactly n nodes and nesting depth <= d -----------------------

// forests calls fn for every forest (sequence of trees) with exactly n nodes, nesting <= depth.
func forests(n, depth, nleaves int, fn func(f []*node) bool) bool {
	if n == 0 {
		return fn(nil)
	}
	// first tree has k nodes, rest n-k
	for k := 1; k <= n; k++ {
		ok := trees(k, depth, nleaves, func(t *node) bool {
			return forests(n-k, depth, nleaves, func(rest []*node) bool {
				return fn(append([]*node{t}, rest...))
			})
		})
		if !ok {
			return false
		}
	}
	return true
}

func trees(n, depth, nleaves int, fn func(t *node) bool) bool {
	if n == 1 {
		for i := 0; i < nleaves; i++ {
			if !fn(&node{leaf: leaves[i]}) {
				return false
			}
		}
		return true
	}
	if depth == 0 {
		return true
	}
	for _, c := range containers {
		ok := forests(n-1, depth-1, nleaves, func(kids []*node) bool {
			return fn(&node{leaf: leaf{kind: c.kind, tok: c.tok}, kids: kids})
		})
		if !ok {
			return false
		}
	}
	return true
}

// ---- witness text -------------------------------------------------------------------------------

func text(f []*node) string {
	var p []string
	for _, n := range f {
		if n.kind >= kCall {
			p = append(p, n.tok+"{"+text(n.kids)+"}")
		} else {
			p = append(p, n.tok)
		}
	}
	return strings.Join(p, " ")
}

func parse(s string) ([]*node, bool) {
	toks := strings.Fields(strings.NewReplacer("{", " { ", "}", " } ").Replace(s))
	pos := 0
	var forest func() ([]*node, bool)
	forest = func() ([]*node, bool) {
		var out []*node
		for pos < len(toks) && toks[pos] != "}" {
			t := toks[pos]
			pos++
			found := false
			for _, l := range leaves {
				if l.tok == t {
					out = append(out, &node{leaf: l})
					found = true
				}
			}
			for _, c := range containers {
				if c.tok == t {
					if pos >= len(toks) || toks[pos] != "{" {
						return nil, false
					}
					pos++
					kids, ok := forest()
					if !ok || pos >= len(toks) || toks[pos] != "}" {
						return nil, false
					}
					pos++
					out = append(out, &node{leaf: leaf{kind: c.kind, tok: c.tok}, kids: kids})
					found = true
				}
			}
			if !found {
				return nil, false
			}
		}
		return out, true
	}
	f, ok := forest()
	return f, ok && pos == len(toks)
}

// ---- rendering as murex source -----------------------------------------------------------------

type render struct {
	funcs  []string
	nread  int
	nfuncs int
}

func (r *render) block(f []*node, b *strings.Builder, indent string) {
	for _, n := range f {
		b.WriteString(indent)
		switch n.kind {
		case kSet:
			fmt.Fprintf(b, "%s = %d\n", n.name, n.val)
		case kUnset:
			fmt.Fprintf(b, "!set %s\n", n.name)
		case kRead:
			r.nread++
			fmt.Fprintf(b, "out \"r%d=$%s\"\n", r.nread, n.name)
		case kVRead:
			// the assignment fails (and && skips the out) when the variable is undefined
			r.nread++
			fmt.Fprintf(b, "vscope_t = $%s + 0 && out \"r%d=$vscope_t\"\n", n.name, r.nread)
		case kGSet:
			fmt.Fprintf(b, "$GLOBAL.%s = %d\n", n.name, n.val)
		case kGRead:
			r.nread++
			fmt.Fprintf(b, "out \"r%d=$GLOBAL.%s\"\n", r.nread, n.name)
		case kGUnset:
			fmt.Fprintf(b, "!global %s\n", n.name)
		case kCall:
			r.nfuncs++
			name := "vscope_f" + strconv.Itoa(r.nfuncs)
			var fb strings.Builder
			r.funcs = append(r.funcs, "") // reserve the position (outer functions first)
			at := len(r.funcs) - 1
			fmt.Fprintf(&fb, "function %s {\n", name)
			r.block(n.kids, &fb, "    ")
			fb.WriteString("}\n")
			r.funcs[at] = fb.String()
			b.WriteString(name + "\n")
		case kIf:
			b.WriteString("if { true } then {\n")
			r.block(n.kids, b, indent+"    ")
			b.WriteString(indent + "}\n")
		case kForeach:
			b.WriteString("%[1] -> foreach vscope_i {\n")
			r.block(n.kids, b, indent+"    ")
			b.WriteString(indent + "}\n")
		case kSwitch:
			b.WriteString("switch {\n" + indent + "  case { true } then {\n")
			r.block(n.kids, b, indent+"    ")
			b.WriteString(indent + "  }\n" + indent + "}\n")
		case kSub:
			b.WriteString("out ${\n")
			r.block(n.kids, b, indent+"    ")
			b.WriteString(indent + "}\n")
		}
	}
}

// program: function definitions, the body, then the epilogue reading everything at top level.
func program(f []*node) string {
	r := &render{}
	var body strings.Builder
	r.block(f, &body, "")
	var b strings.Builder
	for _, fn := range r.funcs {
		b.WriteString(fn)
	}
	b.WriteString(body.String())
	b.WriteString("out \"ex=$x\"\nout \"ey=$y\"\nout \"egx=$GLOBAL.x\"\nout \"egy=$GLOBAL.y\"\n")
	return b.String()
}

// ---- the model of the statement -----------------------------------------------------------------

type model struct {
	frames []map[string]int
	global map[string]int
	nread  int
	states map[string]bool
	ops    int64
	// non-triviality
	writeInContainer bool
	undefinedRead    bool
	shadowRead       bool
}

func (m *model) top() map[string]int { return m.frames[len(m.frames)-1] }

func (m *model) key() string {
	var b strings.Builder
	for _, f := range m.frames {
		b.WriteString(mapKey(f) + "/")
	}
	return b.String() + "G" + mapKey(m.global)
}

func mapKey(mm map[string]int) string {
	var ks []string
	for k, v := range mm {
		ks = append(ks, fmt.Sprintf("%s%d", k, v))
	}
	sort.Strings(ks)
	return strings.Join(ks, ",")
}

// run returns what the forest prints.
func (m *model) run(f []*node, inContainer bool) string {
	var out strings.Builder
	for _, n := range f {
		m.ops++
		switch n.kind {
		case kSet:
			m.top()[n.name] = n.val
		case kUnset:
			delete(m.top(), n.name) // only this scope's binding
		case kGSet:
			m.global[n.name] = n.val
		case kGUnset:
			delete(m.global, n.name)
		case kRead, kVRead:
			m.nread++
			if v, ok := m.top()[n.name]; ok {
				if _, g := m.global[n.name]; g {
					m.shadowRead = true
				}
				fmt.Fprintf(&out, "r%d=%d\n", m.nread, v)
			} else if v, ok := m.global[n.name]; ok {
				fmt.Fprintf(&out, "r%d=%d\n", m.nread, v)
			} else {
				m.undefinedRead = true
			}
		case kGRead:
			m.nread++
			if v, ok := m.global[n.name]; ok {
				fmt.Fprintf(&out, "r%d=%d\n", m.nread, v)
			} else {
				m.undefinedRead = true
			}
		case kCall:
			m.frames = append(m.frames, map[string]int{})
			out.WriteString(m.run(n.kids, true))
			m.frames = m.frames[:len(m.frames)-1]
		case kIf, kForeach, kSwitch:
			out.WriteString(m.run(n.kids, true))
		case kSub:
			// `out ${ ... }`: the sub-shell's output with the trailing newline trimmed, plus out's own
			s := m.run(n.kids, true)
			out.WriteString(strings.TrimSuffix(s, "\n") + "\n")
		}
		if inContainer && (n.kind == kSet || n.kind == kUnset || n.kind == kGSet || n.kind == kGUnset) {
			m.writeInContainer = true
		}
		if m.states != nil {
			m.states[m.key()] = true
		}
	}
	return out.String()
}

func (m *model) epilogue() string {
	var out strings.Builder
	for _, n := range []string{"x", "y"} {
		if v, ok := m.top()[n]; ok {
			fmt.Fprintf(&out, "e%s=%d\n", n, v)
		} else if v, ok := m.global[n]; ok {
			fmt.Fprintf(&out, "e%s=%d\n", n, v)
		}
	}
	for _, n := range []string{"x", "y"} {
		if v, ok := m.global[n]; ok {
			fmt.Fprintf(&out, "eg%s=%d\n", n, v)
		}
	}
	return out.String()
}

// ---- running -------------------------------------------------------------------------------------

func reset(*lang.Fork) {
	lang.GlobalVariables.Unset("x")
	lang.GlobalVariables.Unset("y")
}

func setup(c *vlib.Ctx) {
	os.Unsetenv("x")
	os.Unsetenv("y")
	mx.Init(c.WorkDir)
	r := mx.Run(`config get proc strict-vars`, nil)
	if strings.TrimSpace(r.Stdout) != "true" {
		c.HarnessError("proc strict-vars is not true by default: %v", r)
	}
}

func check(c *vlib.Ctx, f []*node, states map[string]bool, sample bool) {
	w := text(f)
	m := &model{frames: []map[string]int{{}}, global: map[string]int{}, states: states}
	want := m.run(f, false) + m.epilogue()
	prog := program(f)
	r := mx.Run(prog, &mx.Opt{Setup: reset})
	c.P.Transitions += m.ops
	hasContainer := strings.Contains(w, "{")
	label := "flat"
	if hasContainer {
		label = "nested"
	}
	if m.undefinedRead {
		label += " undefined-read"
	}
	if m.shadowRead {
		label += " shadowing-read"
	}
	if m.writeInContainer {
		label += " write-in-container"
	}
	label += fmt.Sprintf(" lines=%d", min(strings.Count(want, "\n"), 6))
	c.Eval(hasContainer && m.writeInContainer, label)
	if sample {
		c.Sample(map[string]any{"ops": w, "program": prog, "stdout": r.Stdout})
	}
	switch {
	case r.Hang:
		c.Violation("terminates", w, "caller still blocked after ceiling\n"+r.HangStack)
	case mx.HasPanicText(r.Stderr) || mx.HasPanicText(r.Stdout):
		c.Violation("no-panic", w, r.String())
	case r.Stdout != want:
		c.Violation("reads", w, fmt.Sprintf("stdout=%q expected %q\nprogram:\n%s", r.Stdout, want, prog))
	}
}

type bnd struct{ size, depth, nleaves int }

func bounds(quick bool) []bnd {
	if quick {
		return []bnd{{4, 2, len(leaves)}}
	}
	// full alphabet to 4 ops, 5 ops over the eight x-leaves, 6 ops over the four simplest leaves
	return []bnd{{4, 2, len(leaves)}, {5, 2, 8}, {6, 2, 4}}
}

func run(c *vlib.Ctx) {
	setup(c)
	states := map[string]bool{}
	cnt := 0
	for bi, b := range bounds(c.Quick()) {
		lo := 1
		if bi > 0 {
			lo = b.size
		}
		for n := lo; n <= b.size; n++ {
			ok := forests(n, b.depth, b.nleaves, func(f []*node) bool {
				if !c.Next() {
					return true
				}
				cnt++
				if cnt&0x3ff == 0 && c.Expired() {
					return false
				}
				check(c, f, states, cnt%1009 == 0)
				return true
			})
			if !ok {
				return
			}
		}
	}
	c.P.States = int64(len(states))
	c.Note("states = distinct scope-stack states (frames + global table) of the model after an op, counted per worker and summed; transitions = ops executed by the real interpreter")
}

func replay(c *vlib.Ctx, w string) {
	f, ok := parse(w)
	if !ok {
		fmt.Println("cannot parse witness")
		return
	}
	setup(c)
	check(c, f, nil, false)
}

func init() {
	vlib.Register(&vlib.Check{
		ID: "C11", Engine: "E3",
		Rule:   "every op tree (program) with at most N nodes and nesting depth <= 2 over leaves {x=1, x=2, y=1 (local assignment), !set x|y, read $x|$y, $x used as an expression operand, $GLOBAL.x=3|4|1 (1 = the value local assignments use), $GLOBAL.y=3, read $GLOBAL.x, !global x} and containers {call of a function defined for that site, if{true}then{..}, %[1]->foreach{..}, out ${..}, switch{case{true}then{..}}} (quick N<=4; thorough N<=4, plus N=5 over the eight x-only leaves and N=6 over the four simplest leaves rx, x=1, gx=3, ux) is rendered as a murex program with strict-vars on, run in a fresh function scope with the global table reset, followed by top-level reads of x, y, GLOBAL.x, GLOBAL.y; every tagged read line on stdout (absent = undefined-variable failure) is compared with a scope-stack model: a call pushes an empty frame, blocks and sub-shells share the frame, one global table, lookup local then global, unset removes only the current frame's binding; non-trivial = the program has a container with a write (set/unset/global set/global unset) inside it",
		Run:    run,
		Replay: replay,
		Assumptions: []string{
			"names {x,y}, local values {1,2}, global values {3,4} and 1 for x; environment variables x and y are unset",
			"the exit status of `!set`/`!global` on an unbound name and the text of error messages are not asserted (statement silent); an undefined read is recognised by its missing stdout line",
			"`out ${..}` prints the sub-shell's output with one trailing newline removed plus a newline (documented sub-shell behaviour), used only as observation channel",
		},
	})
}
