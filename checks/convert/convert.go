package convert
