// Package convert: C13 — integers below 2^53, finite floats and booleans survive the conversion to
// their string form and back, at the API (types.ConvertGoType) over large, completely enumerated
// finite sets, and at the murex level (typed variable, `$var`, use in an expression) for a boundary subset.
package convert

import (
	"fmt"
	"math"
	"strconv"
	"strings"

	"github.com/lmorg/murex/lang"
	"github.com/lmorg/murex/lang/types"

	"verif/checks/g1util"
	"verif/mx"
	"verif/vlib"
)

const maxInt = int64(1)<<53 - 1 // "magnitude below 2^53"

// ---------------------------------------------------------------------------------------------
// the enumerated sets

// ints: every |n| <= small, then ±(2^k + d) and ±(10^k + d) for |d| <= 64 within ±(2^53-1).
// (boundary values may repeat values of the dense range; a repeat is harmless.)
func enumInts(small int64, fn func(n int64, boundary bool) bool) {
	for n := -small; n <= small; n++ {
		if !fn(n, false) {
			return
		}
	}
	emit := func(base int64) bool {
		for d := int64(-64); d <= 64; d++ {
			for _, s := range []int64{1, -1} {
				n := s * (base + d)
				if n > maxInt || n < -maxInt {
					continue
				}
				if n >= -small && n <= small {
					continue
				}
				if !fn(n, true) {
					return false
				}
			}
		}
		return true
	}
	for k := 0; k <= 53; k++ {
		if !emit(int64(1) << k) {
			return
		}
	}
	p := int64(1)
	for k := 0; k <= 15; k++ {
		if !emit(p) {
			return
		}
		p *= 10
	}
}

// mantissas of Hamming weight <= w or >= 52-w (52-bit field)
func mantissas(w int) []uint64 {
	var out []uint64
	var rec func(start, left int, cur uint64)
	rec = func(start, left int, cur uint64) {
		out = append(out, cur)
		if left == 0 {
			return
		}
		for b := start; b < 52; b++ {
			rec(b+1, left-1, cur|1<<uint(b))
		}
	}
	rec(0, w, 0)
	n := len(out)
	const all = uint64(1)<<52 - 1
	for i := 0; i < n; i++ {
		out = append(out, all^out[i])
	}
	return out
}

// floats: every sign x every biased exponent 0..2046 x the mantissa set; then (thorough) m x 10^e
// decimals and the neighbours of the powers of ten.
func enumFloats(quick bool, fn func(f float64) bool) {
	w := 1
	if !quick {
		w = 2
	}
	ms := mantissas(w)
	for _, sign := range []uint64{0, 1} {
		for e := uint64(0); e <= 2046; e++ {
			for _, m := range ms {
				if !fn(math.Float64frombits(sign<<63 | e<<52 | m)) {
					return
				}
			}
		}
	}
	// neighbours of the powers of ten (these need 16-17 significant digits)
	for e := -323; e <= 308; e++ {
		f, err := strconv.ParseFloat("1e"+strconv.Itoa(e), 64)
		if err != nil {
			continue
		}
		b := math.Float64bits(f)
		for d := -2; d <= 2; d++ {
			x := math.Float64frombits(uint64(int64(b) + int64(d)))
			if math.IsInf(x, 0) || math.IsNaN(x) {
				continue
			}
			if !fn(x) || !fn(-x) {
				return
			}
		}
	}
	mMax := 99
	if !quick {
		mMax = 999
	}
	for m := 1; m <= mMax; m++ {
		for e := -326; e <= 308; e++ {
			f, err := strconv.ParseFloat(strconv.Itoa(m)+"e"+strconv.Itoa(e), 64)
			if err != nil || math.IsInf(f, 0) {
				continue
			}
			if !fn(f) || !fn(-f) {
				return
			}
		}
	}
}

// ---------------------------------------------------------------------------------------------
// API-level oracle

func conv(v any, dt string) (any, string) {
	r, err := types.ConvertGoType(v, dt)
	if err != nil {
		return r, err.Error()
	}
	return r, ""
}

func sigDigits(s string) int {
	s = strings.TrimLeft(s, "-+")
	s = strings.Replace(s, ".", "", 1)
	s = strings.TrimLeft(s, "0")
	s = strings.TrimRight(s, "0")
	return len(s)
}

func lenBucket(s string) string {
	switch {
	case len(s) <= 17:
		return "len<=17"
	case len(s) <= 40:
		return "len<=40"
	case len(s) <= 200:
		return "len<=200"
	}
	return "len>200"
}

func checkIntAPI(c *vlib.Ctx, n64 int64, boundary bool) {
	n := int(n64)
	w := strconv.FormatInt(n64, 10)
	sv, e := conv(n, types.String)
	s, ok := sv.(string)
	nt := boundary || n64 < 0 || len(w) >= 16
	c.Eval(nt, fmt.Sprintf("int digits=%d neg=%v", len(strings.TrimLeft(w, "-")), n64 < 0))
	if e != "" || !ok {
		c.Violation("int-to-str", "int "+w, fmt.Sprintf("ConvertGoType(%d, str) = %#v err=%s", n, sv, e))
		return
	}
	bad := func(step string, got any, e string) {
		c.Violation("int-roundtrip", "int "+w, fmt.Sprintf("%s: string form %q converted back gives %#v (err=%q), expected %d", step, s, got, e, n))
	}
	if b, e := conv(s, types.Integer); e != "" || b != any(n) {
		bad("str->int", b, e)
		return
	}
	if b, e := conv([]byte(s), types.Integer); e != "" || b != any(n) {
		bad("[]byte->int", b, e)
		return
	}
	for _, dt := range []string{types.Number, types.Float} {
		if b, e := conv(s, dt); e != "" || b != any(float64(n)) {
			bad("str->"+dt, b, e)
			return
		}
	}
	// through the number type: int -> num -> str -> int
	fv, e := conv(n, types.Number)
	if e != "" || fv != any(float64(n)) {
		c.Violation("int-roundtrip", "int "+w, fmt.Sprintf("ConvertGoType(%d, num) = %#v err=%s", n, fv, e))
		return
	}
	sf, e := conv(fv, types.String)
	s2, _ := sf.(string)
	if b, e2 := conv(s2, types.Integer); e != "" || e2 != "" || b != any(n) {
		c.Violation("int-roundtrip", "int "+w, fmt.Sprintf("int->num->str gives %q, back to int gives %#v (err=%q %q), expected %d", s2, b, e, e2, n))
		return
	}
	if b, e := conv(fv, types.Integer); e != "" || b != any(n) {
		bad("num->int", b, e)
	}
}

func checkFloatAPI(c *vlib.Ctx, f float64) {
	w := "float " + strconv.FormatFloat(f, 'g', -1, 64) + " bits=" + strconv.FormatUint(math.Float64bits(f), 16)
	sv, e := conv(f, types.String)
	s, ok := sv.(string)
	if e != "" || !ok {
		c.Eval(true, "float error")
		c.Violation("float-to-str", w, fmt.Sprintf("ConvertGoType(%v, str) = %#v err=%s", f, sv, e))
		return
	}
	sd := sigDigits(s)
	exp := int(math.Float64bits(f)>>52) & 0x7ff
	nt := sd >= 16 || len(s) > 21 || exp == 0 || exp == 2046
	kind := "normal"
	if exp == 0 {
		kind = "subnormal"
		if f == 0 {
			kind = "zero"
		}
	}
	c.Eval(nt, fmt.Sprintf("float %s sig=%d %s neg=%v", kind, sd, lenBucket(s), math.Signbit(f)))
	for _, dt := range []string{types.Number, types.Float} {
		for _, in := range []any{s, []byte(s)} {
			b, e := conv(in, dt)
			g, ok := b.(float64)
			switch {
			case e != "" || !ok:
				c.Violation("float-roundtrip", w, fmt.Sprintf("string form %q does not convert back to %s: %#v err=%s", s, dt, b, e))
				return
			case g != f:
				c.Violation("float-roundtrip", w, fmt.Sprintf("string form %q converts back to %v (bits %x), expected %v (bits %x)", s, g, math.Float64bits(g), f, math.Float64bits(f)))
				return
			case math.Signbit(g) != math.Signbit(f):
				c.Extra("zero lost its sign in the round trip (numerically equal: accepted)", 1)
			}
		}
	}
	if b, e := conv(f, types.Number); e != "" || b != any(f) {
		c.Violation("float-roundtrip", w, fmt.Sprintf("ConvertGoType(f, num) = %#v err=%s", b, e))
	}
}

func checkBoolAPI(c *vlib.Ctx, v bool) {
	w := fmt.Sprintf("bool %v", v)
	c.Eval(false, w)
	for _, via := range []string{types.String, types.Integer, types.Number, types.Float, types.Boolean, types.Generic} {
		m, e := conv(v, via)
		if e != "" {
			c.Violation("bool-roundtrip", w, fmt.Sprintf("ConvertGoType(%v, %s): %s", v, via, e))
			continue
		}
		ins := []any{m}
		if s, ok := m.(string); ok {
			ins = append(ins, []byte(s), []rune(s))
		}
		for _, in := range ins {
			b, e := conv(in, types.Boolean)
			if e != "" || b != any(v) {
				c.Violation("bool-roundtrip", w, fmt.Sprintf("%v -> %s gives %#v, back to bool gives %#v (err=%q)", v, via, m, b, e))
			}
		}
	}
}

// ---------------------------------------------------------------------------------------------
// murex-level subset

type mxCase struct {
	witness string
	kind    string // int | float | bool
	dt      string // int num float bool
	form    string // api-set | set | literal
	i       int64
	f       float64
	b       bool
	text    string // independent string form (strconv)
}

func murexValues(quick bool, fn func(cs mxCase) bool) {
	emit := func(cs mxCase) bool {
		cs.witness = fmt.Sprintf("murex %s %s %s", cs.form, cs.dt, cs.text)
		return fn(cs)
	}
	// integers
	seen := map[int64]bool{}
	var ints []int64
	add := func(n int64) {
		if n <= maxInt && n >= -maxInt && !seen[n] {
			seen[n] = true
			ints = append(ints, n)
		}
	}
	for n := int64(-20); n <= 20; n++ {
		add(n)
	}
	dmax := int64(1)
	if !quick {
		dmax = 3
	}
	for k := 0; k <= 53; k++ {
		for d := -dmax; d <= dmax; d++ {
			add(int64(1)<<k + d)
			add(-(int64(1)<<k + d))
		}
	}
	p := int64(1)
	for k := 0; k <= 15; k++ {
		for d := -dmax; d <= dmax; d++ {
			add(p + d)
			add(-(p + d))
		}
		p *= 10
	}
	for _, n := range ints {
		t := strconv.FormatInt(n, 10)
		for _, dt := range []string{"int", "num"} {
			for _, form := range []string{"api-set", "set", "literal"} {
				if form == "literal" && dt == "int" {
					continue // a literal in an expression is always a num
				}
				if !emit(mxCase{kind: "int", dt: dt, form: form, i: n, f: float64(n), text: t}) {
					return
				}
			}
		}
	}
	// floats
	var fl []float64
	fseen := map[uint64]bool{}
	addf := func(f float64) {
		if math.IsInf(f, 0) || math.IsNaN(f) {
			return
		}
		for _, x := range []float64{f, -f} {
			if !fseen[math.Float64bits(x)] {
				fseen[math.Float64bits(x)] = true
				fl = append(fl, x)
			}
		}
	}
	step := uint64(64)
	if !quick {
		step = 8
	}
	const all = uint64(1)<<52 - 1
	for e := uint64(0); e <= 2046; e++ {
		if e%step != 0 && e > 3 && e < 2043 && !(e >= 1020 && e <= 1080) {
			continue
		}
		for _, m := range []uint64{0, 1, all, 1 << 51, 0x5555555555555, all - 1, 0x999999999999a} {
			addf(math.Float64frombits(e<<52 | m))
		}
	}
	for _, s := range []string{"0.1", "0.2", "0.3", "1.5", "2.5", "0.5", "3.14159", "1e21", "1e22", "1e-7", "123456.789", "0.30000000000000004", "1.7976931348623157e308", "5e-324", "2.2250738585072014e-308"} {
		f, _ := strconv.ParseFloat(s, 64)
		addf(f)
		addf(1 / f)
	}
	for _, f := range fl {
		t := strconv.FormatFloat(f, 'f', -1, 64)
		for _, dt := range []string{"num", "float"} {
			for _, form := range []string{"api-set", "set", "literal"} {
				if form == "literal" && dt == "float" {
					continue
				}
				if !emit(mxCase{kind: "float", dt: dt, form: form, f: f, text: t}) {
					return
				}
			}
		}
	}
	for _, b := range []bool{true, false} {
		for _, form := range []string{"api-set", "set", "literal"} {
			if !emit(mxCase{kind: "bool", dt: "bool", form: form, b: b, text: strconv.FormatBool(b)}) {
				return
			}
		}
	}
}

func numOf(v any) (float64, bool) {
	switch t := v.(type) {
	case float64:
		return t, true
	case int:
		return float64(t), true
	}
	return 0, false
}

func checkMurex(c *vlib.Ctx, cs mxCase, sample bool) {
	opt := &mx.Opt{}
	block := ""
	switch cs.form {
	case "api-set":
		var gv any
		switch {
		case cs.kind == "bool":
			gv = cs.b
		case cs.dt == "int":
			gv = int(cs.i)
		default:
			gv = cs.f
		}
		opt.Setup = func(f *lang.Fork) {
			if err := f.Variables.Set(f.Process, "v", gv, cs.dt); err != nil {
				c.HarnessError("Variables.Set: %v", err)
			}
		}
	case "set":
		block = "set " + cs.dt + " v=" + cs.text + "\n"
	case "literal":
		block = "v = " + cs.text + "\n"
	}
	if cs.kind == "bool" {
		block += "out $v\nw = ($v == true)\nx = $v"
	} else {
		block += "out $v\nw = $v + 0\nx = $v"
	}
	r, vars := g1util.RunVars(block, opt, "v", "w", "x")
	v, w, x := vars[0], vars[1], vars[2]
	nt := cs.kind != "bool" && (sigDigits(cs.text) >= 16 || len(cs.text) > 21 || strings.HasPrefix(cs.text, "-"))
	outcome := fmt.Sprintf("murex %s/%s/%s exit=%d", cs.kind, cs.dt, cs.form, r.Exit)
	c.Eval(nt, outcome)
	if sample {
		c.Sample(map[string]any{"case": cs.witness, "block": vlib.Clip(block, 120), "stdout": vlib.Clip(r.Stdout, 60), "w": fmt.Sprint(w.Value), "x": fmt.Sprint(x.Value)})
	}
	fail := func(clause, f string, a ...any) {
		c.Violation(clause, cs.witness, fmt.Sprintf(f, a...)+" | block: "+vlib.Clip(strings.ReplaceAll(block, "\n", "; "), 200)+" | "+vlib.Clip(r.Stderr, 300))
	}
	switch {
	case r.Hang:
		fail("terminates", "caller blocked: %s", r.HangStack)
		return
	case mx.HasPanicText(r.Stderr) || mx.HasPanicText(r.Err):
		fail("no-panic", "%s", r.String())
		return
	case r.Exit != 0 || !v.Set || !w.Set || !x.Set:
		fail("murex-evaluates", "exit=%d v.set=%v w.set=%v x.set=%v", r.Exit, v.Set, w.Set, x.Set)
		return
	}
	out := strings.TrimSuffix(r.Stdout, "\n")
	switch cs.kind {
	case "bool":
		if out != cs.text {
			fail("murex-read", "`out $v` printed %q, expected %q", out, cs.text)
		}
		if b, ok := w.Value.(bool); !ok || b != cs.b {
			fail("murex-expression", "($v == true) is %#v, expected %v", w.Value, cs.b)
		}
		if b, ok := x.Value.(bool); !ok || b != cs.b {
			fail("murex-copy", "x = $v holds %#v (%s), expected %v", x.Value, x.DataType, cs.b)
		}
		if b, ok := v.Value.(bool); !ok || b != cs.b {
			fail("murex-store", "v holds %#v (%s), expected %v", v.Value, v.DataType, cs.b)
		}
	default:
		want := cs.f
		if sv, ok := numOf(v.Value); !ok || sv != want {
			fail("murex-store", "v holds %#v (%s), expected %v", v.Value, v.DataType, want)
			return
		}
		pf, err := strconv.ParseFloat(out, 64)
		if err != nil || pf != want {
			fail("murex-read", "`out $v` printed %q which denotes %v, expected %v (%s)", out, pf, want, cs.text)
		} else if cs.dt == "int" {
			if pi, err := strconv.ParseInt(out, 10, 64); err != nil || pi != cs.i {
				fail("murex-read", "`out $v` of an int printed %q, expected %d", out, cs.i)
			}
		}
		if wv, ok := numOf(w.Value); !ok || wv != want {
			fail("murex-expression", "$v + 0 is %#v, expected %v", w.Value, want)
		}
		if xv, ok := numOf(x.Value); !ok || xv != want {
			fail("murex-copy", "x = $v holds %#v (%s), expected %v", x.Value, x.DataType, want)
		}
	}
}

// ---------------------------------------------------------------------------------------------

func init() {
	vlib.Register(&vlib.Check{
		ID: "C13", Engine: "E2",
		Rule: "API level, enumerated completely: (ints) every |n| <= 2^20 [thorough 2^24] and ±(2^k+d), ±(10^k+d) for k<=53/15, |d|<=64 inside ±(2^53-1): int->str->int, ->num, ->float, []byte form, int->num->str->int, num->int through types.ConvertGoType; " +
			"(floats) every sign x every biased exponent 0..2046 (all subnormal and normal binades, ±0, min, max) x every 52-bit mantissa of Hamming weight <=1 or >=51 [thorough <=2 or >=50], plus ±2 ulp around every power of ten 1e-323..1e308 and m x 10^e for m<=99 [thorough 999], e=-326..308: float->str->num/float must give the identical value (bit-equal; a zero that loses its sign is counted, not failed); (bools) through str, int, num, float, bool, generic and back. " +
			"murex level: boundary subset (|n|<=20, ±(2^k+d), ±(10^k+d) |d|<=1 [3]; floats: 7 mantissa patterns x every 64th [8th] binade and the first/last/middle ones x both signs, 15 named decimals and their reciprocals; both booleans) x data types {int,num | num,float | bool} x three ways of storing (Variables.Set with the Go value, `set <type> v=<text>`, expression literal `v = <text>`); the block `out $v; w = $v + 0; x = $v` is run and stdout, v, w, x are read back exactly through the variable table. " +
			"non-trivial = negative, >= 16 significant digits, a string form longer than 21 characters (padding zeros), subnormal/extreme binade, or a 2^k/10^k boundary integer",
		Run:    run,
		Replay: replay,
		Assumptions: []string{
			"the string form is the one murex itself produces (ConvertGoType(..., str)); at the murex level the text written into source is strconv's shortest 'f' form",
			"NaN and ±Inf are outside the statement (finite floats)",
		},
	})
}

func run(c *vlib.Ctx) {
	mx.Init(c.WorkDir)
	small := int64(1) << 20
	if !c.Quick() {
		small = 1 << 24
	}
	stop := false
	k := 0
	tick := func() bool {
		k++
		if k&0xffff == 0 && c.Expired() {
			stop = true
		}
		return !stop
	}
	enumInts(small, func(n int64, boundary bool) bool {
		if c.Next() {
			checkIntAPI(c, n, boundary)
		}
		return tick()
	})
	if stop {
		return
	}
	enumFloats(c.Quick(), func(f float64) bool {
		if c.Next() {
			checkFloatAPI(c, f)
		}
		return tick()
	})
	if stop {
		return
	}
	if c.Shard == 0 {
		checkBoolAPI(c, true)
		checkBoolAPI(c, false)
	}
	n := 0
	murexValues(c.Quick(), func(cs mxCase) bool {
		if !c.Next() {
			return true
		}
		n++
		if n&0xff == 0 && c.Expired() {
			return false
		}
		checkMurex(c, cs, n%401 == 1)
		return true
	})
}

// replay: witness is "int <n>", "float <g> bits=<hex>", "bool <v>" or "murex <form> <dt> <text>".
func replay(c *vlib.Ctx, w string) {
	mx.Init(c.WorkDir)
	f := strings.Fields(w)
	switch {
	case len(f) == 2 && f[0] == "int":
		n, err := strconv.ParseInt(f[1], 10, 64)
		if err == nil {
			checkIntAPI(c, n, true)
			return
		}
	case len(f) == 3 && f[0] == "float" && strings.HasPrefix(f[2], "bits="):
		b, err := strconv.ParseUint(strings.TrimPrefix(f[2], "bits="), 16, 64)
		if err == nil {
			checkFloatAPI(c, math.Float64frombits(b))
			return
		}
	case len(f) == 2 && f[0] == "bool":
		checkBoolAPI(c, f[1] == "true")
		return
	case len(f) == 4 && f[0] == "murex":
		found := false
		murexValues(false, func(cs mxCase) bool {
			if cs.witness == w {
				found = true
				checkMurex(c, cs, false)
				return false
			}
			return true
		})
		if found {
			return
		}
	}
	fmt.Println("witness not in the enumeration space")
}
