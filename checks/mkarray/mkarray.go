// Package mkarray: C18 — `a` / `ja` integer ranges (both directions, zero padding) and the cartesian
// product of several expansion blocks, compared with a reference generator written from the statement.
package mkarray

import (
	"encoding/json"
	"fmt"
	"strconv"
	"strings"

	"verif/mx"
	"verif/vlib"
)

// ---- reference generator ---------------------------------------------------------------------

func zeroPadded(s string) bool { return len(s) > 1 && s[0] == '0' }

// genRange: every integer from m to n inclusive, ascending or descending. width > 0: zero-pad to width.
func genRange(m, n, width int) []string {
	step := 1
	if n < m {
		step = -1
	}
	var out []string
	for v := m; ; v += step {
		if width > 0 && v >= 0 {
			out = append(out, fmt.Sprintf("%0*d", width, v))
		} else {
			out = append(out, strconv.Itoa(v))
		}
		if v == n {
			break
		}
	}
	return out
}

// padWidth: the width the statement defines for the spelled bounds, and whether it is defined at all.
//
//	neither bound zero-padded                   -> 0, defined
//	both zero-padded with the same width        -> that width, defined
//	only the numerically smaller bound padded   -> its width, defined (the larger bound is at least as wide
//	                                               or the padding simply applies to the narrower numbers)
//	only the larger bound padded, both padded with different widths, or equal values spelled differently
//	                                            -> not defined by the statement (which bound?): numeric
//	                                               values are still asserted, the padding is not
func padWidth(ms, ns string) (int, bool) {
	zm, zn := zeroPadded(ms), zeroPadded(ns)
	m, _ := strconv.Atoi(ms)
	n, _ := strconv.Atoi(ns)
	switch {
	case !zm && !zn:
		return 0, true
	case zm && zn:
		if len(ms) == len(ns) {
			return len(ms), true
		}
		return 0, false
	case zm && m < n:
		return len(ms), true
	case zn && n < m:
		return len(ns), true
	}
	return 0, false
}

// ---- cases -----------------------------------------------------------------------------------

type kase struct {
	cmd    string // a | ja
	param  string // the parameter text
	exp    []string
	padDef bool // padding of exp is defined by the statement (else compare numerically)
	class  string
	nontr  bool
}

func (k kase) witness() string { return k.cmd + " " + k.param }

func decodeOut(cmd, out string) ([]string, bool) {
	if cmd == "a" {
		if out == "" {
			return nil, true
		}
		if !strings.HasSuffix(out, "\n") {
			return nil, false
		}
		return strings.Split(strings.TrimSuffix(out, "\n"), "\n"), true
	}
	var a []any
	d := json.NewDecoder(strings.NewReader(out))
	d.UseNumber()
	if err := d.Decode(&a); err != nil {
		return nil, false
	}
	var res []string
	for _, x := range a {
		switch v := x.(type) {
		case string:
			res = append(res, v)
		case json.Number:
			res = append(res, v.String())
		default:
			return nil, false
		}
	}
	return res, true
}

func panicText(r mx.Result) bool {
	return mx.HasPanicText(r.Stdout) || mx.HasPanicText(r.Stderr) || mx.HasPanicText(r.Err) || r.Crash != ""
}

func check(c *vlib.Ctx, k kase, sample bool) {
	r := mx.Run(k.witness(), nil)
	w := k.witness()
	got, ok := decodeOut(k.cmd, r.Stdout)
	res := "match"
	fail := ""
	switch {
	case r.Hang:
		res = "hang"
	case panicText(r):
		res, fail = "panic", "internal panic reported"
	case r.Exit != 0:
		res, fail = "error", "expected exit 0"
	case !ok:
		res, fail = "undecodable", "stdout is not a list of elements"
	case len(got) != len(k.exp):
		res, fail = "wrong-count", fmt.Sprintf("%d elements, expected %d", len(got), len(k.exp))
	default:
		for i := range got {
			same := got[i] == k.exp[i]
			if !same && !k.padDef {
				// padding not defined: compare the integer values only
				g, e1 := strconv.Atoi(got[i])
				e, e2 := strconv.Atoi(k.exp[i])
				same = e1 == nil && e2 == nil && g == e
			}
			if !same {
				res, fail = "wrong-element", fmt.Sprintf("element %d is %q, expected %q", i, got[i], k.exp[i])
				break
			}
		}
	}
	c.Eval(k.nontr, fmt.Sprintf("%s %s -> %s", k.cmd, k.class, res))
	if !k.padDef {
		c.Extra("padding not asserted (only the larger bound is zero-padded, or two different padded widths): integer values compared", 1)
	}
	if sample {
		c.Sample(map[string]any{"command": w, "stdout": vlib.Clip(r.Stdout, 120), "exit": r.Exit, "expected_first": first(k.exp, 4), "count": len(k.exp)})
	}
	if r.Hang {
		c.Violation("terminates", w, "caller still blocked after ceiling\n"+r.HangStack)
		return
	}
	if fail != "" {
		clause := "elements"
		if res == "panic" {
			clause = "no-panic"
		}
		c.Violation(clause, w, fmt.Sprintf("%s: %s\n got      %s\n expected %s (exit=%d stderr=%q)", w, fail, vlib.Clip(strings.Join(got, " "), 300), vlib.Clip(strings.Join(k.exp, " "), 300), r.Exit, vlib.Clip(r.Stderr, 200)))
	}
}

func first(a []string, n int) []string {
	if len(a) > n {
		return a[:n]
	}
	return a
}

// ---- enumeration -----------------------------------------------------------------------------

type block struct {
	text string
	vals []string
}

func rangeBlock(ms, ns string) block {
	m, _ := strconv.Atoi(ms)
	n, _ := strconv.Atoi(ns)
	w, _ := padWidth(ms, ns)
	return block{"[" + ms + ".." + ns + "]", genRange(m, n, w)}
}

func listBlock(v ...string) block { return block{"[" + strings.Join(v, ",") + "]", v} }

type bounds struct {
	plain   int // (m,n) in [-plain, plain]^2
	padMax  int // padded spellings for m,n in [0, padMax]
	blocks  []block
	lits    []string
	triples bool
}

func boundsFor(quick bool) bounds {
	all := []block{
		rangeBlock("1", "2"), listBlock("x", "y"), rangeBlock("2", "1"), rangeBlock("09", "10"),
		listBlock("x"), rangeBlock("-1", "1"), listBlock("x", "y", "z"), rangeBlock("3", "3"),
	}
	if quick {
		return bounds{plain: 12, padMax: 12, blocks: all[:4], lits: []string{"", "a", "-"}, triples: true}
	}
	return bounds{plain: 200, padMax: 110, blocks: all, lits: []string{"", "a", "-"}, triples: true}
}

func spellings(v int) []string {
	s := strconv.Itoa(v)
	out := []string{s}
	for _, w := range []int{2, 3} {
		if len(s) < w {
			out = append(out, fmt.Sprintf("%0*d", w, v))
		}
	}
	return out
}

func sign(m, n int) string {
	switch {
	case m < 0 && n < 0:
		return "neg"
	case m < 0 || n < 0:
		return "mixed"
	}
	return "nonneg"
}

func dir(m, n int) string {
	switch {
	case m < n:
		return "asc"
	case m > n:
		return "desc"
	}
	return "single"
}

func enumerate(b bounds, fn func(kase) bool) {
	cmds := []string{"a", "ja"}
	// 1. plain spellings
	for m := -b.plain; m <= b.plain; m++ {
		for n := -b.plain; n <= b.plain; n++ {
			exp := genRange(m, n, 0)
			for _, cmd := range cmds {
				k := kase{cmd: cmd, param: fmt.Sprintf("[%d..%d]", m, n), exp: exp, padDef: true,
					class: "range " + dir(m, n) + " " + sign(m, n), nontr: !(m < n && m >= 0)}
				if !fn(k) {
					return
				}
			}
		}
	}
	// 2. zero-padded spellings of non-negative bounds
	for m := 0; m <= b.padMax; m++ {
		for n := 0; n <= b.padMax; n++ {
			for _, ms := range spellings(m) {
				for _, ns := range spellings(n) {
					if !zeroPadded(ms) && !zeroPadded(ns) {
						continue
					}
					w, def := padWidth(ms, ns)
					exp := genRange(m, n, w)
					pc := "pad-defined"
					if !def {
						pc = "pad-undefined"
					}
					for _, cmd := range cmds {
						k := kase{cmd: cmd, param: "[" + ms + ".." + ns + "]", exp: exp, padDef: def,
							class: "padded " + dir(m, n) + " " + pc, nontr: true}
						if !fn(k) {
							return
						}
					}
				}
			}
		}
	}
	// 3. two and three expansion blocks with literal text around them
	nb, nl := len(b.blocks), len(b.lits)
	for _, nblocks := range []int{2, 3} {
		if nblocks == 3 && !b.triples {
			continue
		}
		radix := []int{}
		for i := 0; i < nblocks; i++ {
			radix = append(radix, nb)
		}
		for i := 0; i <= nblocks; i++ {
			radix = append(radix, nl)
		}
		cont := true
		vlib.Product(radix, func(idx []int) bool {
			bl := idx[:nblocks]
			li := idx[nblocks:]
			param := b.lits[li[0]]
			for i := 0; i < nblocks; i++ {
				param += b.blocks[bl[i]].text + b.lits[li[i+1]]
			}
			// reference: odometer, last block fastest
			exp := []string{b.lits[li[0]]}
			for i := 0; i < nblocks; i++ {
				var next []string
				for _, pre := range exp {
					for _, v := range b.blocks[bl[i]].vals {
						next = append(next, pre+v+b.lits[li[i+1]])
					}
				}
				exp = next
			}
			for _, cmd := range cmds {
				k := kase{cmd: cmd, param: param, exp: exp, padDef: true,
					class: fmt.Sprintf("blocks=%d n=%d", nblocks, min(len(exp), 9)), nontr: true}
				if !fn(k) {
					cont = false
					return false
				}
			}
			return true
		})
		if !cont {
			return
		}
	}
}

func run(c *vlib.Ctx) {
	mx.Init(c.WorkDir)
	n := 0
	enumerate(boundsFor(c.Quick()), func(k kase) bool {
		if !c.Next() {
			return true
		}
		n++
		if n&0xff == 0 && c.Expired() {
			return false
		}
		check(c, k, n%997 == 11)
		return true
	})
}

func replay(c *vlib.Ctx, w string) {
	mx.Init(c.WorkDir)
	found := false
	enumerate(boundsFor(false), func(k kase) bool {
		if k.witness() == w {
			found = true
			check(c, k, false)
			return false
		}
		return true
	})
	if !found {
		fmt.Println("witness not in the enumeration space")
	}
}

func init() {
	vlib.Register(&vlib.Check{
		ID: "C18", Engine: "E2",
		Rule:   "`a P` and `ja P` are run for (1) P=[m..n] for every (m,n) in [-B,B]^2 spelled plainly, (2) every pair of spellings (plain, width 2, width 3) of non-negative m,n in [0,Z] with at least one zero-padded bound, (3) every parameter L0 B1 L1 B2 L2 (B3 L3) with blocks Bi from a fixed set of ranges and comma lists ([1..2] [x,y] [2..1] [09..10]; thorough also [x] [-1..1] [x,y,z] [3..3]) and literals Li in {empty, a, -}. quick B=12 Z=12, thorough B=200 Z=110. The elements printed (lines of `a`, decoded JSON array of `ja`, numbers taken as their text) are compared with a reference generator: inclusive, direction by the order of the bounds, zero-padded to the width of the padded bound, cartesian product with the last block varying fastest; exit 0. non-trivial = everything except an ascending range of plainly spelled non-negative integers (i.e. descending, negative or zero-crossing, single-value, padded, multi-block)",
		Run:    run,
		Replay: replay,
		Assumptions: []string{
			"where only the numerically larger bound is zero-padded (`[8..011]`), both are padded to different widths (`[01..003]`), or equal values are spelled differently, the statement does not say which width applies: the integer values are compared, the padding is not (murex keys padding off the smaller bound)",
			"zero-padded spellings are generated for non-negative bounds only",
			"`ja` elements that murex emits as JSON numbers are compared by their decimal text",
		},
	})
}
