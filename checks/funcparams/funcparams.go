// Package funcparams: C23 — function parameter declarations.
//
//	(1) binding: every signature from the documented grammar up to a size bound x every argument list
//	    is defined with `function` and called in-process; a harness builtin dumps the declared
//	    variables (data type, Go type, value) and the result is compared with a binding model.
//	(2) grammar: lang.ParseMxFunctionParameters over every generated signature in three layouts and
//	    over *all* strings up to a length bound on the 9-rune alphabet a : , " [ ] ! space newline,
//	    against a strict reference parser (documented grammar => accepted with the same fields), a
//	    generous recogniser (accepted => inside the documented grammar even with free whitespace),
//	    and the invariants of an accepted result.
package funcparams

import (
	"fmt"
	"regexp"
	"runtime"
	"strconv"
	"strings"

	"verif/mx"
	"verif/vlib"

	"github.com/lmorg/murex/lang"
	"github.com/lmorg/murex/lang/types"
)

// ---------------------------------------------------------------------------------------------
// signatures

type pspec struct {
	opt  bool
	typ  int // index into typeNames; 4 = omitted
	def  int // 0 none, else defaults[def-1]
	desc int // 0 none, else descs[desc-1]
}

var typeNames = []string{"str", "int", "num", "bool", ""}
var defaults = []string{"", "5", "a b", `x,"y`}
var descs = []string{"d", "a, b: [c]!"}
var paramNames = []string{"pa", "pb", "pc"}

func (p pspec) dataType() string {
	if p.typ == 4 {
		return "str"
	}
	return typeNames[p.typ]
}

func (p pspec) text(name string) string {
	s := ""
	if p.opt {
		s = "!"
	}
	s += name
	if p.typ == 4 {
		return s
	}
	s += ": " + typeNames[p.typ]
	if p.def > 0 {
		s += " [" + defaults[p.def-1] + "]"
	}
	if p.desc > 0 {
		s += ` "` + descs[p.desc-1] + `"`
	}
	return s
}

func (p pspec) want(name string) lang.MurexFuncParam {
	m := lang.MurexFuncParam{Name: name, DataType: p.dataType(), Optional: p.opt}
	if p.def > 0 {
		m.HasDefault = true
		m.Default = defaults[p.def-1]
	}
	if p.desc > 0 {
		m.Description = descs[p.desc-1]
	}
	return m
}

// variants of one parameter. reduced: defaults {none, 5, x,"y}, descriptions {none, the punctuated one}
func variants(reduced bool) []pspec {
	var out []pspec
	defs := []int{0, 1, 2, 3, 4}
	dscs := []int{0, 1, 2}
	if reduced {
		defs = []int{0, 2, 4}
		dscs = []int{0, 2}
	}
	for _, opt := range []bool{false, true} {
		for typ := 0; typ < 4; typ++ {
			for _, d := range defs {
				for _, ds := range dscs {
					out = append(out, pspec{opt, typ, d, ds})
				}
			}
		}
		out = append(out, pspec{opt: opt, typ: 4})
	}
	return out
}

// layouts of a signature
const (
	layOneLine  = iota // pa: int [5] "d", pb: str
	layNewlines        // newline + indent before every parameter, none after the last
	layDoc             // as printed in the documentation: newline before every parameter and before the closing bracket
)

func sigText(ps []pspec, layout int) string {
	parts := make([]string, len(ps))
	for i, p := range ps {
		parts[i] = p.text(paramNames[i])
	}
	switch layout {
	case layOneLine:
		return strings.Join(parts, ", ")
	case layNewlines:
		return "\n    " + strings.Join(parts, ",\n    ")
	default:
		if ps[len(ps)-1].typ == 4 {
			// the documentation wants a bare name to be followed by ':' or ',': no newline after it
			return "\n    " + strings.Join(parts, ",\n    ")
		}
		return "\n    " + strings.Join(parts, ",\n    ") + "\n"
	}
}

// enumSigs enumerates every well-formed signature (no mandatory parameter after an optional one).
func enumSigs(n int, vs []pspec, fn func(ps []pspec) bool) {
	radix := make([]int, n)
	for i := range radix {
		radix[i] = len(vs)
	}
	vlib.Product(radix, func(idx []int) bool {
		ps := make([]pspec, n)
		seenOpt := false
		for i, x := range idx {
			ps[i] = vs[x]
			if ps[i].opt {
				seenOpt = true
			} else if seenOpt {
				return true // not a well-formed signature
			}
		}
		return fn(ps)
	})
}

// ---------------------------------------------------------------------------------------------
// binding model

type bound struct {
	unset  bool
	any    bool // statement silent about the value (empty text to a number)
	dt     string
	goType string
	val    string
}

func (b bound) String(name string) string {
	if b.unset {
		return name + "=UNSET"
	}
	// the last field is the text the variable expands to (`out $name`): the converted value, not the argument
	return fmt.Sprintf("%s=%s:%s:%s:%q", name, b.dt, b.goType, b.val, b.text())
}

func (b bound) text() string {
	if b.goType == "float64" {
		f, _ := strconv.ParseFloat(b.val, 64)
		return strconv.FormatFloat(f, 'f', -1, 64)
	}
	return b.val
}

// convert models "converted to the declared type". ok=false: cannot be converted.
func convert(s, dt string) (b bound, ok bool) {
	b.dt = dt
	switch dt {
	case "str":
		b.goType, b.val = "string", s
		return b, true
	case "bool":
		b.goType = "bool"
		switch strings.ToLower(strings.TrimSpace(s)) {
		case "", "0", "false", "null", "no", "off", "fail", "failed", "disabled":
			b.val = "false"
		default:
			b.val = "true"
		}
		return b, true
	case "int", "num":
		if s == "" {
			b.any = true // is the empty string a number? the statement does not say
			return b, true
		}
		f, err := strconv.ParseFloat(s, 64)
		if err != nil {
			return b, false
		}
		if dt == "int" {
			b.goType, b.val = "int", fmt.Sprint(int(f))
		} else {
			b.goType, b.val = "float64", fmt.Sprint(f)
		}
		return b, true
	}
	return b, false
}

type expect struct {
	asserted bool
	why      string
	fails    bool
	vars     []bound
	usedDef  bool
	unsetN   int
	conv     bool // a non-str conversion took part
}

func model(ps []pspec, args []string) expect {
	e := expect{asserted: true}
	for i, p := range ps {
		dt := p.dataType()
		if dt != "str" {
			e.conv = true
		}
		if i < len(args) {
			b, ok := convert(args[i], dt)
			if !ok {
				e.fails = true
				return e
			}
			e.vars = append(e.vars, b)
			continue
		}
		// missing: only ever generated for optional parameters
		if p.def == 0 {
			e.vars = append(e.vars, bound{unset: true})
			e.unsetN++
			continue
		}
		e.usedDef = true
		b, ok := convert(defaults[p.def-1], dt)
		if !ok {
			// a default that is not convertible to the declared type: the statement only speaks of arguments
			return expect{why: "default value not convertible to the declared type"}
		}
		e.vars = append(e.vars, b)
	}
	return e
}

// ---------------------------------------------------------------------------------------------
// real code: binding

const fname = "vfpq"

func defineDump() {
	lang.DefineFunction("vdumpq", func(p *lang.Process) error {
		p.Stdout.SetDataType(types.String)
		var parts []string
		for _, name := range p.Parameters.StringArray() {
			v, err := p.Variables.GetValue(name)
			if err != nil || v == nil {
				parts = append(parts, name+"=UNSET")
				continue
			}
			str, _ := p.Variables.GetString(name)
			parts = append(parts, fmt.Sprintf("%s=%s:%T:%v:%q", name, p.Variables.GetDataType(name), v, v, str))
		}
		_, err := p.Stdout.Writeln([]byte(strings.Join(parts, "\x1f")))
		return err
	}, types.String)
}

func defineBlock(sig string, n int) string {
	return "function " + fname + " (" + sig + ") {\n    out RAN\n    vdumpq " + strings.Join(paramNames[:n], " ") + "\n}"
}

func callBlock(args []string) string {
	s := fname
	for _, a := range args {
		s += " '" + a + "'"
	}
	return s
}

func witnessOf(sig string, args []string) string {
	return "function f (" + sig + ") called as: " + callBlock(args)
}

func checkCall(c *vlib.Ctx, ps []pspec, sig string, args []string, sample bool) {
	exp := model(ps, args)
	w := witnessOf(sig, args)
	r := mx.Run(callBlock(args), nil)
	nontrivial := exp.conv || exp.usedDef || exp.unsetN > 0
	outcome := ""
	defer func() {
		c.Eval(nontrivial, outcome)
		if sample {
			c.Sample(map[string]any{"signature": sig, "call": callBlock(args), "stdout": r.Stdout, "exit": r.Exit, "outcome": outcome})
		}
	}()
	if r.Hang {
		outcome = "hang"
		c.Violation("terminates", w, "caller still blocked after the ceiling\n"+vlib.Clip(r.HangStack, 500))
		return
	}
	if mx.HasPanicText(r.Stderr) {
		outcome = "panic"
		c.Violation("no-panic", w, r.String())
		return
	}
	ran := strings.HasPrefix(r.Stdout, "RAN\n")
	if !exp.asserted {
		c.Extra("not asserted: "+exp.why, 1)
		outcome = "not-asserted"
		return
	}
	if exp.fails {
		outcome = "call-fails"
		if ran || r.Exit == 0 {
			c.Violation("unconvertible-fails-before-body", w, fmt.Sprintf("an argument cannot be converted to its declared type, yet body-ran=%v exit=%d stdout=%q", ran, r.Exit, r.Stdout))
		}
		return
	}
	outcome = fmt.Sprintf("bound n=%d default=%v unset=%d", len(ps), exp.usedDef, exp.unsetN)
	if !ran || r.Exit != 0 {
		c.Violation("call-succeeds", w, fmt.Sprintf("every argument is convertible but body-ran=%v exit=%d stderr=%q", ran, r.Exit, vlib.Clip(r.Stderr, 300)))
		return
	}
	got := strings.Split(strings.TrimSuffix(strings.TrimPrefix(r.Stdout, "RAN\n"), "\n"), "\x1f")
	if len(got) != len(ps) {
		c.Violation("binding", w, fmt.Sprintf("dump has %d fields: %q", len(got), r.Stdout))
		return
	}
	for i, b := range exp.vars {
		if b.any {
			c.Extra("value not asserted: empty text bound to int/num", 1)
			continue
		}
		if want := b.String(paramNames[i]); got[i] != want {
			c.Violation("binding", w, fmt.Sprintf("parameter %d: %s, expected %s (name=dataType:GoType:value:text)", i+1, got[i], want))
		}
	}
}

// argLists: every list of k supplied arguments (k from the number of mandatory parameters to n).
func argLists(ps []pspec, vals []string, fn func(args []string)) {
	mand := 0
	for _, p := range ps {
		if !p.opt {
			mand++
		}
	}
	for k := mand; k <= len(ps); k++ {
		vlib.Seqs(len(vals), k, k, func(idx []int) bool {
			args := make([]string, k)
			for i, x := range idx {
				args[i] = vals[x]
			}
			fn(args)
			return true
		})
	}
}

var argFull = []string{"7", "abc", "", "1.5", "true", "0", "007", "1e2"}
var argSmall = []string{"7", "abc", "1.5"}

func runBinding(c *vlib.Ctx) {
	mx.Init(c.WorkDir)
	defineDump()
	type tierSpec struct {
		n    int
		vs   []pspec
		vals []string
	}
	specs := []tierSpec{{1, variants(false), argFull}, {2, variants(false), argFull}}
	if !c.Quick() {
		specs = []tierSpec{{1, variants(false), argFull}, {2, variants(false), argFull}, {3, variants(true), argSmall}}
	}
	nsig := 0
	for _, sp := range specs {
		stop := false
		enumSigs(sp.n, sp.vs, func(ps []pspec) bool {
			if !c.Next() {
				return true
			}
			nsig++
			if nsig&0x1f == 0 && c.Expired() {
				stop = true
				return false
			}
			layout := nsig % 2 // one-line and newline layouts alternate; both are also parsed below
			oneSignature(c, ps, layout, sp.vals, nsig%211 == 3)
			return true
		})
		if stop {
			return
		}
	}
}

func oneSignature(c *vlib.Ctx, ps []pspec, layout int, vals []string, sample bool) {
	checkGenerated(c, ps)
	sig := sigText(ps, layout)
	r := mx.Run(defineBlock(sig, len(ps)), nil)
	if r.Exit != 0 || r.Hang || r.Stderr != "" {
		c.Eval(true, "definition-rejected")
		c.Violation("documented-signature-accepted", "function f ("+sig+") {...}", "the `function` builtin rejected a signature of the documented grammar: "+r.String())
		return
	}
	first := true
	argLists(ps, vals, func(args []string) {
		checkCall(c, ps, sig, args, sample && first)
		first = false
	})
}

// ---------------------------------------------------------------------------------------------
// grammar

func guardParse(s string) (ps []lang.MurexFuncParam, err error, panicked string) {
	defer func() {
		if x := recover(); x != nil {
			buf := make([]byte, 4096)
			buf = buf[:runtime.Stack(buf, false)]
			panicked = fmt.Sprintf("%v\n%s", x, vlib.Clip(string(buf), 1000))
		}
	}()
	ps, err = lang.ParseMxFunctionParameters(s)
	return
}

func isNameByte(b byte) bool {
	return b >= 'a' && b <= 'z' || b >= 'A' && b <= 'Z' || b >= '0' && b <= '9' || b == '_' || b == '-'
}

// strictParse: reference parser of the documented grammar in its documented layout.
//
//	params := WS* param ("," WS* param)* ; a typed parameter may be followed by WS* at the very end
//	param  := "!"? NAME | "!"? NAME ":" SP* TYPE (SP+ "[" default "]")? (SP+ '"' description '"')?
//	WS = space | newline, SP = space; default has no "]" / newline, description no '"' / newline;
//	a mandatory parameter cannot follow an optional one.
func strictParse(s string) ([]lang.MurexFuncParam, bool) {
	i, n := 0, len(s)
	skipWS := func() {
		for i < n && (s[i] == ' ' || s[i] == '\n') {
			i++
		}
	}
	var out []lang.MurexFuncParam
	skipWS()
	for {
		var p lang.MurexFuncParam
		if i < n && s[i] == '!' {
			p.Optional = true
			i++
		}
		st := i
		for i < n && isNameByte(s[i]) {
			i++
		}
		if i == st {
			return nil, false
		}
		p.Name = s[st:i]
		typed := false
		if i < n && s[i] == ':' {
			typed = true
			i++
			for i < n && s[i] == ' ' {
				i++
			}
			st = i
			for i < n && isNameByte(s[i]) {
				i++
			}
			if i == st {
				return nil, false
			}
			p.DataType = s[st:i]
			j := i
			for j < n && s[j] == ' ' {
				j++
			}
			if j > i && j < n && s[j] == '[' {
				k := strings.IndexAny(s[j+1:], "]\n\r")
				if k < 0 || s[j+1+k] != ']' {
					return nil, false
				}
				p.HasDefault = true
				p.Default = s[j+1 : j+1+k]
				i = j + 1 + k + 1
				j = i
				for j < n && s[j] == ' ' {
					j++
				}
			}
			if j > i && j < n && s[j] == '"' {
				k := strings.IndexAny(s[j+1:], "\"\n\r")
				if k < 0 || s[j+1+k] != '"' {
					return nil, false
				}
				p.Description = s[j+1 : j+1+k]
				i = j + 1 + k + 1
			}
		} else {
			p.DataType = "str"
		}
		out = append(out, p)
		if i == n {
			break
		}
		if s[i] == ',' {
			i++
			skipWS()
			continue
		}
		if !typed {
			return nil, false // the documentation wants a name followed by ':' or ','
		}
		skipWS()
		if i == n {
			break
		}
		return nil, false
	}
	opt := false
	for _, p := range out {
		if p.Optional {
			opt = true
		} else if opt {
			return nil, false
		}
	}
	return out, true
}

var generousItem = `\s*!?[\w-]+(:\s*[\w-]+(\s*(\[[^\]\n]*\]|"[^"\n]*"))*)?\s*`
var generous = regexp.MustCompile(`\A` + generousItem + `(,` + generousItem + `)*\z`)

func sameParams(a, b []lang.MurexFuncParam) bool {
	if len(a) != len(b) {
		return false
	}
	for i := range a {
		if a[i] != b[i] {
			return false
		}
	}
	return true
}

func printParams(ps []lang.MurexFuncParam) string {
	parts := make([]string, len(ps))
	for i, p := range ps {
		s := ""
		if p.Optional {
			s = "!"
		}
		s += p.Name + ": " + p.DataType
		if p.HasDefault {
			s += " [" + p.Default + "]"
		}
		if p.Description != "" {
			s += ` "` + p.Description + `"`
		}
		parts[i] = s
	}
	return strings.Join(parts, ", ")
}

// minimise: greedy deletion of substrings (longest first), then replacement of letters by 'a',
// while the predicate still holds; repeated to a fixpoint. Deterministic.
func minimise(s string, pred func(string) bool) string {
	for again := true; again; {
		again = false
	deletion:
		for l := len(s) - 1; l >= 1; l-- {
			for i := 0; i+l <= len(s); i++ {
				t := s[:i] + s[i+l:]
				if pred(t) {
					s = t
					again = true
					break deletion
				}
			}
		}
		if again {
			continue
		}
		for i := 0; i < len(s); i++ {
			if isNameByte(s[i]) && s[i] != 'a' {
				t := s[:i] + "a" + s[i+1:]
				if pred(t) {
					s = t
					again = true
					break
				}
			}
		}
	}
	return s
}

func strictRejected(s string) bool {
	want, ok := strictParse(s)
	if !ok {
		return false
	}
	got, err, pan := guardParse(s)
	return pan == "" && (err != nil || !sameParams(got, want))
}

func acceptedOutside(s string) bool {
	_, err, pan := guardParse(s)
	return pan == "" && err == nil && !generous.MatchString(s)
}

// checkText runs every grammar clause on one text. Returns an outcome label and whether it was accepted.
func checkText(c *vlib.Ctx, s string) (outcome string, accepted bool) {
	got, err, pan := guardParse(s)
	if pan != "" {
		c.Violation("parser-no-panic", s, pan)
		return "panic", false
	}
	want, strictOK := strictParse(s)
	if strictOK && (err != nil || !sameParams(got, want)) {
		m := minimise(s, strictRejected)
		d := fmt.Sprintf("documented-grammar text %q (expected fields %+v): ", s, want)
		if err != nil {
			d += "rejected with: " + err.Error()
		} else {
			d += fmt.Sprintf("parsed as %+v", got)
		}
		c.Violation("accepts-documented-grammar", m, d+fmt.Sprintf("; minimised to %q", m))
	}
	if err != nil {
		if strictOK {
			return "documented-but-rejected", false
		}
		return "rejected", false
	}
	outcome = fmt.Sprintf("accepted-%d", min(len(got), 4))
	if strictOK {
		outcome += "-strict"
	}
	// invariants of an accepted result
	opt := false
	for i, p := range got {
		if p.Name == "" || p.DataType == "" {
			c.Violation("accepted-invariants", s, fmt.Sprintf("parameter %d has an empty name or data type: %+v", i+1, got))
		}
		if p.Optional {
			opt = true
		} else if opt {
			c.Violation("accepted-invariants", s, fmt.Sprintf("mandatory parameter %d follows an optional one: %+v", i+1, got))
		}
		if !p.HasDefault && p.Default != "" {
			c.Violation("accepted-invariants", s, fmt.Sprintf("parameter %d has a default but HasDefault is false: %+v", i+1, got))
		}
	}
	printed := printParams(got)
	again, err2, pan2 := guardParse(printed)
	if pan2 != "" || err2 != nil || !sameParams(again, got) {
		c.Violation("print-reparse-stable", s, fmt.Sprintf("parsed as %+v, printed as %q, which re-parses as %+v err=%v %s", got, printed, again, err2, pan2))
	}
	if !generous.MatchString(s) {
		m := minimise(s, acceptedOutside)
		c.Violation("accepts-only-documented-grammar", m, fmt.Sprintf("text %q is not a parameter list (even allowing free whitespace and any order/number of [default] \"description\" fields) but is accepted as %+v; minimised to %q", s, got, m))
		outcome += "-outside-grammar"
	}
	return outcome, true
}

// checkGenerated: every generated signature, in the three layouts, against its generator's fields.
func checkGenerated(c *vlib.Ctx, ps []pspec) {
	want := make([]lang.MurexFuncParam, len(ps))
	for i, p := range ps {
		want[i] = p.want(paramNames[i])
	}
	for layout := layOneLine; layout <= layDoc; layout++ {
		s := sigText(ps, layout)
		if ref, ok := strictParse(s); !ok || !sameParams(ref, want) {
			c.HarnessError("reference parser disagrees with the generator on %q: %+v", s, ref)
		}
		checkText(c, s)
	}
}

var alphabet = []string{"a", ":", ",", "\"", "[", "]", "!", " ", "\n"}

func runGrammar(c *vlib.Ctx) {
	maxLen := 6
	if !c.Quick() {
		maxLen = 8
	}
	n := 0
	vlib.Strings(alphabet, 0, maxLen, func(s string, _ []int) bool {
		if !c.Next() {
			return true
		}
		n++
		if n&0xfff == 0 && c.Expired() {
			return false
		}
		outcome, accepted := checkText(c, s)
		// non-trivial: texts the parser accepts, or that the documented grammar contains
		c.Eval(accepted || outcome == "documented-but-rejected", "grammar: "+outcome)
		if accepted && n%4001 == 7 {
			c.Sample(map[string]any{"text": s, "outcome": outcome})
		}
		return true
	})
}

// ---------------------------------------------------------------------------------------------

func init() {
	vlib.Register(&vlib.Check{
		ID: "C23", Engine: "E2",
		Rule: "(1) binding: every signature of 1..N parameters (names pa,pb,pc; optional marker; type str/int/num/bool/omitted; default none/[]/[5]/[a b]/[x,\"y]; description none/\"d\"/\"a, b: [c]!\"; no mandatory after optional; quick N=2, thorough N=3 with defaults {none,[5],[x,\"y]} and descriptions {none,punctuated} at N=3) is defined with `function` (one-line and newline layouts alternating) and called with every argument list that supplies all mandatory parameters and any prefix of the optional ones, each argument from {7,abc,'',1.5,true,0,007,1e2} (reduced to {7,abc,1.5} at N=3); a harness builtin dumps data type, Go type, value and the text the variable expands to, for every declared variable, compared with the binding model (str verbatim, int = number truncated, num = number, bool = truthiness, default when missing, unset without default; an unconvertible argument fails the call before the body marker). (2) grammar: every generated signature in three layouts, and every string up to length L (quick 6, thorough 8) over the 9 runes a : , \" [ ] ! space newline, goes through lang.ParseMxFunctionParameters: no panic; documented grammar (strict reference parser) => accepted with identical fields; accepted => inside the documented grammar with free whitespace; accepted results have non-empty name and type, no mandatory after optional, and are stable under print -> re-parse. Non-trivial = (1) calls in which a non-str conversion, a default or an unset optional takes part; (2) strings that are accepted or belong to the documented grammar",
		Run: func(c *vlib.Ctx) {
			runBinding(c)
			runGrammar(c)
		},
		Replay: replay,
		Assumptions: []string{
			"mandatory parameters are always supplied (a missing one makes murex prompt on the terminal)",
			"the value bound for an empty argument to int/num, and the verdict for a default that is not convertible to the declared type, are not asserted (statement silent); both are counted",
			"bool conversion follows murex's documented truthiness (empty, 0, false, null, no, off, fail, failed, disabled are false)",
		},
	})
}

var witnessRe = regexp.MustCompile(`(?s)\Afunction f \((.*)\) called as: vfpq(.*)\z`)

func replay(c *vlib.Ctx, w string) {
	mx.Init(c.WorkDir)
	defineDump()
	if strings.HasPrefix(w, "function f (") && strings.HasSuffix(w, ") {...}") {
		sig := strings.TrimSuffix(strings.TrimPrefix(w, "function f ("), ") {...}")
		ps, ok := strictParse(sig)
		r := mx.Run(defineBlock(sig, len(ps)), nil)
		if ok && (r.Exit != 0 || r.Stderr != "") {
			c.Violation("documented-signature-accepted", w, r.String())
		}
		return
	}
	if m := witnessRe.FindStringSubmatch(w); m != nil {
		sig := m[1]
		var args []string
		for _, a := range strings.Split(m[2], " '") {
			if a == "" && len(args) == 0 {
				continue
			}
			args = append(args, strings.TrimSuffix(a, "'"))
		}
		// recover the spec from the signature text by enumeration
		found := false
		for n := 1; n <= 3 && !found; n++ {
			vs := variants(false)
			enumSigs(n, vs, func(ps []pspec) bool {
				for layout := layOneLine; layout <= layNewlines; layout++ {
					if sigText(ps, layout) == sig {
						found = true
						if r := mx.Run(defineBlock(sig, len(ps)), nil); r.Exit != 0 {
							c.Violation("documented-signature-accepted", "function f ("+sig+") {...}", r.String())
							return false
						}
						checkCall(c, ps, sig, args, false)
						return false
					}
				}
				return true
			})
		}
		if !found {
			fmt.Println("witness not in the enumeration space")
		}
		return
	}
	// a grammar witness: the text itself
	checkText(c, w)
}
