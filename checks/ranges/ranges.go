// Package ranges: C17 — the index range filter `[s..e]` / `[s..e]e` on lists injected as typed stdin,
// compared with a slice model for the forms the statement defines.
package ranges

import (
	"encoding/json"
	"fmt"
	"strconv"
	"strings"

	"verif/mx"
	"verif/vlib"
)

const none = 1 << 30 // "bound omitted"

type rcase struct {
	typ   string // str | json | jsonl
	n     int
	s, e  int // none = omitted
	eflag bool
}

func item(i int) string { return "x" + strconv.Itoa(i) } // 1-based

func encode(typ string, n int) []byte {
	var b strings.Builder
	switch typ {
	case "json":
		b.WriteString("[")
		for i := 1; i <= n; i++ {
			if i > 1 {
				b.WriteString(",")
			}
			b.WriteString(`"` + item(i) + `"`)
		}
		b.WriteString("]")
	case "jsonl":
		for i := 1; i <= n; i++ {
			b.WriteString(`"` + item(i) + "\"\n")
		}
	default:
		for i := 1; i <= n; i++ {
			b.WriteString(item(i) + "\n")
		}
	}
	return []byte(b.String())
}

// decode returns the item numbers printed (0 for anything that is not one of our items).
func decode(typ, out string) ([]int, bool) {
	var items []string
	t := strings.TrimSpace(out)
	if typ == "json" && t != "" {
		if err := json.Unmarshal([]byte(t), &items); err != nil {
			return nil, false
		}
	} else {
		for _, l := range strings.Split(t, "\n") {
			l = strings.TrimSpace(l)
			if l == "" {
				continue
			}
			if typ == "jsonl" {
				var s string
				if json.Unmarshal([]byte(l), &s) != nil {
					return nil, false
				}
				l = s
			}
			items = append(items, l)
		}
	}
	var nums []int
	for _, it := range items {
		k, err := strconv.Atoi(strings.TrimPrefix(it, "x"))
		if err != nil || !strings.HasPrefix(it, "x") {
			return nil, false
		}
		nums = append(nums, k)
	}
	return nums, true
}

func bound(v int) string {
	if v == none {
		return ""
	}
	return strconv.Itoa(v)
}

func (r rcase) rangeText() string {
	s := "[" + bound(r.s) + ".." + bound(r.e) + "]"
	if r.eflag {
		s += "e"
	}
	return s
}

func (r rcase) witness() string {
	return fmt.Sprintf("type=%s n=%d range=%s", r.typ, r.n, r.rangeText())
}

func (r rcase) block() string { return "<stdin> -> " + r.rangeText() }

// model: what the statement defines.
//
//	exact   : the output must be exactly items lo..hi (empty when lo > hi)
//	halfOpen: (e flag with one bound omitted) output must be an in-order contiguous slice that does not
//	          contain the item named by the explicit bound
//	neither : statement silent -> only the universal part
type expect struct {
	form     string
	exact    bool
	lo, hi   int
	halfOpen bool
	absent   int // item that must not appear (0 = none)
}

func model(r rcase) expect {
	n := r.n
	clip := func(v int) int {
		if v > n {
			return n
		}
		return v
	}
	switch {
	case r.s != none && r.e != none:
		if r.s >= 1 && r.s <= r.e {
			if r.eflag {
				return expect{form: "closed-e", exact: true, lo: r.s + 1, hi: clip(r.e - 1)}
			}
			return expect{form: "closed", exact: true, lo: r.s, hi: clip(r.e)}
		}
	case r.s != none && r.e == none:
		if r.s >= 1 {
			if r.eflag {
				return expect{form: "from-s-e", halfOpen: true, absent: r.s}
			}
			return expect{form: "from-s", exact: true, lo: r.s, hi: n}
		}
		if r.s <= -1 && -r.s <= n {
			k := -r.s
			if r.eflag {
				return expect{form: "last-k-e", halfOpen: true, absent: n - k + 1}
			}
			return expect{form: "last-k", exact: true, lo: n - k + 1, hi: n}
		}
		if r.s <= -1 && -r.s > n && !r.eflag && n > 0 {
			// "the last k items" of a list that has fewer than k items: all of them
			return expect{form: "last-k-clipped", exact: true, lo: 1, hi: n}
		}
	case r.s == none && r.e != none:
		if r.e >= 1 {
			if r.eflag {
				return expect{form: "to-e-e", halfOpen: true, absent: r.e}
			}
			return expect{form: "to-e", exact: true, lo: 1, hi: clip(r.e)}
		}
	}
	return expect{form: "undefined"}
}

func panicText(r mx.Result) bool {
	return mx.HasPanicText(r.Stdout) || mx.HasPanicText(r.Stderr) || mx.HasPanicText(r.Err) || r.Crash != ""
}

func check(c *vlib.Ctx, rc rcase, sample bool) {
	r := mx.Run(rc.block(), &mx.Opt{Stdin: encode(rc.typ, rc.n), StdinType: rc.typ})
	w := rc.witness()
	exp := model(rc)
	got, decoded := decode(rc.typ, r.Stdout)

	want := 0
	if exp.exact && exp.hi >= exp.lo {
		want = exp.hi - exp.lo + 1
	}
	res := "exit0"
	switch {
	case r.Hang:
		res = "hang"
	case panicText(r):
		res = "panic"
	case r.Exit != 0 && strings.TrimSpace(r.Stderr) == "":
		res = "error-without-message"
	case r.Exit != 0:
		res = "clean-error"
	}
	size := "all"
	switch {
	case len(got) == 0:
		size = "none"
	case len(got) < rc.n:
		size = "part"
	}
	// non-trivial: a defined form whose model result is a proper part of a non-empty input, or any e-flag form
	nontrivial := exp.form != "undefined" && rc.n > 0 && (rc.eflag || exp.exact && want < rc.n)
	c.Eval(nontrivial, fmt.Sprintf("%s %s -> %s out=%s", rc.typ, exp.form, res, size))
	if sample {
		c.Sample(map[string]any{"case": w, "block": rc.block(), "stdin": vlib.Clip(string(encode(rc.typ, rc.n)), 80), "stdout": r.Stdout, "exit": r.Exit, "form": exp.form})
	}

	if r.Hang {
		c.Violation("terminates", w, "caller still blocked after ceiling\n"+r.HangStack)
		return
	}
	if panicText(r) {
		c.Violation("no-panic", w, fmt.Sprintf("%s => %v", rc.block(), r))
		return
	}
	if r.Exit != 0 && strings.TrimSpace(r.Stderr) == "" {
		c.Violation("clean-error", w, fmt.Sprintf("%s => %v; a failing range filter must say why", rc.block(), r))
		return
	}
	if !decoded {
		c.Violation("output-is-items", w, fmt.Sprintf("%s => stdout %q is not a list of input items", rc.block(), r.Stdout))
		return
	}
	// universal: the output order is the input order (strictly increasing item numbers within 1..n)
	prev := 0
	for _, k := range got {
		if k <= prev || k > rc.n {
			c.Violation("in-order-subsequence", w, fmt.Sprintf("%s => items %v are not an in-order subsequence of 1..%d", rc.block(), got, rc.n))
			return
		}
		prev = k
	}
	switch {
	case exp.exact:
		ok := len(got) == want
		for i := 0; ok && i < want; i++ {
			ok = got[i] == exp.lo+i
		}
		if !ok {
			c.Violation("slice:"+exp.form, w, fmt.Sprintf("%s on %d items => items %v (exit %d); expected items %d..%d", rc.block(), rc.n, got, r.Exit, exp.lo, exp.hi))
			return
		}
		if want > 0 && r.Exit != 0 {
			c.Violation("slice:"+exp.form, w, fmt.Sprintf("%s => %v; expected exit 0", rc.block(), r))
		}
	case exp.halfOpen:
		for i, k := range got {
			if k == exp.absent {
				c.Violation("slice:"+exp.form, w, fmt.Sprintf("%s on %d items => items %v; the end-point item %d must be excluded", rc.block(), rc.n, got, exp.absent))
				return
			}
			if i > 0 && k != got[i-1]+1 {
				c.Violation("slice:"+exp.form, w, fmt.Sprintf("%s on %d items => items %v; expected a contiguous slice", rc.block(), rc.n, got))
				return
			}
		}
	default:
		c.Extra("not-asserted beyond clean exit/error + in-order subsequence: bounds outside the defined forms (0, negative end, s > e, k > n, both omitted)", 1)
	}
}

type bounds struct {
	maxN, lo, hi int
	types        []string
}

func boundsFor(quick bool) bounds {
	if quick {
		return bounds{maxN: 8, lo: -4, hi: 12, types: []string{"str", "json"}}
	}
	return bounds{maxN: 30, lo: -5, hi: 35, types: []string{"str", "json", "jsonl"}}
}

func enumerate(b bounds, fn func(rcase) bool) {
	vals := []int{none}
	for v := b.lo; v <= b.hi; v++ {
		vals = append(vals, v)
	}
	for _, typ := range b.types {
		for n := 0; n <= b.maxN; n++ {
			for _, s := range vals {
				for _, e := range vals {
					for _, fl := range []bool{false, true} {
						if !fn(rcase{typ, n, s, e, fl}) {
							return
						}
					}
				}
			}
		}
	}
}

func run(c *vlib.Ctx) {
	mx.Init(c.WorkDir)
	n := 0
	enumerate(boundsFor(c.Quick()), func(rc rcase) bool {
		if !c.Next() {
			return true
		}
		n++
		if n&0xff == 0 && c.Expired() {
			return false
		}
		check(c, rc, n%1511 == 5)
		return true
	})
}

func replay(c *vlib.Ctx, w string) {
	mx.Init(c.WorkDir)
	found := false
	enumerate(boundsFor(false), func(rc rcase) bool {
		if rc.witness() == w {
			found = true
			check(c, rc, false)
			return false
		}
		return true
	})
	if !found {
		fmt.Println("witness not in the enumeration space")
	}
}

func init() {
	vlib.Register(&vlib.Check{
		ID: "C17", Engine: "E2",
		Rule:   "lists of n = 0..N distinct items x1..xn are injected as typed stdin (str list, json array; thorough also jsonl) and filtered with `[s..e]` and `[s..e]e` for every start and end in {omitted} u [LO, HI]; quick N=8 LO=-4 HI=12, thorough N=30 LO=-5 HI=35. The printed items are compared with a slice model for the forms the statement defines (1<=s<=e; [s..]; [..e]; [-k..] (clipped to the list when k>n, without the e flag); with e: s+1..e-1 when both bounds are given, otherwise a contiguous slice without the named end-point item); every case must exit cleanly or fail with a message, print an in-order subsequence of the input and never report a panic. non-trivial = a defined form on a non-empty list whose model result is a proper part of the input, or any defined form with the e flag",
		Run:    run,
		Replay: replay,
		Assumptions: []string{
			"the exit number is compared only when the model result is non-empty (json reports 'no data returned' for an empty result, str prints nothing and exits 0; the statement observes stdout)",
			"bounds 0, a negative end, s > e, -k with k > n together with the e flag, and `[..]` are outside the statement: only the universal clauses are asserted",
			"only the default (index) matcher and the e flag are in scope; r/s/n/b/t/8 flags are not exercised",
		},
	})
}
