package exprs

// C07: logical operators inside expressions follow truthiness; truthiness is the same in expressions,
// `if` and `!`.

import (
	"fmt"
	"math"
	"strings"

	"verif/checks/g1util"
	"verif/mx"
	"verif/vlib"
)

// ---------------------------------------------------------------------------------------------
// reference semantics (from the statement)

var falseWords = map[string]bool{"": true, "0": true, "null": true, "false": true, "no": true, "off": true, "fail": true, "failed": true, "disabled": true}

// truthyString: "Empty, 0, null, false, no, off, fail, failed and disabled (trimmed, case-insensitive) are false".
func truthyString(s string) bool {
	return !falseWords[strings.ToLower(strings.TrimSpace(s))]
}

type lkind int

const (
	lNull lkind = iota
	lBool
	lNum
	lStr
)

// lval is a value of the logical-expression language.
type lval struct {
	k     lkind
	b     bool
	f     float64
	s     string
	undef bool // the value of an undefined variable: null-like, its concrete value is not asserted
	exit  int  // exit number attached to the value (sub-shell operands)
	soft  bool // value whose identity is not asserted (depends on something the statement leaves open)
}

func (v lval) String() string {
	x := ""
	switch v.k {
	case lNull:
		x = "null"
		if v.undef {
			x = "undefined"
		}
	case lBool:
		x = fmt.Sprintf("bool %v", v.b)
	case lNum:
		x = fmt.Sprintf("num %v", v.f)
	case lStr:
		x = fmt.Sprintf("str %q", v.s)
	}
	if v.exit != 0 {
		x += fmt.Sprintf(" (exit %d)", v.exit)
	}
	return x
}

func truthy(v lval) bool {
	if v.exit != 0 {
		return false // "and so is any non-zero exit"
	}
	switch v.k {
	case lNull:
		return false
	case lBool:
		return v.b
	case lNum:
		return v.f != 0 // the number 0 is written `0`
	}
	return truthyString(v.s)
}

// model evaluates the operators; defect=true is the signature of the known murex defect
// (expression-level && and || yield true whatever their operands) and is only used to file a
// violation under the right clause.
type model struct{ defect bool }

func (m model) op(op string, a, b lval) lval {
	switch op {
	case "&&":
		if m.defect {
			return lval{k: lBool, b: true}
		}
		return lval{k: lBool, b: truthy(a) && truthy(b)}
	case "||":
		if m.defect {
			return lval{k: lBool, b: true}
		}
		return lval{k: lBool, b: truthy(a) || truthy(b)}
	case "?:":
		if a.exit != 0 {
			// a sub-shell value with a non-zero exit: the statement makes it falsy, murex's documentation
			// of ?: lists falsy values without mentioning the exit number. Not asserted.
			return lval{soft: true}
		}
		if truthy(a) {
			return a
		}
		return b
	case "??":
		if a.k == lNull {
			return b
		}
		return a
	}
	panic("op " + op)
}

// ---------------------------------------------------------------------------------------------
// operands

type operand struct {
	src    string
	v      lval
	strict string // "" | "on" | "off": needs `config set proc strict-vars`
	plain  bool   // a bare boolean literal (trivial truthiness)
}

func sq(s string) operand { return operand{src: "'" + s + "'", v: lval{k: lStr, s: s}} }
func num(s string, f float64) operand {
	return operand{src: s, v: lval{k: lNum, f: f}}
}

var operands = []operand{
	{src: "true", v: lval{k: lBool, b: true}, plain: true},
	{src: "false", v: lval{k: lBool, b: false}, plain: true},
	num("0", 0), num("1", 1), num("2", 2),
	sq(""), sq("0"), sq("no"), sq("off"), sq("fail"), sq("failed"), sq("disabled"), sq("null"), sq("False"), sq(" no "), sq("x"),
	{src: "null", v: lval{k: lNull}},
	{src: "(1==1)", v: lval{k: lBool, b: true}},
	{src: "(1==2)", v: lval{k: lBool, b: false}},
	{src: "$verifundef", v: lval{k: lNull, undef: true}, strict: "off"},
	{src: "$verifundef", v: lval{k: lNull, undef: true}, strict: "on"},
}

// core operands of the ternary forms: true false 0 2 '' 'no' 'x' null (indices into operands)
var coreIdx = []int{0, 1, 2, 4, 5, 7, 15, 16}

var logicOps = []string{"&&", "||", "?:", "??"}

// ---------------------------------------------------------------------------------------------
// cases

type c07case struct {
	sect    string // bin | tern | truth | exit
	witness string // canonical text (replay key)
	src     string // murex block
	strict  string
	vars    map[string]string
	// expectation: either values (any of them is accepted: flat ternary forms accept both groupings)
	// or stdout
	expVals   []lval
	defVals   []lval // the same under the defect model
	expStdout *string
	nontriv   bool
	label     string
}

func strictPrefix(s string) string {
	switch s {
	case "on":
		return "config set proc strict-vars true\n"
	case "off":
		return "config set proc strict-vars false\n"
	}
	return ""
}

func mergeStrict(xs ...string) (string, bool) {
	out := ""
	for _, x := range xs {
		if x == "" {
			continue
		}
		if out != "" && out != x {
			return "", false
		}
		out = x
	}
	return out, true
}

// truthStrings: every string over the alphabet up to the length bound, plus the statement's word table
// in several spellings and a list of near misses that must be truthy.
func truthStrings(quick bool) []string {
	alpha := []string{"n", "o", "f", "0", " ", "N"}
	maxLen := 4
	if !quick {
		alpha = append(alpha, "O")
		maxLen = 5
	}
	seen := map[string]bool{}
	var out []string
	add := func(s string) {
		if !seen[s] {
			seen[s] = true
			out = append(out, s)
		}
	}
	vlib.Strings(alpha, 0, maxLen, func(s string, _ []int) bool { add(s); return true })
	for _, w := range []string{"", "0", "null", "false", "no", "off", "fail", "failed", "disabled"} {
		title := w
		if w != "" {
			title = strings.ToUpper(w[:1]) + w[1:]
		}
		for _, v := range []string{w, strings.ToUpper(w), title} {
			for _, pad := range [][2]string{{"", ""}, {" ", ""}, {"", " "}, {"  ", "  "}, {"\t", "\t"}} {
				add(pad[0] + v + pad[1])
			}
		}
	}
	for _, w := range []string{"x", "1", "2", "-1", "00", "0.0", "0 0", "nope", "n o", "offf", "of", "fals", "falsey", "failure", "fails", "disable", "disabled.", "nul", "nil", "none", "nulll", "f", "n", "y", "yes", "on", "true", "TRUE", "enabled", "pass", "passed", "-", ".", "no no"} {
		add(w)
	}
	return out
}

type exitFn struct {
	name string
	out  string // what it prints ("" = nothing)
	exit int
}

func exitFns() []exitFn {
	var fs []exitFn
	for oi, o := range []string{"true", "x", "0", "", "false"} {
		for _, e := range []int{0, 1, 3} {
			fs = append(fs, exitFn{fmt.Sprintf("verif_c07_f%d_e%d", oi, e), o, e})
		}
	}
	return fs
}

func setupC07() string {
	var b strings.Builder
	for _, f := range exitFns() {
		body := ""
		if f.out != "" {
			body = "out " + f.out + "; "
		}
		if f.exit == 0 {
			// an explicit successful last command
			fmt.Fprintf(&b, "function %s { %snull }\n", f.name, body)
		} else {
			fmt.Fprintf(&b, "function %s { %sreturn %d }\n", f.name, body, f.exit)
		}
	}
	return b.String()
}

func sp(s string) *string { return &s }

func enumC07(quick bool, fn func(cs c07case) bool) {
	ref, def := model{}, model{defect: true}
	// --- binary forms -----------------------------------------------------------------------
	for ai, a := range operands {
		for bi, b := range operands {
			strict, ok := mergeStrict(a.strict, b.strict)
			if !ok {
				continue
			}
			for _, op := range logicOps {
				forms := []string{"(" + a.src + " " + op + " " + b.src + ")"}
				if op == "?:" || op == "??" {
					forms = append(forms, a.src+" "+op+" "+b.src) // also without the parentheses
				}
				for _, f := range forms {
					w := f
					if strict != "" {
						w = "[strict-vars " + strict + "] " + f
					}
					cs := c07case{sect: "bin", witness: w, src: "v = " + f, strict: strict,
						expVals: []lval{ref.op(op, a.v, b.v)}, defVals: []lval{def.op(op, a.v, b.v)},
						nontriv: !(a.plain && b.plain), label: "bin " + op}
					if !fn(cs) {
						return
					}
				}
			}
			_, _ = ai, bi
		}
	}
	// --- ternary forms over the core operands ---------------------------------------------------
	for _, ai := range coreIdx {
		for _, bi := range coreIdx {
			for _, ci := range coreIdx {
				a, b, x := operands[ai], operands[bi], operands[ci]
				for _, o1 := range logicOps {
					for _, o2 := range logicOps {
						left := func(m model) lval { return m.op(o2, m.op(o1, a.v, b.v), x.v) }
						right := func(m model) lval { return m.op(o1, a.v, m.op(o2, b.v, x.v)) }
						shapes := []struct {
							src      string
							exp, dfv []lval
						}{
							{fmt.Sprintf("((%s %s %s) %s %s)", a.src, o1, b.src, o2, x.src), []lval{left(ref)}, []lval{left(def)}},
							{fmt.Sprintf("(%s %s (%s %s %s))", a.src, o1, b.src, o2, x.src), []lval{right(ref)}, []lval{right(def)}},
							// without inner parentheses the statement does not fix the grouping: either is accepted
							{fmt.Sprintf("(%s %s %s %s %s)", a.src, o1, b.src, o2, x.src), []lval{left(ref), right(ref)}, []lval{left(def), right(def)}},
						}
						for _, s := range shapes {
							cs := c07case{sect: "tern", witness: s.src, src: "v = " + s.src, expVals: s.exp, defVals: s.dfv,
								nontriv: !(a.plain && b.plain && x.plain), label: "tern " + o1 + " " + o2}
							if !fn(cs) {
								return
							}
						}
					}
				}
			}
		}
	}
	// --- truthiness of strings: the same in `if`, `!`, and the expression operators --------------
	for _, s := range truthStrings(quick) {
		t := truthyString(s)
		tf := map[bool]string{true: "T\n", false: "F\n"}
		bs := map[bool]string{true: "true\n", false: "false\n"}
		nt := s != "" && !(falseWords[s]) // needs trimming / case folding, or is a near miss
		vars := map[string]string{"s": s}
		inj := []struct {
			ctx, src string
			exp      string
		}{
			{"if", "if { out $s } then { out T } else { out F }", tf[t]},
			{"!if", "!if { out $s } then { out T } else { out F }", tf[!t]},
			{"if-method", "out $s -> if { out T } else { out F }", tf[t]},
			{"not", "out $s -> !", bs[!t]},
		}
		for _, x := range inj {
			cs := c07case{sect: "truth", witness: fmt.Sprintf("%s %q", x.ctx, s), src: x.src, vars: vars, expStdout: sp(x.exp), nontriv: nt, label: "truth " + x.ctx}
			if !fn(cs) {
				return
			}
		}
		if strings.ContainsAny(s, "'\n\\") {
			continue
		}
		lit := "'" + s + "'"
		sv := lval{k: lStr, s: s}
		tv, fv, alt := lval{k: lBool, b: true}, lval{k: lBool, b: false}, lval{k: lStr, s: "alt"}
		exprs := []struct {
			ctx, src string
			a, b     lval
			op       string
		}{
			{"elvis", lit + " ?: 'alt'", sv, alt, "?:"},
			{"and-left", "(" + lit + " && true)", sv, tv, "&&"},
			{"and-right", "(true && " + lit + ")", tv, sv, "&&"},
			{"or-left", "(" + lit + " || false)", sv, fv, "||"},
			{"or-right", "(false || " + lit + ")", fv, sv, "||"},
		}
		for _, x := range exprs {
			cs := c07case{sect: "truth", witness: "truth: " + x.src, src: "v = " + x.src,
				expVals: []lval{ref.op(x.op, x.a, x.b)}, defVals: []lval{def.op(x.op, x.a, x.b)}, nontriv: nt, label: "truth " + x.ctx}
			if !fn(cs) {
				return
			}
		}
	}
	// --- typed operands through `if` ----------------------------------------------------------------
	for _, o := range operands {
		if o.strict != "" {
			continue
		}
		t := truthy(o.v)
		exp := map[bool]string{true: "T\n", false: "F\n"}[t]
		forms := []string{"if { out " + o.src + " } then { out T } else { out F }"}
		if o.v.k != lStr && !strings.HasPrefix(o.src, "(") {
			// a bare number / boolean / null is an expression statement (a statement starting with `(` is
			// not: that is murex's string-quote command)
			forms = append(forms, "if { "+o.src+" } then { out T } else { out F }")
		}
		for _, f := range forms {
			cs := c07case{sect: "truth", witness: f, src: f, expStdout: sp(exp), nontriv: !o.plain, label: "truth if-typed"}
			if !fn(cs) {
				return
			}
		}
	}
	// --- exit numbers -------------------------------------------------------------------------------
	for _, f := range exitFns() {
		t := f.exit == 0 && truthyString(f.out)
		tf := map[bool]string{true: "T\n", false: "F\n"}
		bs := map[bool]string{true: "true\n", false: "false\n"}
		nt := (f.exit != 0) == truthyString(f.out) // the exit number and the text disagree
		blocks := []struct{ ctx, src, exp string }{
			{"if", "if { " + f.name + " } then { out T } else { out F }", tf[t]},
			{"!if", "!if { " + f.name + " } then { out T } else { out F }", tf[!t]},
			{"not", f.name + " -> !", bs[!t]},
		}
		for _, x := range blocks {
			cs := c07case{sect: "exit", witness: fmt.Sprintf("%s out=%q exit=%d", x.ctx, f.out, f.exit), src: x.src, expStdout: sp(x.exp), nontriv: nt, label: "exit " + x.ctx}
			if !fn(cs) {
				return
			}
		}
		sub := "${" + f.name + "}"
		sv := lval{k: lStr, s: f.out, exit: f.exit}
		tv, fv, alt := lval{k: lBool, b: true}, lval{k: lBool, b: false}, lval{k: lStr, s: "alt"}
		exprs := []struct {
			ctx, src string
			a, b     lval
			op       string
		}{
			{"and-left", "(" + sub + " && true)", sv, tv, "&&"},
			{"and-right", "(true && " + sub + ")", tv, sv, "&&"},
			{"or-left", "(" + sub + " || false)", sv, fv, "||"},
			{"or-right", "(false || " + sub + ")", fv, sv, "||"},
			{"elvis", sub + " ?: 'alt'", sv, alt, "?:"},
		}
		for _, x := range exprs {
			cs := c07case{sect: "exit", witness: fmt.Sprintf("sub-shell prints %q exits %d: %s", f.out, f.exit, x.src), src: "v = " + x.src,
				expVals: []lval{ref.op(x.op, x.a, x.b)}, defVals: []lval{def.op(x.op, x.a, x.b)}, nontriv: nt, label: "exit " + x.ctx}
			if f.out == "" {
				// what a sub-shell that prints nothing yields as a *value* (null, empty string, empty generic
				// list) is not part of the statement; `if` and `!` above do cover the empty output
				cs.expVals, cs.defVals = []lval{{soft: true}}, []lval{{soft: true}}
			}
			if !fn(cs) {
				return
			}
		}
	}
}

// ---------------------------------------------------------------------------------------------
// oracle

// matches: does the variable hold the expected value?
func matches(v g1util.Var, e lval) (bool, string) {
	if e.soft || e.undef {
		return true, "" // identity not asserted
	}
	if !v.Set {
		return false, "variable v was not assigned"
	}
	switch e.k {
	case lNull:
		return v.Value == nil && v.DataType == "null", ""
	case lBool:
		b, ok := v.Value.(bool)
		return ok && b == e.b && v.DataType == "bool", ""
	case lNum:
		switch t := v.Value.(type) {
		case float64:
			return t == e.f && !math.IsNaN(t), ""
		case int:
			return float64(t) == e.f, ""
		}
		return false, ""
	case lStr:
		s, ok := v.Value.(string)
		return ok && s == e.s, ""
	}
	return false, ""
}

func describeVar(v g1util.Var) string {
	if !v.Set {
		return "unset"
	}
	return fmt.Sprintf("%#v (%s)", v.Value, v.DataType)
}

func resultClass(v g1util.Var) string {
	if !v.Set {
		return "unset"
	}
	switch t := v.Value.(type) {
	case bool:
		return fmt.Sprintf("bool:%v", t)
	case float64, int:
		return "num"
	case string:
		return "str"
	case nil:
		return "null"
	}
	return "other"
}

const andOrBudget = 60

var andOrReported int

func checkC07(c *vlib.Ctx, cs c07case, n int) {
	src := strictPrefix(cs.strict) + cs.src
	opt := &mx.Opt{Vars: cs.vars}
	if cs.expStdout != nil {
		r := mx.Run(src, opt)
		c.Eval(cs.nontriv, cs.label+" -> "+strings.TrimSpace(r.Stdout))
		if n%1009 == 1 {
			c.Sample(map[string]any{"case": cs.witness, "program": cs.src, "stdout": r.Stdout, "expected": *cs.expStdout})
		}
		switch {
		case r.Hang:
			c.Violation("terminates", cs.witness, r.HangStack)
		case mx.HasPanicText(r.Stderr) || mx.HasPanicText(r.Err):
			c.Violation("no-panic", cs.witness, r.String())
		case r.Stdout != *cs.expStdout:
			c.Violation("truthiness-"+strings.Fields(cs.label)[1], cs.witness, fmt.Sprintf("program %q printed %q, expected %q (exit %d, stderr %s)", cs.src, r.Stdout, *cs.expStdout, r.Exit, vlib.Clip(r.Stderr, 300)))
		}
		return
	}
	r, vars := g1util.RunVars(src, opt, "v")
	v := vars[0]
	c.Eval(cs.nontriv, cs.label+" -> "+resultClass(v))
	if n%2003 == 1 {
		c.Sample(map[string]any{"case": cs.witness, "program": cs.src, "v": describeVar(v), "expected": fmt.Sprint(cs.expVals)})
	}
	if r.Hang {
		c.Violation("terminates", cs.witness, r.HangStack)
		return
	}
	if mx.HasPanicText(r.Stderr) || mx.HasPanicText(r.Err) {
		c.Violation("no-panic", cs.witness, r.String())
		return
	}
	for _, e := range cs.expVals {
		if e.soft {
			c.Extra("not-asserted: sub-shell operand that fails under ?: (statement and documented ?: differ) or prints nothing (its value is not defined); observed "+resultClass(v), 1)
			return
		}
		if e.undef {
			c.Extra("not-asserted: the selected operand is an undefined variable (its value is not defined by the statement)", 1)
			return
		}
	}
	for _, e := range cs.expVals {
		if ok, _ := matches(v, e); ok {
			if len(cs.expVals) == 2 {
				c.Extra("flat ternary: observed value equals one of the two groupings", 1)
			}
			return
		}
	}
	detail := fmt.Sprintf("program %q: v = %s, expected %v (exit %d, stderr %s)", cs.src, describeVar(v), cs.expVals, r.Exit, vlib.Clip(r.Stderr, 300))
	if strings.Contains(cs.src, "&&") || strings.Contains(cs.src, "||") {
		for _, e := range cs.defVals {
			if ok, _ := matches(v, e); ok && !e.soft && !e.undef {
				// one defect, thousands of witnesses: report a bounded number per worker so that the
				// framework's per-worker cap on recorded violations can never hide a different violation
				if andOrReported < andOrBudget {
					andOrReported++
					c.Violation("and-or-always-true", cs.witness, detail+" — the observed value is what results when && / || yield true whatever their operands")
				} else {
					c.Extra("and-or-always-true: further witnesses of the same signature beyond the per-worker report budget", 1)
				}
				return
			}
		}
	}
	c.Violation(cs.sect+"-value", cs.witness, detail)
}

func init() {
	vlib.Register(&vlib.Check{
		ID: "C07", Engine: "E2",
		Rule: "four exhaustively enumerated sections, each case run in-process and the value/type of v (Go API) or stdout compared with a reference written from the statement's truthiness table: " +
			"(bin) all ordered pairs of 21 operands {true,false,0,1,2,'','0','no','off','fail','failed','disabled','null','False',' no ','x',null,(1==1),(1==2), undefined $var with strict-vars off, and on} x {&&,||,?:,??}, parenthesised (and for ?: ?? also bare); " +
			"(tern) all triples over 8 core operands {true,false,0,2,'','no','x',null} x 16 operator pairs in the shapes ((a o b) o c), (a o (b o c)) and (a o b o c) — for the last shape either grouping is accepted because the statement fixes none; " +
			"(truth) every string of length <=4 over {n,o,f,0,space,N} (thorough: <=5 with O added) plus the nine false words in lower/UPPER/Title case with 5 paddings plus 34 near misses, each injected as a variable into `if {out $s}`, `!if`, `out $s -> if`, `out $s -> !` and embedded as a quoted literal in ?: && || (both operand positions); typed operands through `if { out V }` and `if { V }`; " +
			"(exit) functions printing {true,x,0,nothing,false} and exiting {0,1,3} through if, !if, `-> !`, and as ${sub-shell} operands of && || ?:. " +
			"non-trivial = at least one operand is not a bare true/false literal (bin, tern); the string is non-empty and not literally one of the lower-case false words, i.e. needs trimming, case folding or is a near miss (truth); the exit number and the printed text disagree (exit). " +
			"?: on a failing sub-shell and results that are an undefined variable are observed but not asserted",
		Run:    runC07,
		Replay: replayC07,
		Assumptions: []string{
			"operand alphabet as stated; default configuration except proc/strict-vars where stated in the witness",
			"relative precedence of && || ?: ?? is not part of the statement: unparenthesised mixes are accepted under either grouping",
		},
	})
}

func prepC07(c *vlib.Ctx) {
	mx.Init(c.WorkDir)
	if r := mx.Run(setupC07(), nil); r.Exit != 0 || r.Hang {
		c.HarnessError("setup block failed: %v", r)
	}
	// sanity of the helper functions (harness self-test, not a property)
	for _, f := range exitFns() {
		r := mx.Run(f.name, nil)
		want := f.out
		if want != "" {
			want += "\n"
		}
		if r.Exit != f.exit || r.Stdout != want {
			c.HarnessError("helper %s: exit=%d stdout=%q, wanted exit=%d stdout=%q", f.name, r.Exit, r.Stdout, f.exit, want)
		}
	}
}

func runC07(c *vlib.Ctx) {
	prepC07(c)
	n := 0
	enumC07(c.Quick(), func(cs c07case) bool {
		if !c.Next() {
			return true
		}
		n++
		if n&0xff == 0 && c.Expired() {
			return false
		}
		checkC07(c, cs, n)
		return true
	})
}

func replayC07(c *vlib.Ctx, w string) {
	prepC07(c)
	found := false
	enumC07(false, func(cs c07case) bool {
		if cs.witness == w {
			found = true
			checkC07(c, cs, 0)
			return false
		}
		return true
	})
	if !found {
		fmt.Println("witness not in the enumeration space")
	}
}
