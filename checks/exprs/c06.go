// Package exprs: C06 (arithmetic / comparison expressions follow C precedence) and C07 (logical
// operators and truthiness). Expressions are enumerated exhaustively from small typed grammars, run
// in-process as `v = <expr>`, and the Go value + murex data type of v are read back through the
// variable table and compared with a reference evaluator written from the property statement.
package exprs

import (
	"fmt"
	"math"
	"strconv"
	"strings"

	"verif/checks/g1util"
	"verif/mx"
	"verif/vlib"
)

// ---------------------------------------------------------------------------------------------
// reference evaluator (recursive descent, C precedence, left associative)

type vkind int

const (
	kIll  vkind = iota // not well-typed under the statement's grammar: nothing is asserted
	kNum               // float64
	kBool              // result of a comparison
	kStr               // quoted string literal (only as operand of a comparison)
)

type val struct {
	k vkind
	f float64
	b bool
	s string
}

func (v val) String() string {
	switch v.k {
	case kNum:
		return "num " + strconv.FormatFloat(v.f, 'g', -1, 64)
	case kBool:
		return fmt.Sprintf("bool %v", v.b)
	case kStr:
		return fmt.Sprintf("str %q", v.s)
	}
	return "ill-typed"
}

// same: identical type and value; NaN equals NaN (bit class), zeros compared with their sign.
func (v val) same(w val) bool {
	if v.k != w.k {
		return false
	}
	switch v.k {
	case kNum:
		if math.IsNaN(v.f) || math.IsNaN(w.f) {
			return math.IsNaN(v.f) && math.IsNaN(w.f)
		}
		return math.Float64bits(v.f) == math.Float64bits(w.f)
	case kBool:
		return v.b == w.b
	case kStr:
		return v.s == w.s
	}
	return true
}

type tkind int

const (
	tLit tkind = iota // numeric literal
	tStr              // quoted string literal
	tOp
	tLP
	tRP
)

type token struct {
	k tkind
	s string // literal spelling / operator / string contents
	q byte   // quote rune of a string literal
}

var (
	arithOps = []string{"+", "-", "*", "/"}
	cmpOps   = []string{"<", "<=", ">", ">="}
	eqOps    = []string{"==", "!="}
	allOps   = []string{"+", "-", "*", "/", "<", "<=", ">", ">=", "==", "!="}
	// the statement's precedence, loosest first
	cLevels = [][]string{eqOps, cmpOps, {"+", "-"}, {"*", "/"}}
	// no precedence at all (used only to recognise cases where precedence matters)
	flatLevels = [][]string{allOps}
)

type parser struct {
	toks   []token
	pos    int
	levels [][]string
	right  bool // right associative (used only to recognise cases where associativity matters)
	bad    bool // syntax error (cannot happen for generated cases; replay of foreign text)
}

func in(op string, set []string) bool {
	for _, x := range set {
		if x == op {
			return true
		}
	}
	return false
}

func (p *parser) peekOp(set []string) bool {
	return p.pos < len(p.toks) && p.toks[p.pos].k == tOp && in(p.toks[p.pos].s, set)
}

func (p *parser) level(i int) val {
	if i == len(p.levels) {
		return p.primary()
	}
	l := p.level(i + 1)
	if p.right {
		if p.peekOp(p.levels[i]) {
			op := p.toks[p.pos].s
			p.pos++
			r := p.level(i)
			return apply(op, l, r)
		}
		return l
	}
	for p.peekOp(p.levels[i]) {
		op := p.toks[p.pos].s
		p.pos++
		r := p.level(i + 1)
		l = apply(op, l, r)
	}
	return l
}

func (p *parser) primary() val {
	if p.pos >= len(p.toks) {
		p.bad = true
		return val{}
	}
	t := p.toks[p.pos]
	p.pos++
	switch t.k {
	case tLit:
		f, err := strconv.ParseFloat(t.s, 64)
		if err != nil {
			p.bad = true
		}
		return val{k: kNum, f: f}
	case tStr:
		return val{k: kStr, s: t.s}
	case tLP:
		v := p.level(0)
		if p.pos >= len(p.toks) || p.toks[p.pos].k != tRP {
			p.bad = true
			return val{}
		}
		p.pos++
		return v
	}
	p.bad = true
	return val{}
}

// apply: the statement's semantics. Arithmetic is IEEE-754 double arithmetic on numbers; ordering
// comparisons are defined for two numbers or two strings (byte order); == / != additionally for two
// booleans (`B eq B` of the typed grammar). Everything else is not defined by the statement.
func apply(op string, l, r val) val {
	if l.k == kIll || r.k == kIll {
		return val{}
	}
	switch op {
	case "+", "-", "*", "/":
		if l.k != kNum || r.k != kNum {
			return val{}
		}
		switch op {
		case "+":
			return val{k: kNum, f: l.f + r.f}
		case "-":
			return val{k: kNum, f: l.f - r.f}
		case "*":
			return val{k: kNum, f: l.f * r.f}
		}
		return val{k: kNum, f: l.f / r.f}
	case "<", "<=", ">", ">=":
		switch {
		case l.k == kNum && r.k == kNum:
			switch op {
			case "<":
				return val{k: kBool, b: l.f < r.f}
			case "<=":
				return val{k: kBool, b: l.f <= r.f}
			case ">":
				return val{k: kBool, b: l.f > r.f}
			}
			return val{k: kBool, b: l.f >= r.f}
		case l.k == kStr && r.k == kStr:
			c := strings.Compare(l.s, r.s) // byte order
			switch op {
			case "<":
				return val{k: kBool, b: c < 0}
			case "<=":
				return val{k: kBool, b: c <= 0}
			case ">":
				return val{k: kBool, b: c > 0}
			}
			return val{k: kBool, b: c >= 0}
		}
		return val{}
	case "==", "!=":
		var eq bool
		switch {
		case l.k == kNum && r.k == kNum:
			eq = l.f == r.f
		case l.k == kStr && r.k == kStr:
			eq = l.s == r.s
		case l.k == kBool && r.k == kBool:
			eq = l.b == r.b
		default:
			return val{}
		}
		return val{k: kBool, b: eq == (op == "==")}
	}
	return val{}
}

func evalToks(toks []token, levels [][]string, right bool) (val, bool) {
	p := &parser{toks: toks, levels: levels, right: right}
	v := p.level(0)
	if p.bad || p.pos != len(toks) {
		return val{}, false
	}
	return v, true
}

// ---------------------------------------------------------------------------------------------
// text <-> tokens

func render(toks []token, spaced bool) string {
	var b strings.Builder
	for i, t := range toks {
		switch t.k {
		case tOp:
			if spaced {
				b.WriteString(" " + t.s + " ")
			} else {
				b.WriteString(t.s)
			}
		case tStr:
			b.WriteByte(t.q)
			b.WriteString(t.s)
			b.WriteByte(t.q)
		default:
			b.WriteString(t.s)
		}
		_ = i
	}
	return b.String()
}

// tokenise: inverse of render (used by Replay and self-checked against the generator).
func tokenise(s string) ([]token, bool) {
	var toks []token
	i := 0
	valueExpected := true // a '-' here starts a negative literal
	for i < len(s) {
		c := s[i]
		switch {
		case c == ' ':
			i++
		case c == '(':
			toks = append(toks, token{k: tLP, s: "("})
			i++
			valueExpected = true
		case c == ')':
			toks = append(toks, token{k: tRP, s: ")"})
			i++
			valueExpected = false
		case c == '\'' || c == '"':
			j := strings.IndexByte(s[i+1:], c)
			if j < 0 {
				return nil, false
			}
			toks = append(toks, token{k: tStr, s: s[i+1 : i+1+j], q: c})
			i += j + 2
			valueExpected = false
		case c >= '0' && c <= '9' || (c == '-' && valueExpected && i+1 < len(s) && s[i+1] >= '0' && s[i+1] <= '9'):
			j := i + 1
			for j < len(s) && (s[j] >= '0' && s[j] <= '9' || s[j] == '.') {
				j++
			}
			toks = append(toks, token{k: tLit, s: s[i:j]})
			i = j
			valueExpected = false
		default:
			op := ""
			for _, o := range []string{"<=", ">=", "==", "!=", "<", ">", "+", "-", "*", "/"} {
				if strings.HasPrefix(s[i:], o) {
					op = o
					break
				}
			}
			if op == "" {
				return nil, false
			}
			toks = append(toks, token{k: tOp, s: op})
			i += len(op)
			valueExpected = true
		}
	}
	return toks, true
}

// ---------------------------------------------------------------------------------------------
// enumeration

// bracketings(n): every laminar family of operand intervals [i,j], i<j, over n operands (no interval
// twice, no crossing). The empty family is the flat chain; the family may contain the whole range.
func bracketings(n int) [][][2]int {
	var ivs [][2]int
	for w := 1; w < n; w++ { // narrowest first
		for i := 0; i+w < n; i++ {
			ivs = append(ivs, [2]int{i, i + w})
		}
	}
	var out [][][2]int
	var rec func(k int, cur [][2]int)
	rec = func(k int, cur [][2]int) {
		if k == len(ivs) {
			out = append(out, append([][2]int{}, cur...))
			return
		}
		rec(k+1, cur)
		a := ivs[k]
		for _, b := range cur {
			// crossing: overlap without containment
			if a[0] < b[0] && b[0] <= a[1] && a[1] < b[1] || b[0] < a[0] && a[0] <= b[1] && b[1] < a[1] {
				return
			}
		}
		rec(k+1, append(cur, a))
	}
	rec(0, nil)
	return out
}

func buildToks(lits []string, ops []string, br [][2]int) []token {
	var toks []token
	for i, l := range lits {
		if i > 0 {
			toks = append(toks, token{k: tOp, s: ops[i-1]})
		}
		for _, b := range br {
			if b[0] == i {
				toks = append(toks, token{k: tLP, s: "("})
			}
		}
		toks = append(toks, token{k: tLit, s: l})
		for _, b := range br {
			if b[1] == i {
				toks = append(toks, token{k: tRP, s: ")"})
			}
		}
	}
	return toks
}

type c06case struct {
	part   string // flat | paren | spelling | string
	toks   []token
	spaced bool
	bare   bool // additionally run the bare expression and read its stdout
}

var (
	litsFull  = []string{"0", "1", "2", "3", "10", "0.5", "2.5", "-1", "-2.5"}
	litsMid   = []string{"0", "1", "2", "3", "10", "0.5", "2.5"}
	litsSmall = []string{"0", "1", "2", "3", "0.5"}
	lits123   = []string{"1", "2", "3"}
	lits0123  = []string{"0", "1", "2", "3"}

	spellVals = [][]string{
		{"0", "0.0", "0.00"}, {"1", "1.0", "1.00"}, {"10", "10.0", "10.00"}, {"0.5", "0.50", "0.500"},
		{"2.5", "2.50", "2.500"}, {"-1", "-1.0", "-1.00"}, {"-2.5", "-2.50", "-2.500"},
	}
	strLits = []string{"", "a", "B", "aa", "b", "é", "10", "9"}
	cmpAll  = []string{"<", "<=", ">", ">=", "==", "!="}
)

// enumC06 calls fn for every case of the tier, in a fixed order. mine() is consulted before the case is
// materialised so that 16 workers do not each build every token list.
func enumC06(quick bool, mine func() bool, fn func(cs c06case) bool) {
	cont := true
	chains := func(part string, lits []string, nops int, brs [][][2]int, layouts []bool, bareMax int) {
		radix := make([]int, 0, 2*nops+3)
		radix = append(radix, len(brs), len(layouts))
		for i := 0; i <= nops; i++ {
			radix = append(radix, len(lits))
		}
		for i := 0; i < nops; i++ {
			radix = append(radix, len(allOps))
		}
		ls := make([]string, nops+1)
		os := make([]string, nops)
		vlib.Product(radix, func(idx []int) bool {
			if !mine() {
				return true
			}
			for i := range ls {
				ls[i] = lits[idx[2+i]]
			}
			for i := range os {
				os[i] = allOps[idx[3+nops+i]]
			}
			cs := c06case{part: part, toks: buildToks(ls, os, brs[idx[0]]), spaced: layouts[idx[1]]}
			cs.bare = nops >= 1 && nops <= bareMax && cs.spaced && len(brs[idx[0]]) == 0
			cont = fn(cs)
			return cont
		})
	}
	flat := [][][2]int{nil}
	both := []bool{true, false}
	spacedOnly := []bool{true}

	// flat chains
	if quick {
		for n := 0; n <= 2 && cont; n++ {
			chains("flat", litsFull, n, flat, both, 2)
		}
		if cont {
			chains("flat", litsMid, 3, flat, spacedOnly, 0)
		}
	} else {
		for n := 0; n <= 3 && cont; n++ {
			chains("flat", litsFull, n, flat, both, 2)
		}
		if cont {
			chains("flat", litsSmall, 4, flat, spacedOnly, 0)
		}
	}
	// parenthesised trees: every bracketing except the empty one (that is the flat chain above)
	for n := 1; n <= 3 && cont; n++ {
		brs := bracketings(n + 1)[1:]
		lits := lits123
		if n <= 2 {
			lits = litsSmall
		} else if !quick {
			lits = lits0123
		}
		chains("paren", lits, n, brs, spacedOnly, 0)
	}
	if !quick && cont {
		// compact layout of the parenthesised trees, and 4-operator trees over {1,2}
		for n := 1; n <= 3 && cont; n++ {
			chains("paren", lits123, n, bracketings(n + 1)[1:], []bool{false}, 0)
		}
		if cont {
			chains("paren", []string{"1", "2"}, 4, bracketings(5)[1:], spacedOnly, 0)
		}
	}
	// number spellings
	for ai := 0; ai < len(spellVals)*3 && cont; ai++ {
		for bi := 0; bi < len(spellVals)*3 && cont; bi++ {
			for _, op := range cmpAll {
				if !mine() {
					continue
				}
				a, b := spellVals[ai/3][ai%3], spellVals[bi/3][bi%3]
				cont = fn(c06case{part: "spelling", spaced: true, toks: []token{{k: tLit, s: a}, {k: tOp, s: op}, {k: tLit, s: b}}})
				if !cont {
					break
				}
			}
		}
	}
	// quoted strings: ordered pairs x operators x quote styles
	quotes := [][2]byte{{'\'', '\''}, {'"', '"'}, {'\'', '"'}, {'"', '\''}}
	for _, a := range strLits {
		for _, b := range strLits {
			for _, op := range cmpAll {
				for _, q := range quotes {
					for _, sp := range both {
						if !cont {
							return
						}
						if !mine() {
							continue
						}
						cont = fn(c06case{part: "string", spaced: sp, toks: []token{{k: tStr, s: a, q: q[0]}, {k: tOp, s: op}, {k: tStr, s: b, q: q[1]}}})
					}
				}
			}
		}
	}
}

// ---------------------------------------------------------------------------------------------
// the check

func init() {
	vlib.Register(&vlib.Check{
		ID: "C06", Engine: "E2",
		Rule: "expressions are generated from a typed grammar (A := lit | A aop A | (A); B := A cmp A | B eq B | (B)) and enumerated completely: " +
			"(flat) every chain lit (op lit)^n over literals {0,1,2,3,10,0.5,2.5,-1,-2.5} and the 10 operators + - * / < <= > >= == != for n<=2 in spaced and compact layout, " +
			"n=3 over {0,1,2,3,10,0.5,2.5} [quick] / n<=3 over all 9 literals in both layouts and n=4 over {0,1,2,3,0.5} [thorough]; " +
			"(paren) every non-crossing parenthesisation (laminar family of operand ranges, incl. the whole expression) of chains with <=3 operators over {1,2,3} (<=2 operators: {0,1,2,3,0.5}; thorough: {0,1,2,3}, the compact layout, and 4 operators over {1,2}); " +
			"(spelling) all ordered pairs of {v, v.0, v.00}-spellings of 7 values x 6 comparison operators; (string) all ordered pairs of 8 quoted strings x 6 operators x 4 quote styles x 2 layouts. " +
			"Chains that are not derivable in the typed grammar (boolean operand of arithmetic or ordering, boolean compared with number) are counted as not-asserted and not run. " +
			"Each case runs in-process as `v = <expr>`; the Go value and data type of v are read from the variable table and compared with a recursive-descent C-precedence evaluator over float64 (NaN by class, zeros with sign); flat chains with 1..2 operators are also run bare and their stdout parsed. " +
			"non-trivial = the reference value differs from (or is ill-typed under) a precedence-free left-to-right reading or a right-associative reading of the same tokens, or the result is Inf/NaN/-0; for spellings: numerically equal operands spelt differently; for strings: unequal operands under an ordering operator, or equal operands in different quote styles",
		Run:    runC06,
		Replay: replayC06,
		Assumptions: []string{
			"literal alphabet, operator set and operator-count bounds as stated in the rule",
			"operand types outside the statement's typed grammar (bool+num, bool<bool, bool==num) are not asserted",
		},
	})
}

func classify(v val) string {
	switch v.k {
	case kBool:
		return fmt.Sprintf("bool:%v", v.b)
	case kNum:
		switch {
		case math.IsNaN(v.f):
			return "num:NaN"
		case math.IsInf(v.f, 1):
			return "num:+Inf"
		case math.IsInf(v.f, -1):
			return "num:-Inf"
		case v.f == 0 && math.Signbit(v.f):
			return "num:-0"
		case v.f == 0:
			return "num:0"
		case v.f == math.Trunc(v.f):
			if v.f < 0 {
				return "num:-int"
			}
			return "num:+int"
		case v.f < 0:
			return "num:-frac"
		}
		return "num:+frac"
	}
	return "?"
}

func nops(toks []token) int {
	n := 0
	for _, t := range toks {
		if t.k == tOp {
			n++
		}
	}
	return n
}

func hasParen(toks []token) bool {
	for _, t := range toks {
		if t.k == tLP {
			return true
		}
	}
	return false
}

func nontrivialC06(cs c06case, exp val) bool {
	switch cs.part {
	case "spelling":
		a, _ := strconv.ParseFloat(cs.toks[0].s, 64)
		b, _ := strconv.ParseFloat(cs.toks[2].s, 64)
		return a == b && cs.toks[0].s != cs.toks[2].s
	case "string":
		op := cs.toks[1].s
		if cs.toks[0].s != cs.toks[2].s {
			return in(op, cmpOps)
		}
		return cs.toks[0].q != cs.toks[2].q
	}
	if exp.k == kNum && (math.IsNaN(exp.f) || math.IsInf(exp.f, 0) || (exp.f == 0 && math.Signbit(exp.f))) {
		return true
	}
	if nops(cs.toks) < 2 {
		return false
	}
	if a, ok := evalToks(cs.toks, flatLevels, false); !ok || !a.same(exp) {
		return true
	}
	if a, ok := evalToks(cs.toks, cLevels, true); !ok || !a.same(exp) {
		return true
	}
	return false
}

func observed(v g1util.Var) (val, string) {
	if !v.Set {
		return val{}, "variable v was not assigned"
	}
	switch t := v.Value.(type) {
	case float64:
		if v.DataType != "num" && v.DataType != "float" && v.DataType != "int" {
			return val{k: kNum, f: t}, "float64 value stored with data type " + v.DataType
		}
		return val{k: kNum, f: t}, ""
	case int:
		if v.DataType != "num" && v.DataType != "float" && v.DataType != "int" {
			return val{k: kNum, f: float64(t)}, "int value stored with data type " + v.DataType
		}
		return val{k: kNum, f: float64(t)}, ""
	case bool:
		if v.DataType != "bool" {
			return val{k: kBool, b: t}, "bool value stored with data type " + v.DataType
		}
		return val{k: kBool, b: t}, ""
	case string:
		return val{k: kStr, s: t}, ""
	}
	return val{}, fmt.Sprintf("unexpected Go value %#v (%T) of data type %q", v.Value, v.Value, v.DataType)
}

func clauseFor(part string) string {
	switch part {
	case "spelling":
		return "number-spelling"
	case "string":
		return "string-order"
	}
	return "value"
}

// checkC06 runs one case through the oracle. Returns false if the case is not asserted (ill-typed).
func checkC06(c *vlib.Ctx, cs c06case, n int) bool {
	exp, ok := evalToks(cs.toks, cLevels, false)
	if !ok {
		c.HarnessError("generator produced an unparsable token list: %v", cs.toks)
	}
	if exp.k == kIll {
		c.Extra("not-asserted: outside the typed grammar (bool operand of arithmetic/ordering, bool vs number)", 1)
		return false
	}
	text := render(cs.toks, cs.spaced)
	if n%4099 == 0 {
		if back, ok := tokenise(text); !ok || render(back, cs.spaced) != text || len(back) != len(cs.toks) {
			c.HarnessError("tokeniser does not invert the generator for %q", text)
		}
	}
	r, vars := g1util.RunVars("v = "+text, nil, "v")
	got, typeErr := observed(vars[0])
	layout := "compact"
	if cs.spaced {
		layout = "spaced"
	}
	outcome := fmt.Sprintf("%s/%dop/%s %s", cs.part, nops(cs.toks), layout, classify(got))
	if r.Exit != 0 || !vars[0].Set {
		outcome = fmt.Sprintf("%s/%dop/%s error", cs.part, nops(cs.toks), layout)
	}
	c.Eval(nontrivialC06(cs, exp), outcome)
	if n%70001 == 1 || (cs.part != "flat" && n%997 == 1) {
		c.Sample(map[string]any{"part": cs.part, "expr": text, "value": fmt.Sprint(vars[0].Value), "datatype": vars[0].DataType, "expected": exp.String()})
	}
	switch {
	case r.Hang:
		c.Violation("terminates", text, "caller still blocked after ceiling\n"+r.HangStack)
		return true
	case mx.HasPanicText(r.Stderr) || mx.HasPanicText(r.Err):
		c.Violation("no-panic", text, r.String())
		return true
	case r.Exit != 0 || !vars[0].Set:
		c.Violation("evaluates", text, fmt.Sprintf("well-formed expression did not evaluate (expected %s): %s", exp, vlib.Clip(r.String(), 600)))
		return true
	case typeErr != "":
		c.Violation("type", text, fmt.Sprintf("%s; expected %s", typeErr, exp))
		return true
	case !got.same(exp):
		c.Violation(clauseFor(cs.part), text, fmt.Sprintf("v = %s (data type %s), expected %s", got, vars[0].DataType, exp))
		return true
	}
	if cs.bare {
		// second observation point: stdout of the bare expression (expr builtin)
		rb := mx.Run(text, nil)
		out := strings.TrimSpace(rb.Stdout)
		var ob val
		switch out {
		case "true":
			ob = val{k: kBool, b: true}
		case "false":
			ob = val{k: kBool, b: false}
		default:
			if f, err := strconv.ParseFloat(out, 64); err == nil {
				ob = val{k: kNum, f: f}
			}
		}
		c.Extra("bare-expression stdout observations", 1)
		if rb.Hang {
			c.Violation("terminates", "bare: "+text, rb.HangStack)
		} else if !ob.same(exp) {
			c.Violation("stdout-value", "bare: "+text, fmt.Sprintf("stdout %q (exit %d) does not denote expected %s; stderr %s", rb.Stdout, rb.Exit, exp, vlib.Clip(rb.Stderr, 300)))
		}
	}
	return true
}

func runC06(c *vlib.Ctx) {
	mx.Init(c.WorkDir)
	n := 0
	enumC06(c.Quick(), c.Next, func(cs c06case) bool {
		n++
		if n&0x3ff == 0 && c.Expired() {
			return false
		}
		checkC06(c, cs, n)
		return true
	})
}

// replayC06: the witness is the expression text (optionally prefixed "bare: ").
func replayC06(c *vlib.Ctx, w string) {
	mx.Init(c.WorkDir)
	bare := strings.HasPrefix(w, "bare: ")
	w = strings.TrimPrefix(w, "bare: ")
	toks, ok := tokenise(w)
	if !ok {
		fmt.Println("witness is not in the expression language of this check")
		return
	}
	cs := c06case{part: "flat", toks: toks, spaced: strings.Contains(w, " "), bare: bare}
	if hasParen(toks) {
		cs.part = "paren"
	}
	if len(toks) == 3 && toks[0].k == tStr {
		cs.part = "string"
	} else if len(toks) == 3 && (strings.Contains(toks[0].s, ".") || strings.Contains(toks[2].s, ".")) && in(toks[1].s, cmpAll) {
		cs.part = "spelling"
	}
	if !checkC06(c, cs, 1) {
		fmt.Println("witness is outside the typed grammar: nothing asserted")
	}
}
