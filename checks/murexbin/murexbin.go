// Package murexbin gives the g6 checks a murex executable built from /repo's *current* working tree
// (and from the mutant overlay when VERIF_OVERLAY is set) for the cases that need the process seam.
// Worker 0 of a run builds it once, every worker hard-links it into its private scratch directory.
package murexbin

import (
	"fmt"
	"io"
	"os"
	"os/exec"
	"path/filepath"
	"time"

	"verif/vlib"
)

// HOME as it was when the process started (mx.Init later points HOME at the scratch directory, which would
// hide the Go module cache from the build)
var origHome = os.Getenv("HOME")

func shared() string {
	return filepath.Join(vlib.Root, ".work", "run", fmt.Sprintf("g6-murex-%d", os.Getppid()))
}

// Path returns the executable for this worker (building / waiting for the build on first use).
func Path(c *vlib.Ctx) string {
	if b := os.Getenv("VERIF_G6_MUREX"); b != "" {
		return b // debugging aid: use a ready-made binary
	}
	mine := filepath.Join(c.WorkDir, "murex-bin")
	if _, err := os.Stat(mine); err == nil {
		return mine
	}
	sh := shared()
	if c.Shard == 0 {
		tmp := sh + ".tmp"
		// no_pipe_net is (despite its name) the tag that compiles the tcp/udp pipe types in: their constructors
		// fail while returning a typed nil pointer, which the pipe-registry sequences of C19 need (seed C19-2)
		args := []string{"build", "-tags", "no_pipe_net", "-o", tmp}
		if ov := os.Getenv("VERIF_OVERLAY"); ov != "" {
			args = append(args, "-overlay", ov)
		}
		args = append(args, "github.com/lmorg/murex")
		cmd := exec.Command("go1.26", args...)
		cmd.Dir = vlib.Root
		cmd.Env = append(os.Environ(), "HOME="+origHome, "GOFLAGS=-mod=mod", "GOPROXY=off", "GOSUMDB=off", "GOTOOLCHAIN=local", "CGO_ENABLED=0")
		out, err := cmd.CombinedOutput()
		if err != nil {
			os.WriteFile(sh+".fail", out, 0644)
			c.HarnessError("cannot build murex from the working tree: %v\n%s", err, vlib.Clip(string(out), 2000))
		}
		if err := os.Rename(tmp, sh); err != nil {
			c.HarnessError("cannot publish murex binary: %v", err)
		}
	} else {
		deadline := time.Now().Add(15 * time.Minute)
		for {
			if _, err := os.Stat(sh); err == nil {
				break
			}
			if _, err := os.Stat(sh + ".fail"); err == nil {
				c.HarnessError("worker 0 could not build murex (see its log)")
			}
			if time.Now().After(deadline) {
				c.HarnessError("timed out waiting for worker 0 to build murex")
			}
			time.Sleep(200 * time.Millisecond)
		}
	}
	if err := os.Link(sh, mine); err != nil {
		if err := copyFile(sh, mine); err != nil {
			c.HarnessError("cannot copy murex binary: %v", err)
		}
	}
	os.WriteFile(fmt.Sprintf("%s.l%d", sh, c.Shard), nil, 0644)
	return mine
}

// Done is called by every worker at the end of its run; worker 0 removes the shared copy once all
// workers hold their own link.
func Done(c *vlib.Ctx) {
	if c.Shard != 0 {
		return
	}
	sh := shared()
	if _, err := os.Stat(sh); err != nil {
		return
	}
	deadline := time.Now().Add(2 * time.Minute)
	for time.Now().Before(deadline) {
		all := true
		for i := 0; i < c.NShards; i++ {
			if _, err := os.Stat(fmt.Sprintf("%s.l%d", sh, i)); err != nil {
				all = false
				break
			}
		}
		if all {
			break
		}
		time.Sleep(200 * time.Millisecond)
	}
	os.Remove(sh)
	os.Remove(sh + ".fail")
	for i := 0; i < c.NShards; i++ {
		os.Remove(fmt.Sprintf("%s.l%d", sh, i))
	}
}

func copyFile(src, dst string) error {
	in, err := os.Open(src)
	if err != nil {
		return err
	}
	defer in.Close()
	out, err := os.OpenFile(dst, os.O_CREATE|os.O_WRONLY|os.O_TRUNC, 0755)
	if err != nil {
		return err
	}
	if _, err := io.Copy(out, in); err != nil {
		out.Close()
		return err
	}
	return out.Close()
}
