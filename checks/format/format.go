package format
