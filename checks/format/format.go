// Package format: C14 — `format X -> format json` gives back the JSON value it was given, for every
// value the target format can represent (yaml: any value; toml: maps; jsonl: arrays; csv: tables of
// string cells). Bounded-exhaustive enumeration of JSON documents over a hostile leaf alphabet.
package format

import (
	"encoding/json"
	"fmt"
	"os"
	"sort"
	"strings"
	"time"

	"verif/checks/g3util"
	"verif/mx"
	"verif/vlib"
)

// ---- alphabets (DESIGN §C14) --------------------------------------------------------------------

var strLeaves = []string{"", "a", "#x", " lead", "true", "null", "1", "a,b", "a\"b", "a: b", "- a", "é", "~"}

func anyStrings(l []string) []any {
	o := make([]any, len(l))
	for i, s := range l {
		o[i] = s
	}
	return o
}

var leafFull = append(anyStrings(strLeaves), 0.0, 1.0, -1.5, true, nil)
var leafRed = []any{"", "#x", "true", 1.0, -1.5, nil}
var leafRedT = []any{"", "a", "#x", "true", 1.0, -1.5, true, nil} // thorough

var keys1Full = strLeaves
var keyPairsFull = [][]string{{"k", "#x"}, {"1", "true"}, {"", " lead"}, {"a: b", "~"}}
var keyTriples = [][]string{{"#x", "k", "null"}, {"", "- a", "é"}}
var keys1Red = []string{"k", "#x", "true", ""}
var keyPairsRed = [][]string{{"k", "#x"}, {"", "true"}}

// csv
var csvHeaders1 = strLeaves
var csvHeaderPairs = [][]string{{"h", "k"}, {"#x", "k"}, {"", "k"}, {" lead", "a,b"}, {"1", "true"}, {"a\"b", "é"}}
var csvCells9 = []string{"", "a", "#x", " lead", "true", "a,b", "a\"b", "1", "é"}
var csvCellsSmall = []string{"", "a", "#x", " lead", "a,b"}

// ---- document enumeration --------------------------------------------------------------------------

func isContainer(v any) bool {
	switch v.(type) {
	case []any, map[string]any:
		return true
	}
	return false
}

// arraysOver emits every array of minKids..maxKids children (odometer order); with needContainer
// only those having at least one container child (so that families stay disjoint).
func arraysOver(ch []any, minKids, maxKids int, needContainer bool, emit func(any) bool) bool {
	ok := true
	vlib.Seqs(len(ch), minKids, maxKids, func(idx []int) bool {
		a := make([]any, len(idx))
		has := false
		for i, x := range idx {
			a[i] = ch[x]
			has = has || isContainer(ch[x])
		}
		if needContainer && !has {
			return true
		}
		ok = emit(a)
		return ok
	})
	return ok
}

// mapsOver emits {} (when minKids==0), every one-entry map key∈keys1, and every map over each key tuple.
func mapsOver(ch []any, keys1 []string, tuples [][]string, withEmpty, needContainer bool, emit func(any) bool) bool {
	if withEmpty && !needContainer {
		if !emit(map[string]any{}) {
			return false
		}
	}
	for _, k := range keys1 {
		for _, v := range ch {
			if needContainer && !isContainer(v) {
				continue
			}
			if !emit(map[string]any{k: v}) {
				return false
			}
		}
	}
	for _, t := range tuples {
		ok := true
		radix := make([]int, len(t))
		for i := range radix {
			radix[i] = len(ch)
		}
		vlib.Product(radix, func(idx []int) bool {
			m := map[string]any{}
			has := false
			for i, x := range idx {
				m[t[i]] = ch[x]
				has = has || isContainer(ch[x])
			}
			if needContainer && !has {
				return true
			}
			ok = emit(m)
			return ok
		})
		if !ok {
			return false
		}
	}
	return true
}

func collect(f func(emit func(any) bool) bool) []any {
	var out []any
	f(func(v any) bool { out = append(out, v); return true })
	return out
}

type family struct {
	name string
	gen  func(emit func(any) bool) bool
}

func tables(headers1 []string, pairs [][]string, cells []string, maxRows int, cols1, cols2 bool) func(emit func(any) bool) bool {
	return func(emit func(any) bool) bool {
		if cols1 {
			for _, h := range headers1 {
				ok := true
				vlib.Seqs(len(cells), 1, maxRows, func(idx []int) bool {
					t := make([]any, len(idx))
					for i, x := range idx {
						t[i] = map[string]any{h: cells[x]}
					}
					ok = emit(t)
					return ok
				})
				if !ok {
					return false
				}
			}
		}
		if cols2 {
			for _, p := range pairs {
				ok := true
				vlib.Seqs(len(cells), 2, 2*maxRows, func(idx []int) bool {
					if len(idx)%2 != 0 {
						return true
					}
					t := make([]any, len(idx)/2)
					for i := range t {
						t[i] = map[string]any{p[0]: cells[idx[2*i]], p[1]: cells[idx[2*i+1]]}
					}
					ok = emit(t)
					return ok
				})
				if !ok {
					return false
				}
			}
		}
		return true
	}
}

func families(quick bool) []family {
	kids1 := 2
	if !quick {
		kids1 = 3
	}
	children := func(red []any) []any {
		d1red := collect(func(emit func(any) bool) bool {
			return arraysOver(red, 0, 2, false, emit) && mapsOver(red, keys1Red[:2], keyPairsRed[:1], true, false, emit)
		})
		return append(append([]any{}, red...), d1red...)
	}
	ch2 := children(leafRed)
	fams := []family{
		{"leaf", func(emit func(any) bool) bool {
			for _, l := range leafFull {
				if !emit(l) {
					return false
				}
			}
			return true
		}},
		{"array-d1", func(emit func(any) bool) bool { return arraysOver(leafFull, 0, kids1, false, emit) }},
		{"map-d1", func(emit func(any) bool) bool {
			t := keyPairsFull
			if !quick {
				t = append(append([][]string{}, keyPairsFull...), keyTriples...)
			}
			return mapsOver(leafFull, keys1Full, t, true, false, emit)
		}},
		{"array-d2", func(emit func(any) bool) bool { return arraysOver(ch2, 1, kids1, true, emit) }},
		{"map-d2", func(emit func(any) bool) bool { return mapsOver(ch2, keys1Red, keyPairsRed, false, true, emit) }},
		{"table", tables(csvHeaders1, nil, strLeaves, 2, true, false)},
	}
	if quick {
		fams = append(fams, family{"table", tables(nil, csvHeaderPairs, csvCells9, 2, false, true)})
	} else {
		fams = append(fams, family{"table", tables(nil, csvHeaderPairs, strLeaves, 2, false, true)})
		fams = append(fams, family{"table-3rows", tables(csvHeaders1[:5], csvHeaderPairs, csvCellsSmall, 3, true, true)})
		// the wider reduced leaf set (8 leaves), fan-out 2; documents already produced over the
		// 6-leaf set are skipped so that no input is evaluated twice
		ch3 := children(leafRedT)
		seen := map[string]bool{}
		for _, v := range ch2 {
			seen[g3util.JSON(v)] = true
		}
		fresh := func(emit func(any) bool) func(any) bool {
			return func(doc any) bool {
				if onlyOver(doc, seen) {
					return true
				}
				return emit(doc)
			}
		}
		fams = append(fams,
			family{"array-d2w", func(emit func(any) bool) bool { return arraysOver(ch3, 1, 2, true, fresh(emit)) }},
			family{"map-d2w", func(emit func(any) bool) bool { return mapsOver(ch3, keys1Red, keyPairsRed, false, true, fresh(emit)) }})
	}
	return fams
}

// onlyOver: every child of the container is in the given set (canonical JSON).
func onlyOver(doc any, set map[string]bool) bool {
	switch t := doc.(type) {
	case []any:
		for _, e := range t {
			if !set[g3util.JSON(e)] {
				return false
			}
		}
	case map[string]any:
		for _, e := range t {
			if !set[g3util.JSON(e)] {
				return false
			}
		}
	}
	return true
}

// ---- representability (what the statement quantifies over) ------------------------------------------

func kind(v any) string {
	switch v.(type) {
	case nil:
		return "null"
	case bool:
		return "bool"
	case float64:
		return "number"
	case string:
		return "string"
	case []any:
		return "array"
	}
	return "map"
}

func hasNull(v any) bool {
	switch t := v.(type) {
	case nil:
		return true
	case []any:
		for _, e := range t {
			if hasNull(e) {
				return true
			}
		}
	case map[string]any:
		for _, e := range t {
			if hasNull(e) {
				return true
			}
		}
	}
	return false
}

func homogeneous(v any) bool {
	switch t := v.(type) {
	case []any:
		for i, e := range t {
			if kind(e) != kind(t[0]) || !homogeneous(t[i]) {
				return false
			}
		}
	case map[string]any:
		for _, e := range t {
			if !homogeneous(e) {
				return false
			}
		}
	}
	return true
}

// isTable: a non-empty array of flat objects with the same non-empty key set and string values.
func isTable(v any) bool {
	rows, ok := v.([]any)
	if !ok || len(rows) == 0 {
		return false
	}
	var keys []string
	for i, r := range rows {
		m, ok := r.(map[string]any)
		if !ok || len(m) == 0 {
			return false
		}
		var ks []string
		for k, c := range m {
			if _, ok := c.(string); !ok {
				return false
			}
			ks = append(ks, k)
		}
		sort.Strings(ks)
		if i == 0 {
			keys = ks
		} else if strings.Join(ks, "\x00") != strings.Join(keys, "\x00") {
			return false
		}
	}
	return true
}

var formats = []string{"yaml", "toml", "jsonl", "csv"}

// applicable: is the format run at all on this document (right top-level shape)?
func applicable(f string, doc any) bool {
	switch f {
	case "yaml":
		return true
	case "toml":
		return kind(doc) == "map"
	case "jsonl":
		return kind(doc) == "array"
	case "csv":
		if a, ok := doc.([]any); ok && len(a) == 0 {
			return true // the empty table: run for the universal clauses only
		}
		return isTable(doc)
	}
	return false
}

// notAsserted returns a reason when the statement does not cover (format, doc); such cases are run
// for the universal clauses only.
func notAsserted(f string, doc any) string {
	switch f {
	case "yaml":
		if doc == nil {
			return "top-level null (murex's json encoder reports `null` as 'no data returned' by design)"
		}
	case "toml":
		if hasNull(doc) {
			return "toml has no null"
		}
		if !homogeneous(doc) {
			return "toml: heterogeneous array (not representable before TOML 1.0)"
		}
	case "jsonl":
		a := doc.([]any)
		if len(a) == 0 {
			return "jsonl: the empty array is an empty stream, which carries no value"
		}
		for _, e := range a {
			if e == nil {
				return "jsonl: a null line (murex's json encoder reports `null` as 'no data returned' by design)"
			}
		}
	case "csv":
		if a, ok := doc.([]any); ok && len(a) == 0 {
			return "csv: the empty table is an empty stream, which carries no value"
		}
	}
	return ""
}

// hostile: the document carries a string (leaf or key) other than the plain words a, h, k.
func hostile(v any) bool {
	plain := func(s string) bool { return s == "a" || s == "h" || s == "k" }
	switch t := v.(type) {
	case string:
		return !plain(t)
	case []any:
		for _, e := range t {
			if hostile(e) {
				return true
			}
		}
	case map[string]any:
		for k, e := range t {
			if !plain(k) || hostile(e) {
				return true
			}
		}
	}
	return false
}

// ---- the check ---------------------------------------------------------------------------------------

type wit struct {
	Format string `json:"format"`
	Doc    any    `json:"doc"`
}

func init() {
	vlib.Register(&vlib.Check{
		ID: "C14", Engine: "E2",
		Rule:   "JSON documents over the leaves {\"\", a, #x, ' lead', true, null, 1, 'a,b', a\"b, 'a: b', '- a', é, ~ (strings), 0, 1, -1.5, true, null}: every leaf; every array of 0..K leaves (K=2 quick, 3 thorough); every map {} / one entry keyed by each of the 13 strings / entries for 4 key pairs (+2 key triples thorough); every depth-2 array (1..K children) and map (4 single keys, 2 key pairs) with at least one container child, children taken from the reduced leaf set {\"\", #x, true, 1, -1.5, null} and all depth-1 containers (fan-out 2) over it (thorough: also fan-out 2 over the 8-leaf set that adds a and true(bool)); csv tables as arrays of flat objects: 1 column (13 headers) x 1..2 rows of cells from the 13 strings and 2 columns (6 header pairs) x 1..2 rows over 9 of them (thorough: all 13, and also 3 rows over 5 cells). Each document is written to the json-typed stdin of `format F -> format json` for F = yaml (always), toml (top-level maps), jsonl (top-level arrays), csv (tables); stdout must decode (encoding/json, numbers as float64) to the same value. Not asserted, run for no-panic/termination only and counted: yaml top-level null, toml with null or a heterogeneous array, jsonl empty array or null line, csv empty table. non-trivial = the document contains a string leaf or key other than the plain words a/h/k (i.e. something that needs format-specific quoting)",
		Run:    run,
		Replay: replay,
		Assumptions: []string{
			"leaf alphabet, nesting depth and fan-out as stated in rule",
			"documents reach murex through the fork's typed stdin, never through source text",
			"a violation's witness is minimised by greedy removal/hoisting/simplification of sub-documents while the same clause still fails",
		},
	})
}

var trace = os.Getenv("G3_TRACE") != ""

// A crashed builtin leaves the rest of its pipeline spinning for ever inside the worker, so cases the
// statement does not cover are no longer run once their class has shown crashBudget crashes.
const crashBudget = 2

var crashes = map[string]int{}

func run(c *vlib.Ctx) {
	mx.Init(c.WorkDir)
	n := 0
	for _, fam := range families(c.Quick()) {
		cont := fam.gen(func(doc any) bool {
			for _, f := range formats {
				if !applicable(f, doc) {
					continue
				}
				if fam.name == "table" || fam.name == "table-3rows" {
					if f != "csv" {
						continue // the table families exist for csv; other formats see tables in array-d2
					}
				}
				if !c.Next() {
					continue
				}
				n++
				if n&0xff == 0 && c.Expired() {
					return false
				}
				w := wit{f, doc}
				if why := notAsserted(f, doc); why != "" && crashes[f+why] >= crashBudget {
					c.Extra("not run (not asserted, and "+fmt.Sprint(crashBudget)+" cases of the same class already crashed murex in this worker) — "+why, 1)
					continue
				}
				if trace {
					fmt.Fprintln(os.Stderr, "TRACE", g3util.JSON(w))
				}
				t0 := time.Now()
				res := check(w)
				if trace {
					fmt.Fprintln(os.Stderr, "TOOK", time.Since(t0), res.outcome)
				}
				c.Eval(res.nontrivial, f+" "+fam.name+" "+res.outcome)
				if res.skipped != "" {
					c.Extra("not asserted — "+res.skipped, 1)
				}
				if n%9973 == 1 {
					c.Sample(map[string]any{"case": w, "stdout": vlib.Clip(res.stdout, 160)})
				}
				if res.clause == "no-panic" || res.clause == "terminates" {
					crashes[f+res.skipped]++
				}
				if res.clause != "" {
					mw, mres := minimise(w, res)
					c.Violation(mres.clause, g3util.JSON(mw), mres.detail)
				}
			}
			return true
		})
		if !cont {
			return
		}
	}
}

type result struct {
	clause, detail string
	nontrivial     bool
	outcome        string
	skipped        string
	stdout         string
}

var memo = map[string]result{}

func check(w wit) result {
	key := g3util.JSON(w)
	if r, ok := memo[key]; ok {
		return r
	}
	r := check1(w)
	if len(memo) < 200000 {
		memo[key] = r
	}
	return r
}

func check1(w wit) (res result) {
	if !applicable(w.Format, w.Doc) {
		res.outcome = "not-applicable"
		return
	}
	res.nontrivial = hostile(w.Doc)
	res.skipped = notAsserted(w.Format, w.Doc)
	docText := g3util.JSON(w.Doc)
	prog := "format " + w.Format + " -> format json"
	r := g3util.Run(prog, &mx.Opt{Stdin: []byte(docText), StdinType: "json"})
	res.stdout = r.Stdout
	if cl, d := g3util.Universal(r); cl != "" {
		res.outcome = cl
		res.clause, res.detail = cl, fmt.Sprintf("%s fed %s: %s", prog, docText, d)
		return
	}
	if res.skipped != "" {
		res.outcome = "not-asserted"
		res.nontrivial = false
		return
	}
	fail := func(kind, what string) {
		mid := g3util.Run("format "+w.Format, &mx.Opt{Stdin: []byte(docText), StdinType: "json"})
		res.outcome = kind
		res.clause = "roundtrip-" + w.Format
		res.detail = fmt.Sprintf("`%s` fed %s: %s; `format %s` alone printed %q", prog, docText, what, w.Format, vlib.Clip(mid.Stdout, 300))
	}
	if r.Exit != 0 {
		fail("refused", fmt.Sprintf("exit %d, stdout %q, stderr %q", r.Exit, vlib.Clip(r.Stdout, 200), vlib.Clip(r.Stderr, 300)))
		return
	}
	var got any
	if err := json.Unmarshal([]byte(r.Stdout), &got); err != nil {
		fail("undecodable", fmt.Sprintf("stdout %q is not JSON (%v)", vlib.Clip(r.Stdout, 200), err))
		return
	}
	if gt := g3util.JSON(got); gt != docText {
		fail("altered", "came back as "+vlib.Clip(gt, 300))
		return
	}
	res.outcome = "ok"
	return
}

// ---- witness minimisation ----------------------------------------------------------------------------

// candidates: one-step simplifications of a document.
func candidates(v any) []any {
	var out []any
	switch t := v.(type) {
	case []any:
		for i := range t {
			out = append(out, append(append([]any{}, t[:i]...), t[i+1:]...)) // drop a child
		}
		// arrays of maps: drop one key from every row (keeps csv tables rectangular)
		if len(t) > 0 {
			if m0, ok := t[0].(map[string]any); ok && len(m0) > 1 {
				for _, k := range sortedKeys(m0) {
					rows := make([]any, len(t))
					good := true
					for i, r := range t {
						m, ok := r.(map[string]any)
						if !ok {
							good = false
							break
						}
						nm := map[string]any{}
						for kk, vv := range m {
							if kk != k {
								nm[kk] = vv
							}
						}
						rows[i] = nm
					}
					if good {
						out = append(out, rows)
					}
				}
			}
		}
		for i := range t {
			out = append(out, t[i]) // hoist a child
		}
		for i := range t {
			for _, c := range candidates(t[i]) {
				n := append([]any{}, t...)
				n[i] = c
				out = append(out, n)
			}
		}
	case map[string]any:
		keys := sortedKeys(t)
		for _, k := range keys {
			n := map[string]any{}
			for kk, vv := range t {
				if kk != k {
					n[kk] = vv
				}
			}
			out = append(out, n)
		}
		for _, k := range keys {
			out = append(out, t[k])
		}
		for _, k := range keys {
			for _, c := range candidates(t[k]) {
				n := map[string]any{}
				for kk, vv := range t {
					n[kk] = vv
				}
				n[k] = c
				out = append(out, n)
			}
		}
		for _, k := range keys { // simplify a key
			if k != "k" {
				if _, clash := t["k"]; !clash {
					n := map[string]any{}
					for kk, vv := range t {
						if kk == k {
							n["k"] = vv
						} else {
							n[kk] = vv
						}
					}
					out = append(out, n)
				}
			}
		}
	default:
		if s, ok := v.(string); !ok || s != "a" {
			out = append(out, "a")
		}
	}
	return out
}

func sortedKeys(m map[string]any) []string {
	var ks []string
	for k := range m {
		ks = append(ks, k)
	}
	sort.Strings(ks)
	return ks
}

func minimise(w wit, res result) (wit, result) {
	for steps := 0; steps < 200; steps++ {
		progressed := false
		for _, c := range candidates(w.Doc) {
			cw := wit{w.Format, c}
			if r := check(cw); r.clause == res.clause {
				w, res, progressed = cw, r, true
				break
			}
		}
		if !progressed {
			break
		}
	}
	return w, res
}

func replay(c *vlib.Ctx, witness string) {
	mx.Init(c.WorkDir)
	var w wit
	if err := json.Unmarshal([]byte(witness), &w); err != nil {
		fmt.Println("witness is not a C14 case:", err)
		return
	}
	res := check(w)
	c.Eval(res.nontrivial, w.Format+" replay "+res.outcome)
	if res.clause != "" {
		c.Violation(res.clause, g3util.JSON(w), res.detail)
	}
}
