// Package parse: C20 (parsing any text terminates without panicking) and C37 (highlighting
// preserves the typed text). Bounded-exhaustive enumeration of all strings over a token alphabet.
package parse

import (
	"fmt"
	"os"
	"regexp"
	"runtime"
	"strings"
	"sync/atomic"
	"time"

	"verif/vlib"

	"github.com/lmorg/murex/lang/expressions"
	"github.com/lmorg/murex/utils/parser"
)

var runes = []string{"{", "}", "[", "]", "(", ")", "$", "@", "%", "'", "\"", "\\", "|", "&", ";", "?", "=", "<", ">", "~", "#", "/", "-", ":", "!", "*", ".", ",", " ", "\n", "\t", "a"}
var core = []string{"{", "}", "(", ")", "[", "$", "@", "%", "'", "\"", "\\", "|", "&", ":", " ", "a"}
var tokens = []string{"${", "@{", "%[", "%{", "%(", "->", "=>", "|>", ">>", "&&", "||", "/#", "#/", "..", "<out>", "<!out>", "$a[", "[[", "]]", "\n", "$a", "@a", "a", " ", ":", "{", "}", "(", ")", "]", "'", "\"", "=", "$(", "~", ";", "?", "*"}

// tokens that follow a command name: index / lambda / sub-shell openers and closers
var argTokens = []string{"$a[", "{", "}", "a", "]", "[", "@a[", "$a", "(", ")", "%[", "'", "\"", "|", " ", "${", "=", ":"}

var ansi = regexp.MustCompile("\x1b\\[[0-9;]*m")

type space struct {
	name   string
	alpha  []string
	minLen int
	maxLen int
	prefix string
}

func spaces(quick bool) []space {
	if quick {
		return []space{{"runes", runes, 0, 4, ""}, {"core", core, 5, 5, ""}, {"tokens", tokens, 2, 3, ""}, {"arguments", argTokens, 1, 4, "a "}}
	}
	return []space{{"runes", runes, 0, 5, ""}, {"core", core, 6, 7, ""}, {"tokens", tokens, 2, 4, ""}, {"arguments", argTokens, 1, 6, "a "}}
}

var current atomic.Value // string: input being parsed (watchdog)
var progress atomic.Int64

func init() {
	vlib.Register(&vlib.Check{
		ID: "C20", Engine: "E2",
		Rule: "every string over the 32-rune murex alphabet up to length L, every string over the 16-rune core up to L2, every sequence of multi-rune tokens up to L3 and every sequence of up to L4 argument tokens (index, lambda, sub-shell, quote openers and closers) after a command name is passed, as a rune slice whose capacity equals its length, to expressions.ParseBlock, parser.Parse(r,0) and parser.Parse(r,len/2); enumeration never repeats an input; non-trivial = inputs for which ParseBlock produced a syntax tree with at least one function or a syntax error (i.e. everything except inputs that parse to an empty tree)",
		Run:  func(c *vlib.Ctx) { run(c, true) },
		Replay: func(c *vlib.Ctx, w string) {
			one(c, w, true)
			one(c, w, false)
		},
		Assumptions: []string{"alphabet and length bounds as stated in rule; non-termination is declared only when one input makes no progress for 30 s and the goroutine stack is inside the parser"},
	})
	vlib.Register(&vlib.Check{
		ID: "C37", Engine: "E2",
		Rule: "same string spaces as C20; for each input the highlighted output of parser.Parse with ANSI SGR sequences removed must equal the input; non-trivial = inputs whose highlighted form contains at least one colour code besides the initial bold and the final reset",
		Run:  func(c *vlib.Ctx) { run(c, false) },
		Replay: func(c *vlib.Ctx, w string) {
			one(c, w, false)
		},
		Assumptions: []string{"alphabet without ESC; SGR sequences are recognised by \\x1b\\[[0-9;]*m"},
	})
}

func run(c *vlib.Ctx, c20 bool) {
	stop := make(chan struct{})
	if c20 {
		go watchdog(c, stop)
	}
	for _, sp := range spaces(c.Quick()) {
		n := 0
		vlib.Strings(sp.alpha, sp.minLen, sp.maxLen, func(s string, _ []int) bool {
			if !c.Next() {
				return true
			}
			n++
			if n&0xfff == 0 && c.Expired() {
				return false
			}
			s = sp.prefix + s
			one(c, s, c20)
			if n%200003 == 1 {
				c.Sample(map[string]any{"space": sp.name, "input": s})
			}
			return true
		})
	}
	close(stop)
}

func watchdog(c *vlib.Ctx, stop chan struct{}) {
	last := int64(-1)
	stuck := 0
	for {
		select {
		case <-stop:
			return
		case <-time.After(10 * time.Second):
		}
		p := progress.Load()
		if p == last {
			stuck++
		} else {
			stuck = 0
		}
		last = p
		if stuck >= 3 {
			in, _ := current.Load().(string)
			buf := make([]byte, 1<<16)
			buf = buf[:runtime.Stack(buf, true)]
			st := string(buf)
			if strings.Contains(st, "lang/expressions.") || strings.Contains(st, "utils/parser.") {
				c.Violation("terminates", in, "no progress for 30 s while parsing this input; stack:\n"+vlib.Clip(st, 1500))
			} else {
				c.Note("worker stalled outside the parser on %q (inconclusive)", in)
			}
			c.P.Exhaustive = false
			// the parsing goroutine cannot be stopped: report what we have and leave
			cflush(c)
			os.Exit(0)
		}
	}
}

func cflush(c *vlib.Ctx) { c.HarnessFlush() }

func guard(c *vlib.Ctx, clause, in string, fn func()) {
	defer func() {
		if r := recover(); r != nil {
			buf := make([]byte, 4096)
			buf = buf[:runtime.Stack(buf, false)]
			c.Violation(clause, in, fmt.Sprintf("panic: %v\n%s", r, frames(string(buf))))
		}
	}()
	fn()
}

// frames keeps the murex frames of a stack, without addresses (stable across builds).
func frames(st string) string {
	var out []string
	for _, l := range strings.Split(st, "\n") {
		if strings.HasPrefix(l, "github.com/lmorg/murex/") {
			if i := strings.LastIndex(l, "("); i > 0 {
				l = l[:i]
			}
			out = append(out, strings.TrimPrefix(l, "github.com/lmorg/murex/"))
			if len(out) == 6 {
				break
			}
		}
	}
	return strings.Join(out, " <- ")
}

func one(c *vlib.Ctx, s string, c20 bool) {
	r := []rune(s)
	// exact capacity: a parser that reads one rune past the end of its input then fails on every
	// input, not only on those whose length happens to fill an allocation size class
	r = r[:len(r):len(r)]
	if c20 {
		current.Store(s)
		progress.Add(1)
		outcome := "tree"
		nontrivial := false
		guard(c, "ParseBlock-no-panic", s, func() {
			tree, err := expressions.ParseBlock(r)
			if err != nil {
				outcome = "syntax-error"
				nontrivial = true
			} else if tree != nil && len(*tree) > 0 {
				outcome = fmt.Sprintf("tree-%d", min(len(*tree), 4))
				nontrivial = true
			} else {
				outcome = "empty-tree"
			}
		})
		guard(c, "parser.Parse-no-panic", s, func() { parser.Parse(r, 0) })
		guard(c, "parser.Parse-no-panic", s, func() { parser.Parse(r, len(r)/2) })
		c.Eval(nontrivial, outcome)
		return
	}
	var hl string
	guard(c, "highlight-no-panic", s, func() { _, hl = parser.Parse(r, 0) })
	plain := ansi.ReplaceAllString(hl, "")
	changes := len(ansi.FindAllStringIndex(hl, -1))
	if plain != s {
		c.Violation("highlight-preserves-text", s, fmt.Sprintf("stripped highlight = %q, input = %q", plain, s))
	}
	c.Eval(changes > 2, fmt.Sprintf("colour-changes-%d", min(changes, 9)))
}
