// Package jobs: C27 (job ids stay stable while jobs run). Explicit-state breadth-first search over
// operation histories on the real lang.NewJobs() table with synthetic *lang.Process values.
package jobs

import (
	"fmt"
	"strconv"
	"strings"

	"verif/vlib"

	"github.com/lmorg/murex/lang"
)

func init() {
	vlib.Register(&vlib.Check{
		ID: "C27", Engine: "E3",
		Rule:        "breadth-first search over histories of {add, term:i (the running job that was given id i finishes), gc, get:i (i=0..N+1), latest, list} on a fresh lang.NewJobs() with at most N jobs ever added (N=10 quick, 12 thorough); canonical state = (jobs added so far, class of Get(i) for i=1..N+1: running / finished / out of range); every operation is executed in every reachable state by replaying the shortest history on a fresh table, compared with a model written from the statement, and successors with a new canonical state are enqueued until a fixpoint; non-trivial = transitions executed in a state where a finished job has a lower id than a running one, or an add that is given a previously used id",
		Shards:      func(string) int { return 1 },
		Run:         run,
		Replay:      func(c *vlib.Ctx, w string) { replayWitness(c, w) },
		Assumptions: []string{"at most N jobs ever added; a job finishes by SetTerminatedState(true) and never restarts; sequential use only (concurrency of the table is C32's business)", "which id a new job gets is asserted only as far as the statement goes (never an id that a running job, or a running job with a lower id, still blocks); the exact number is recorded in the outcome label"},
	})
}

// inst: one real table plus the model of the statement.
type inst struct {
	n    int
	real interface {
		Add(*lang.Process)
		GarbageCollect()
		Get(int) (*lang.Process, error)
		GetLatest() (*lang.Process, error)
		List() []*lang.JobT
	}
	procs   []*lang.Process       // in order of adding
	idOf    map[*lang.Process]int // id observed right after Add (model: stays for life)
	running map[*lang.Process]bool
	usedIds map[int]bool // ids ever handed out
}

func newInst(n int) *inst {
	return &inst{n: n, real: lang.NewJobs(), idOf: map[*lang.Process]int{}, running: map[*lang.Process]bool{}, usedIds: map[int]bool{}}
}

func (in *inst) holder(id int) *lang.Process {
	for _, p := range in.procs {
		if in.running[p] && in.idOf[p] == id {
			return p
		}
	}
	return nil
}

// hole: some finished job has a lower id than some running one.
func (in *inst) hole() bool {
	maxRun := 0
	for _, p := range in.procs {
		if in.running[p] && in.idOf[p] > maxRun {
			maxRun = in.idOf[p]
		}
	}
	for _, p := range in.procs {
		if !in.running[p] && in.idOf[p] < maxRun {
			return true
		}
	}
	return false
}

func errClass(err error) string {
	switch {
	case err == nil:
		return "R"
	case strings.Contains(err.Error(), "terminated"):
		return "t"
	default:
		return "o"
	}
}

func (in *inst) canon() string {
	var b strings.Builder
	fmt.Fprintf(&b, "%d:", len(in.procs))
	for i := 1; i <= in.n+1; i++ {
		_, err := in.real.Get(i)
		b.WriteString(errClass(err))
	}
	return b.String()
}

type viol func(clause, detail string)

// enabled: the operations tried in the current state.
func (in *inst) enabled() []string {
	var ops []string
	if len(in.procs) < in.n {
		ops = append(ops, "add")
	}
	for id := 1; id <= in.n; id++ {
		if in.holder(id) != nil {
			ops = append(ops, "term:"+strconv.Itoa(id))
		}
	}
	ops = append(ops, "gc")
	for i := 0; i <= in.n+1; i++ {
		ops = append(ops, "get:"+strconv.Itoa(i))
	}
	return append(ops, "latest", "list")
}

// step executes op on the real table, checks it against the model (when v != nil) and returns
// (mutating, outcome label, applicable).
func (in *inst) step(op string, v viol) (bool, string, bool) {
	if v == nil {
		v = func(string, string) {}
	}
	name, arg := op, 0
	if i := strings.IndexByte(op, ':'); i > 0 {
		name = op[:i]
		arg, _ = strconv.Atoi(op[i+1:])
	}
	switch name {
	case "add":
		p := &lang.Process{}
		in.real.Add(p)
		in.procs = append(in.procs, p)
		in.running[p] = true
		id := 0
		for _, j := range in.real.List() {
			if j.Process == p {
				id, _ = strconv.Atoi(strings.TrimPrefix(j.JobId, "%"))
			}
		}
		if id == 0 {
			v("add-listed", "the job just added is not in List()")
			in.idOf[p] = -len(in.procs)
			return true, "add lost", true
		}
		// reuse rule: every job with that id or a higher one has finished
		for _, q := range in.procs {
			if q != p && in.running[q] && in.idOf[q] >= id {
				v("id-reuse", fmt.Sprintf("new job got id %d while a job with id %d is still running", id, in.idOf[q]))
			}
		}
		reuse := in.usedIds[id]
		in.usedIds[id] = true
		in.idOf[p] = id
		in.checkAll(v)
		if reuse {
			return true, fmt.Sprintf("add id=%d reused", id), true
		}
		return true, fmt.Sprintf("add id=%d fresh", id), true
	case "term":
		p := in.holder(arg)
		if p == nil {
			return false, "", false
		}
		p.SetTerminatedState(true)
		in.running[p] = false
		in.checkAll(v)
		return true, "term", true
	case "gc":
		in.real.GarbageCollect()
		in.checkAll(v)
		return true, "gc", true
	case "get":
		return false, in.checkGet(arg, v), true
	case "latest":
		return false, in.checkLatest(v), true
	case "list":
		return false, in.checkList(v), true
	}
	return false, "", false
}

func (in *inst) checkAll(v viol) {
	for i := 0; i <= in.n+1; i++ {
		in.checkGet(i, v)
	}
	in.checkLatest(v)
	in.checkList(v)
}

func (in *inst) name(p *lang.Process) string {
	if p == nil {
		return "nil"
	}
	for i, q := range in.procs {
		if q == p {
			st := "finished"
			if in.running[q] {
				st = "running"
			}
			return fmt.Sprintf("job#%d(id-at-start %d, %s)", i+1, in.idOf[q], st)
		}
	}
	return "unknown-process"
}

func (in *inst) checkGet(id int, v viol) string {
	p, err := in.real.Get(id)
	want := in.holder(id)
	switch {
	case err == nil && p == nil:
		v("get", fmt.Sprintf("Get(%d) returned nil process and nil error", id))
	case err == nil && !in.running[p]:
		v("get-finished", fmt.Sprintf("Get(%d) returned %s", id, in.name(p)))
	case err == nil && p != want:
		v("id-stable", fmt.Sprintf("Get(%d) returned %s, expected %s", id, in.name(p), in.name(want)))
	case err != nil && want != nil:
		v("id-stable", fmt.Sprintf("Get(%d) failed (%v) but %s is running with that id", id, err, in.name(want)))
	}
	if err == nil {
		return "get ok"
	}
	return "get err-" + errClass(err)
}

func (in *inst) checkLatest(v viol) string {
	var want *lang.Process
	for _, q := range in.procs {
		if in.running[q] {
			want = q // most recently added running job
		}
	}
	p, err := in.real.GetLatest()
	switch {
	case err == nil && (p == nil || !in.running[p]):
		v("latest-finished", "GetLatest returned "+in.name(p))
	case err == nil && p != want:
		v("latest", fmt.Sprintf("GetLatest returned %s, expected %s", in.name(p), in.name(want)))
	case err != nil && want != nil:
		v("latest", fmt.Sprintf("GetLatest failed (%v) but %s is running", err, in.name(want)))
	}
	if err == nil {
		return "latest ok"
	}
	return "latest none"
}

func (in *inst) checkList(v viol) string {
	l := in.real.List()
	seen := map[*lang.Process]bool{}
	lastId := 0
	for _, j := range l {
		id, _ := strconv.Atoi(strings.TrimPrefix(j.JobId, "%"))
		switch {
		case j.Process == nil || !in.running[j.Process]:
			v("list-finished", fmt.Sprintf("List contains %s as %s", in.name(j.Process), j.JobId))
		case seen[j.Process]:
			v("list", fmt.Sprintf("List contains %s twice", in.name(j.Process)))
		case in.idOf[j.Process] != id && in.idOf[j.Process] != 0:
			v("id-stable", fmt.Sprintf("List shows %s as %s", in.name(j.Process), j.JobId))
		case id <= lastId:
			v("list", fmt.Sprintf("List ids not increasing / duplicated: %s after %%%d", j.JobId, lastId))
		}
		seen[j.Process] = true
		lastId = id
	}
	for _, q := range in.procs {
		if in.running[q] && !seen[q] {
			v("list", "List omits "+in.name(q))
		}
	}
	return fmt.Sprintf("list %d", min(len(l), 9))
}

func replayHist(n int, hist []string) *inst {
	in := newInst(n)
	for _, op := range hist {
		in.step(op, nil)
	}
	return in
}

func bound(c *vlib.Ctx) int {
	if c.Quick() {
		return 10
	}
	return 12
}

// RunBFS is the sequential explicit-state search (also used by the combined C27 check in echecks/jobsconc).
func RunBFS(c *vlib.Ctx) { run(c) }

// ReplayBFS replays a sequential witness.
func ReplayBFS(c *vlib.Ctx, w string) { replayWitness(c, w) }

// Rule is the sequential part of the rule text.
const RuleBFS = "breadth-first search over histories of {add, term:i, gc, get:i, latest, list} on a fresh lang.NewJobs() with at most N jobs ever added (N=10 quick, 12 thorough), canonical state = (jobs added, class of Get(i) for every i), every operation executed in every reachable state and compared with a model of the statement, to a fixpoint; PLUS every history of <= L mutating operations {add, term:i, gc} with <= 4 jobs ever added run without any state merging, all reads compared after each (quick L=7, thorough L=9)"

func run(c *vlib.Ctx) {
	n := bound(c)
	seen := map[string]bool{newInst(n).canon(): true}
	queue := [][]string{{}}
	c.P.States = 1
	depth := 0
	for qi := 0; qi < len(queue); qi++ {
		hist := queue[qi]
		if qi&0x3f == 0 && c.Expired() {
			return
		}
		depth = max(depth, len(hist))
		for _, op := range replayHist(n, hist).enabled() {
			in := replayHist(n, hist)
			before := in.canon()
			nt := in.hole()
			w := strings.TrimSpace(strings.Join(hist, " ") + " " + op)
			mut, outcome, _ := in.step(op, func(clause, detail string) { c.Violation(clause, w, detail) })
			c.P.Transitions++
			after := in.canon()
			if !mut && after != before {
				c.Violation("read-is-pure", w, fmt.Sprintf("observable state changed from %s to %s", before, after))
			}
			c.Eval(nt || strings.HasSuffix(outcome, "reused"), outcome)
			if mut && !seen[after] {
				seen[after] = true
				c.P.States++
				queue = append(queue, append(append([]string{}, hist...), op))
				if c.P.States%97 == 1 {
					c.Sample(map[string]any{"history": w, "state(adds:Get-classes)": after})
				}
			}
		}
	}
	c.Extra("bfs depth (longest shortest history)", int64(depth))
	c.Extra("bound: jobs ever added", int64(n))
}

// RunExhaustive: every history of at most maxLen mutating operations {add, term:i, gc} with at most n jobs
// ever added, WITHOUT merging states (the canonical state of the search above is what Get reports, which
// fixes the future only as long as the table keeps nothing else: a nil slot and a finished-but-uncollected
// one read the same). After every history all reads are compared with the model. Sharded by first-level
// subtree position.
func RunExhaustive(c *vlib.Ctx, n, maxLen int) {
	var rec func(hist []string)
	rec = func(hist []string) {
		var ops []string
		for _, op := range replayHist(n, hist).enabled() {
			if op == "add" || op == "gc" || strings.HasPrefix(op, "term:") {
				ops = append(ops, op)
			}
		}
		for _, op := range ops {
			h := append(append([]string{}, hist...), op)
			if len(h) == 3 && !c.Next() {
				continue // deal the depth-3 subtrees out to the workers (shallower histories are run by all)
			}
			if len(h)&7 == 0 && c.Expired() {
				return
			}
			in := replayHist(n, hist)
			w := strings.Join(h, " ")
			v := func(clause, detail string) { c.Violation(clause, w, detail) }
			nt := in.hole()
			_, outcome, _ := in.step(op, v)
			in.checkAll(v)
			c.P.Transitions++
			c.Eval(nt || strings.HasSuffix(outcome, "reused"), "unmerged "+outcome)
			if len(h) < maxLen {
				rec(h)
			}
		}
	}
	rec(nil)
	c.Extra("unmerged histories: max length", int64(maxLen))
}

func replayWitness(c *vlib.Ctx, w string) {
	ops := strings.Fields(w)
	n := 12
	in := newInst(n)
	for i, op := range ops {
		var v viol
		if i == len(ops)-1 {
			v = func(clause, detail string) { c.Violation(clause, w, detail) }
		}
		in.step(op, v)
	}
}
