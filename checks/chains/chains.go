// Package chains: C04 (&&, ||, ; in normal mode) and C05 (try / trypipe), bounded-exhaustive
// enumeration of command chains run in-process against a reference interpreter of the statement.
package chains

import (
	"fmt"
	"strings"

	"verif/mx"
	"verif/vlib"
)

// command kinds
type kind struct {
	src  func(i int) string // murex source at position i
	out  func(i int) string // what it prints on stdout
	exit int
}

var kinds = []kind{
	{func(i int) string { return fmt.Sprintf("out %d", i) }, func(i int) string { return fmt.Sprintf("%d\n", i) }, 0},
	{func(i int) string { return fmt.Sprintf("fail1 %d", i) }, func(i int) string { return fmt.Sprintf("x%d\n", i) }, 1},
	{func(i int) string { return fmt.Sprintf("fail3 %d", i) }, func(i int) string { return fmt.Sprintf("y%d\n", i) }, 3},
	{func(i int) string { return "true" }, func(i int) string { return "true" }, 0},
	{func(i int) string { return "false" }, func(i int) string { return "false" }, 1},
	{func(i int) string { return fmt.Sprintf("err %d", i) }, func(i int) string { return "" }, 1},
}

var joiners = []string{";", "\n", "&&", "||", "|"}

const setup = `function fail1 { out "x$1"; return 1 }
function fail3 { out "y$1"; return 3 }`

type chain struct {
	k []int // command kinds
	j []int // j[i] joins command i-1 and i (j[0] unused)
}

func (ch chain) src() string {
	var b strings.Builder
	for i, k := range ch.k {
		if i > 0 {
			switch joiners[ch.j[i]] {
			case "\n":
				b.WriteString("\n")
			case ";":
				b.WriteString("; ")
			default:
				b.WriteString(" " + joiners[ch.j[i]] + " ")
			}
		}
		b.WriteString(kinds[k].src(i))
	}
	return b.String()
}

// outOf: what command i prints when it runs. The bare words true/false are boolean expressions, and
// murex documents that a boolean expression followed by && / || prints nothing (expr builtin).
func (ch chain) outOf(i int) string {
	k := ch.k[i]
	if (k == 3 || k == 4) && (ch.join(i+1) == "&&" || ch.join(i+1) == "||") {
		return ""
	}
	return kinds[k].out(i)
}

type expect struct {
	stdout    string
	exit      int
	undefined bool // the statement does not define this case
	skipped   int  // commands skipped by && / || (non-triviality)
	piped     int
}

func (ch chain) join(i int) string {
	if i <= 0 || i >= len(ch.k) {
		return ""
	}
	return joiners[ch.j[i]]
}

// modelNormal: the statement of C04.
func modelNormal(ch chain) expect {
	var e expect
	n := len(ch.k)
	exits := make([]int, n)
	skippedCmd := make([]bool, n)
	skip := false
	for i := 0; i < n; i++ {
		j := ch.join(i)
		if j == "|" {
			e.piped++
			if skippedCmd[i-1] {
				// a consumer piped from a skipped command: not defined by the statement
				e.undefined = true
				return e
			}
		}
		if i > 0 && ((j == "&&" && exits[i-1] != 0) || (j == "||" && exits[i-1] == 0) || (skip && (j == "&&" || j == "||"))) {
			skip = true
			skippedCmd[i] = true
			exits[i] = exits[i-1]
			e.skipped++
			continue
		}
		skip = false
		exits[i] = kinds[ch.k[i]].exit
		if ch.join(i+1) != "|" {
			e.stdout += ch.outOf(i)
		}
	}
	e.exit = exits[n-1]
	return e
}

// modelTry: the statement of C05. pipe=true => trypipe.
func modelTry(ch chain, pipe bool) expect {
	var e expect
	n := len(ch.k)
	i := 0
	lastExit := 0
	for i < n {
		// pipeline = maximal run joined by |
		end := i
		for end+1 < n && ch.join(end+1) == "|" {
			end++
		}
		e.piped += end - i
		exit := 0
		if pipe {
			// every stage checked in order: the first failing stage ends the pipeline
			for s := i; s <= end; s++ {
				exit = kinds[ch.k[s]].exit
				if s == end {
					e.stdout += ch.outOf(s)
				}
				if exit != 0 {
					if s < end {
						// failed stage followed by `|` (not `||`): the block ends here
						e.exit = exit
						return e
					}
					break
				}
			}
		} else {
			exit = kinds[ch.k[end]].exit
			e.stdout += ch.outOf(end)
		}
		lastExit = exit
		next := end + 1
		if next >= n {
			break
		}
		if exit != 0 {
			if ch.join(next) != "||" {
				e.exit = exit
				return e
			}
			i = next
			continue
		}
		// success: every following || alternative is skipped and counts as succeeding
		for next < n && ch.join(next) == "||" {
			e.skipped++
			next++
			if next < n && ch.join(next) == "|" {
				e.undefined = true // consumer piped from a skipped alternative
				return e
			}
		}
		i = next
	}
	e.exit = lastExit
	return e
}

type variant struct {
	name  string
	wrap  func(body string) string
	model func(ch chain) expect
}

var variants = []variant{
	{"normal", func(b string) string { return b }, modelNormal},
	{"try", func(b string) string { return "try {\n" + b + "\n}" }, func(c chain) expect { return modelTry(c, false) }},
	{"trypipe", func(b string) string { return "trypipe {\n" + b + "\n}" }, func(c chain) expect { return modelTry(c, true) }},
	{"runmode-try", func(b string) string { return "function vt {\nrunmode try function\n" + b + "\n}\nvt" }, func(c chain) expect { return modelTry(c, false) }},
	{"runmode-trypipe", func(b string) string { return "function vt {\nrunmode trypipe function\n" + b + "\n}\nvt" }, func(c chain) expect { return modelTry(c, true) }},
	// the same blocks used as a method (something is piped into them; the block ignores it)
	{"method-try", func(b string) string { return "out piped -> try {\n" + b + "\n}" }, func(c chain) expect { return modelTry(c, false) }},
	{"method-runmode-try", func(b string) string { return "function vt {\nrunmode try function\n" + b + "\n}\nout piped -> vt" }, func(c chain) expect { return modelTry(c, false) }},
	{"method-trypipe", func(b string) string { return "out piped -> trypipe {\n" + b + "\n}" }, func(c chain) expect { return modelTry(c, true) }},
	// a block of one kind inside a function whose run mode is the other kind: the block's own mode decides
	{"nested-trypipe-in-try-function", func(b string) string { return "function vt {\nrunmode try function\ntrypipe {\n" + b + "\n}\n}\nvt" }, func(c chain) expect { return modelTry(c, true) }},
	{"nested-try-in-trypipe-function", func(b string) string { return "function vt {\nrunmode trypipe function\ntry {\n" + b + "\n}\n}\nvt" }, func(c chain) expect { return modelTry(c, false) }},
}

func init() {
	vlib.Register(&vlib.Check{
		ID: "C04", Engine: "E2",
		Rule:        "all chains of up to L commands over {out i, fail1 i (exit 1), fail3 i (exit 3), true, false, err i} joined by {; newline && || |} (plus longer chains over {out,fail1,fail3}x{; && ||}) are executed in-process in normal run mode; stdout and exit number are compared with a reference interpreter of the statement; non-trivial = chains in which the model skips at least one command or that contain a pipeline; chains where a command is piped from a skipped command are not asserted (statement silent) and counted separately",
		Run:         func(c *vlib.Ctx) { run(c, variants[:1]) },
		Replay:      func(c *vlib.Ctx, w string) { replay(c, w) },
		Assumptions: []string{"command alphabet and chain length bound as stated; stderr is not compared (two pipeline stages may write it concurrently)"},
	})
	vlib.Register(&vlib.Check{
		ID: "C05", Engine: "E2",
		Rule:        "the chains of C04 wrapped in try {..}, trypipe {..}, and functions using `runmode try function` / `runmode trypipe function` (and, for chains of up to 3 commands, the same blocks with something piped into them, and a block of one kind inside a function whose run mode is the other kind); stdout and exit compared with a reference model of the statement; non-trivial = the model skips a || alternative, aborts the block early, or the chain contains a pipeline",
		Run:         func(c *vlib.Ctx) { run(c, variants[1:]) },
		Replay:      func(c *vlib.Ctx, w string) { replay(c, w) },
		Assumptions: []string{"command alphabet and chain length bound as stated; stderr is not compared"},
	})
}

func enumerate(quick bool, fn func(ch chain) bool) {
	maxFull := 4
	if !quick {
		maxFull = 5
	}
	cont := true
	for n := 1; n <= maxFull && cont; n++ {
		radix := make([]int, 0, 2*n)
		for i := 0; i < n; i++ {
			radix = append(radix, len(kinds))
		}
		for i := 1; i < n; i++ {
			radix = append(radix, len(joiners))
		}
		vlib.Product(radix, func(idx []int) bool {
			ch := chain{k: append([]int{}, idx[:n]...), j: append([]int{0}, idx[n:]...)}
			cont = fn(ch)
			return cont
		})
	}
	// longer chains over the reduced alphabet {out, fail1, fail3} x {;, &&, ||}
	lo, hi := maxFull+1, 6
	if !quick {
		hi = 8
	}
	redJ := []int{0, 2, 3}
	for n := lo; n <= hi && cont; n++ {
		radix := make([]int, 0, 2*n)
		for i := 0; i < n; i++ {
			radix = append(radix, 3)
		}
		for i := 1; i < n; i++ {
			radix = append(radix, 3)
		}
		vlib.Product(radix, func(idx []int) bool {
			ch := chain{k: append([]int{}, idx[:n]...), j: []int{0}}
			for _, x := range idx[n:] {
				ch.j = append(ch.j, redJ[x])
			}
			cont = fn(ch)
			return cont
		})
	}
}

func run(c *vlib.Ctx, vs []variant) {
	mx.Init(c.WorkDir)
	if r := mx.Run(setup, nil); r.Exit != 0 || r.Hang {
		c.HarnessError("setup block failed: %v", r)
	}
	n := 0
	enumerate(c.Quick(), func(ch chain) bool {
		if !c.Next() {
			return true
		}
		n++
		if n&0xff == 0 && c.Expired() {
			return false
		}
		body := ch.src()
		for _, v := range vs {
			if (strings.HasPrefix(v.name, "method-") || strings.HasPrefix(v.name, "nested-")) && len(ch.k) > 3 {
				continue // the method variants: chains of up to 3 commands
			}
			check(c, v, body, ch, n)
		}
		return true
	})
}

func check(c *vlib.Ctx, v variant, body string, ch chain, n int) {
	exp := v.model(ch)
	prog := v.wrap(body)
	if exp.undefined {
		c.Extra("not-asserted (statement silent)", 1)
		return
	}
	r := mx.Run(prog, nil)
	if n%50021 == 1 {
		c.Sample(map[string]any{"mode": v.name, "program": prog, "stdout": r.Stdout, "exit": r.Exit})
	}
	outcome := fmt.Sprintf("%s exit=%d skipped=%d", v.name, r.Exit, min(exp.skipped, 3))
	c.Eval(exp.skipped > 0 || exp.piped > 0 || exp.stdout != fullOut(ch), outcome)
	w := v.name + ": " + body
	if r.Hang {
		c.Violation("terminates", w, "caller still blocked after ceiling\n"+r.HangStack)
		return
	}
	if r.Stdout != exp.stdout {
		c.Violation("stdout", w, fmt.Sprintf("stdout=%q expected %q (exit=%d expected %d)", r.Stdout, exp.stdout, r.Exit, exp.exit))
	} else if r.Exit != exp.exit {
		c.Violation("exit", w, fmt.Sprintf("exit=%d expected %d (stdout=%q)", r.Exit, exp.exit, r.Stdout))
	}
}

// fullOut: what the chain would print if every command ran (to recognise early aborts as non-trivial)
func fullOut(ch chain) string {
	s := ""
	for i := range ch.k {
		if ch.join(i+1) != "|" {
			s += ch.outOf(i)
		}
	}
	return s
}

// replay: witness is "<mode>: <body>"; the body is re-parsed into a chain by matching the generator's output.
func replay(c *vlib.Ctx, w string) {
	mx.Init(c.WorkDir)
	mx.Run(setup, nil)
	found := false
	enumerate(false, func(ch chain) bool {
		body := ch.src()
		for _, v := range variants {
			if v.name+": "+body == w {
				check(c, v, body, ch, 0)
				found = true
				return false
			}
		}
		return true
	})
	if !found {
		fmt.Println("witness not in the enumeration space")
	}
}
