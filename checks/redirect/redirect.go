// Package redirect: C33 — `<err>`, `<!out>`, `<null>`, `<!null>` route a command's output exactly as
// written, `|> file` / `>> file` truncate / append exactly the bytes piped in. Bounded-exhaustive
// enumeration of producer x payloads x redirection tokens x position, run in-process, compared with a
// reference routing model written from the statement.
package redirect

import (
	"fmt"
	"os"
	"path/filepath"
	"strconv"
	"strings"
	"sync"

	"verif/mx"
	"verif/vlib"

	"github.com/lmorg/murex/lang"
	"github.com/lmorg/murex/lang/types"
)

// raw payloads written by the harness builtin vw33 (exact bytes, nothing appended)
var rawPayloads = []string{"", "x", "\x00\xff", "l1\nl2\nl3\n", strings.Repeat("0123456789abcdef", 8192)}

const bigIdx = 4 // thorough only

// text payloads written by the murex builtins out / err (which append a newline)
var textPayloads = []string{"t", "m1\\nm2\\nm3"}
var textBytes = []string{"t\n", "m1\nm2\nm3\n"}

var (
	capMu    sync.Mutex
	captured []byte
	capCalls int
)

func init() {
	// vw33 <o> <e>: writes rawPayloads[o] to stdout and then rawPayloads[e] to stderr
	lang.DefineFunction("vw33", func(p *lang.Process) error {
		o, err := p.Parameters.Int(0)
		if err != nil {
			return err
		}
		e, err := p.Parameters.Int(1)
		if err != nil {
			return err
		}
		p.Stdout.SetDataType(types.Generic)
		if len(rawPayloads[o]) > 0 {
			if _, err := p.Stdout.Write([]byte(rawPayloads[o])); err != nil {
				return err
			}
		}
		if len(rawPayloads[e]) > 0 {
			if _, err := p.Stderr.Write([]byte(rawPayloads[e])); err != nil {
				return err
			}
		}
		return nil
	}, types.Generic)
	// vcap33: records every byte of its stdin (what the next pipeline stage receives)
	lang.DefineMethod("vcap33", func(p *lang.Process) error {
		p.Stdout.SetDataType(types.Null)
		b, err := p.Stdin.ReadAll()
		capMu.Lock()
		captured = append(captured, b...)
		capCalls++
		capMu.Unlock()
		return err
	}, types.Any, types.Null)

	vlib.Register(&vlib.Check{
		ID: "C33", Engine: "E2",
		Rule: "producer {harness Go builtin vw33 writing exact bytes O to stdout then E to stderr, O,E in {empty, x, 00 ff, 3 lines, (thorough) 128 KiB}; murex function `{ out O; err E }`; builtin `out O`; builtin `err E` (text payloads {one word, 3 lines})} x stdout token {none <out> <err> <null>} x stderr token {none <!err> <!out> <!null>} (both orders, tokens directly after the command name) x position {L last command of the block; S followed by `; out tail`; SC followed by `; vcap33` (a command that records its stdin: must receive nothing); T last command inside try{}; M piped `-> vcap33` (records what the next stage receives); MS piped and followed by another statement; F piped `|> file` (file absent/empty/old); A piped `>> file`} plus (file part) every sequence of up to 2 (thorough 3) writes {|>, >>} x payload onto a file that is absent / empty / holds `old\\n`, and every nested append `function f { P >> file; Q }; f >> file` (the producer of an append appends to the same file first); the block's stdout, stderr, the next stage's stdin and the file bytes are compared with the routing the statement gives (bytes of O and E that meet in one destination may arrive in either order); non-trivial = at least one token other than the defaults <out>/<!err> is present, or a file is written",
		Run:    run,
		Replay: replay,
		Assumptions: []string{
			"payload alphabets and positions as stated; the relative order of stdout bytes and stderr bytes that end up in the same destination is not asserted",
			"the exit number is not asserted (C04/C05/C21 cover it); stderr must hold exactly the routed bytes (murex prints no error text for these programs)",
		},
	})
}

type producer struct {
	name string
	// src returns the source of the command with the redirection tokens r placed after the command name
	src func(r string, o, e int) string
	// bytes written to stdout / stderr
	out func(o int) string
	err func(e int) string
	nO  func(quick bool) int
	nE  func(quick bool) int
}

func nRaw(quick bool) int {
	if quick {
		return bigIdx
	}
	return len(rawPayloads)
}
func nText(bool) int { return len(textPayloads) }
func one1(bool) int  { return 1 }

var producers = []producer{
	{"vw33", func(r string, o, e int) string { return fmt.Sprintf("vw33 %s%d %d", r, o, e) },
		func(o int) string { return rawPayloads[o] }, func(e int) string { return rawPayloads[e] }, nRaw, nRaw},
	{"function", func(r string, o, e int) string { return fmt.Sprintf("vf33_%d_%d %s", o, e, strings.TrimSuffix(r, " ")) },
		func(o int) string { return textBytes[o] }, func(e int) string { return textBytes[e] }, nText, nText},
	{"out", func(r string, o, e int) string { return fmt.Sprintf("out %s\"%s\"", r, textPayloads[o]) },
		func(o int) string { return textBytes[o] }, func(e int) string { return "" }, nText, one1},
	{"err", func(r string, o, e int) string { return fmt.Sprintf("err %s\"%s\"", r, textPayloads[e]) },
		func(o int) string { return "" }, func(e int) string { return textBytes[e] }, one1, nText},
}

func setupBlock() string {
	var b strings.Builder
	for o := range textPayloads {
		for e := range textPayloads {
			fmt.Fprintf(&b, "function vf33_%d_%d { out \"%s\"; err \"%s\" }\n", o, e, textPayloads[o], textPayloads[e])
		}
	}
	return b.String()
}

var outTokens = []string{"", "<out>", "<err>", "<null>"}
var errTokens = []string{"", "<!err>", "<!out>", "<!null>"}

// redirs: every token string (with trailing blank when not empty)
type redir struct {
	src    string
	so, se int // indexes into outTokens / errTokens
}

func redirs() []redir {
	var rs []redir
	for so := range outTokens {
		for se := range errTokens {
			switch {
			case so == 0 && se == 0:
				rs = append(rs, redir{"", so, se})
			case so == 0:
				rs = append(rs, redir{errTokens[se] + " ", so, se})
			case se == 0:
				rs = append(rs, redir{outTokens[so] + " ", so, se})
			default:
				rs = append(rs, redir{outTokens[so] + " " + errTokens[se] + " ", so, se})
				rs = append(rs, redir{errTokens[se] + " " + outTokens[so] + " ", so, se})
			}
		}
	}
	return rs
}

func (r redir) trivial() bool { return r.so <= 1 && r.se <= 1 }

var positions = []string{"L", "S", "SC", "T", "M", "MS", "F0", "F1", "F2", "A0", "A1", "A2"}

var prevContents = []*string{nil, ptr(""), ptr("old\n")}

func ptr(s string) *string { return &s }

type kase struct {
	prod, o, e int
	r          redir
	pos        string
}

func (k kase) witness() string {
	return k.pos + ": " + producers[k.prod].src(k.r.src, k.o, k.e)
}

// program builds the block; file is the scratch file for F/A positions.
func (k kase) program(file string) string {
	cmd := producers[k.prod].src(k.r.src, k.o, k.e)
	switch k.pos[0] {
	case 'L':
		return cmd
	case 'S':
		if k.pos == "SC" {
			return cmd + "; vcap33"
		}
		return cmd + "; out tail"
	case 'T':
		return "try { " + cmd + " }"
	case 'M':
		if k.pos == "MS" {
			return cmd + " -> vcap33; out tail"
		}
		return cmd + " -> vcap33"
	case 'F':
		return cmd + " |> " + file
	case 'A':
		return cmd + " >> " + file
	}
	panic("bad position")
}

type expect struct {
	stdout, stderr [2]string // either order of O/E accepted: two alternatives
	next           [2]string // what vcap33 must have received
	file           [2]string
	fileExists     bool
}

func alt(a, b string) [2]string { return [2]string{a + b, b + a} }

func model(k kase) expect {
	p := producers[k.prod]
	O, E := p.out(k.o), p.err(k.e)
	var toOut, toErr [2]string // [0]=from stdout, [1]=from stderr
	switch k.r.so {
	case 0, 1:
		toOut[0] = O
	case 2:
		toErr[0] = O
	}
	switch k.r.se {
	case 0, 1:
		toErr[1] = E
	case 2:
		toOut[1] = E
	}
	outDest := alt(toOut[0], toOut[1])
	var x expect
	x.stderr = alt(toErr[0], toErr[1])
	switch k.pos[0] {
	case 'L', 'T':
		x.stdout = outDest
	case 'S':
		if k.pos == "SC" {
			x.stdout = outDest
		} else {
			x.stdout = [2]string{outDest[0] + "tail\n", outDest[1] + "tail\n"}
		}
	case 'M':
		x.next = outDest
		if k.pos == "MS" {
			x.stdout = [2]string{"tail\n", "tail\n"}
		}
	case 'F', 'A':
		prev := prevContents[k.pos[1]-'0']
		base := ""
		if prev != nil && k.pos[0] == 'A' {
			base = *prev
		}
		x.file = [2]string{base + outDest[0], base + outDest[1]}
		x.fileExists = true
	}
	return x
}

func in(got string, want [2]string) bool { return got == want[0] || got == want[1] }

func show(s string) string {
	if len(s) > 80 {
		return fmt.Sprintf("%q…(%d bytes)", s[:40], len(s))
	}
	return strconv.Quote(s)
}

func evalCase(c *vlib.Ctx, k kase, n int) {
	file := filepath.Join(c.WorkDir, "f33")
	os.Remove(file)
	if k.pos[0] == 'F' || k.pos[0] == 'A' {
		if prev := prevContents[k.pos[1]-'0']; prev != nil {
			if err := os.WriteFile(file, []byte(*prev), 0644); err != nil {
				c.HarnessError("cannot write scratch file: %v", err)
			}
		}
	}
	capMu.Lock()
	captured, capCalls = nil, 0
	capMu.Unlock()
	prog := k.program("f33")
	r := mx.Run(prog, nil)
	capMu.Lock()
	next := string(captured)
	capMu.Unlock()
	x := model(k)
	w := k.witness()
	outcome := fmt.Sprintf("%s/out:%s/err:%s", k.pos, tokName(outTokens[k.r.so]), tokName(errTokens[k.r.se]))
	nontrivial := !k.r.trivial() || k.pos[0] == 'F' || k.pos[0] == 'A'
	defer func() { c.Eval(nontrivial, outcome) }()
	if n%211 == 1 {
		c.Sample(map[string]any{"position": k.pos, "program": prog, "stdout": vlib.Clip(r.Stdout, 60), "stderr": vlib.Clip(r.Stderr, 60), "next_stage": vlib.Clip(next, 60)})
	}
	if r.Hang {
		outcome += "/HANG"
		c.Violation("terminates", w, "caller still blocked after the ceiling\n"+r.HangStack)
		return
	}
	if mx.HasPanicText(r.Stderr) {
		outcome += "/PANIC"
		c.Violation("no-panic", w, r.Stderr)
		return
	}
	bad := false
	if !in(r.Stdout, x.stdout) {
		bad = true
		c.Violation("stdout-bytes", w, fmt.Sprintf("block stdout = %s, the statement routes %s there (stderr = %s, next stage got %s)", show(r.Stdout), show(x.stdout[0]), show(r.Stderr), show(next)))
	}
	if !in(r.Stderr, x.stderr) {
		bad = true
		c.Violation("stderr-bytes", w, fmt.Sprintf("block stderr = %s, the statement routes %s there (stdout = %s, next stage got %s)", show(r.Stderr), show(x.stderr[0]), show(r.Stdout), show(next)))
	}
	if !in(next, x.next) {
		bad = true
		clause := "next-stage-bytes"
		if k.pos == "SC" {
			clause = "leak-into-next-command"
		}
		c.Violation(clause, w, fmt.Sprintf("the following command read %s on its stdin, the statement routes %s there (stdout = %s, stderr = %s)", show(next), show(x.next[0]), show(r.Stdout), show(r.Stderr)))
	}
	if x.fileExists {
		b, err := os.ReadFile(file)
		if err != nil {
			bad = true
			c.Violation("file-bytes", w, "file was not created: "+err.Error())
		} else if !in(string(b), x.file) {
			bad = true
			c.Violation("file-bytes", w, fmt.Sprintf("file holds %s, expected %s", show(string(b)), show(x.file[0])))
		}
	}
	if bad {
		outcome += "/VIOLATION"
	}
}

func tokName(t string) string {
	if t == "" {
		return "none"
	}
	return strings.Trim(t, "<>")
}

func enumerate(quick bool, fn func(k kase) bool) {
	rs := redirs()
	for pi, p := range producers {
		for o := 0; o < p.nO(quick); o++ {
			for e := 0; e < p.nE(quick); e++ {
				for _, r := range rs {
					for _, pos := range positions {
						if !fn(kase{pi, o, e, r, pos}) {
							return
						}
					}
				}
			}
		}
	}
}

// ---- file sequences ----

type fileSeq struct {
	prev int   // index into prevContents
	ops  []int // op = payload*2 + (0 truncate | 1 append)
	// nested: two appends, the first issued by the producer of the second (`function f { P >> file; Q };
	// f >> file`): the outer >> is already open when the inner one grows the file, and must still write at
	// the end the file has when Q arrives
	nested bool
}

func (s fileSeq) witness() string {
	if s.nested {
		return "FILE-NESTED prev=" + []string{"absent", "empty", "old"}[s.prev] + ": " + s.program()
	}
	return "FILE prev=" + []string{"absent", "empty", "old"}[s.prev] + ": " + s.program()
}

func (s fileSeq) program() string {
	if s.nested {
		return fmt.Sprintf("function vn33 { vw33 %d 0 >> f33; vw33 %d 0 }; vn33 >> f33", s.ops[0]/2, s.ops[1]/2)
	}
	var parts []string
	for _, op := range s.ops {
		tok := "|>"
		if op%2 == 1 {
			tok = ">>"
		}
		parts = append(parts, fmt.Sprintf("vw33 %d 0 %s f33", op/2, tok))
	}
	return strings.Join(parts, "; ")
}

func (s fileSeq) model() string {
	cur := ""
	if p := prevContents[s.prev]; p != nil {
		cur = *p
	}
	for _, op := range s.ops {
		if op%2 == 0 {
			cur = rawPayloads[op/2]
		} else {
			cur += rawPayloads[op/2]
		}
	}
	return cur
}

func enumerateFiles(quick bool, fn func(s fileSeq) bool) {
	maxLen, np := 2, bigIdx
	if !quick {
		maxLen, np = 3, len(rawPayloads)
	}
	for prev := range prevContents {
		cont := true
		vlib.Seqs(np*2, 1, maxLen, func(idx []int) bool {
			cont = fn(fileSeq{prev: prev, ops: append([]int{}, idx...)})
			return cont
		})
		if !cont {
			return
		}
	}
	for prev := range prevContents {
		for p := 1; p < np; p++ {
			for q := 1; q < np; q++ {
				if !fn(fileSeq{prev, []int{p*2 + 1, q*2 + 1}, true}) {
					return
				}
			}
		}
	}
}

func evalFile(c *vlib.Ctx, s fileSeq, n int) {
	file := filepath.Join(c.WorkDir, "f33")
	os.Remove(file)
	if prev := prevContents[s.prev]; prev != nil {
		os.WriteFile(file, []byte(*prev), 0644)
	}
	r := mx.Run(s.program(), nil)
	outcome := fmt.Sprintf("file/prev%d/len%d/last-%d", s.prev, len(s.ops), s.ops[len(s.ops)-1]%2)
	w := s.witness()
	switch {
	case r.Hang:
		c.Violation("terminates", w, "caller still blocked after the ceiling\n"+r.HangStack)
		outcome += "/HANG"
	default:
		b, err := os.ReadFile(file)
		want := s.model()
		if err != nil {
			c.Violation("file-bytes", w, "file was not created: "+err.Error()+" stderr="+show(r.Stderr))
			outcome += "/VIOLATION"
		} else if string(b) != want {
			c.Violation("file-bytes", w, fmt.Sprintf("file holds %s, expected %s (stderr=%s)", show(string(b)), show(want), show(r.Stderr)))
			outcome += "/VIOLATION"
		} else if r.Stdout != "" || r.Stderr != "" {
			c.Violation("stdout-bytes", w, fmt.Sprintf("a file write printed stdout=%s stderr=%s", show(r.Stdout), show(r.Stderr)))
			outcome += "/VIOLATION"
		}
	}
	c.Eval(true, outcome)
	if n%97 == 1 {
		c.Sample(map[string]any{"program": s.program(), "previous": s.prev, "file_len": len(s.model())})
	}
}

func prepare(c *vlib.Ctx) {
	mx.Init(c.WorkDir)
	if r := mx.Run(setupBlock(), nil); r.Exit != 0 || r.Hang {
		c.HarnessError("setup block failed: %v", r)
	}
}

func run(c *vlib.Ctx) {
	prepare(c)
	n := 0
	enumerate(c.Quick(), func(k kase) bool {
		if !c.Next() {
			return true
		}
		n++
		if n&0x3f == 0 && c.Expired() {
			return false
		}
		evalCase(c, k, n)
		return true
	})
	enumerateFiles(c.Quick(), func(s fileSeq) bool {
		if !c.Next() {
			return true
		}
		n++
		if n&0x3f == 0 && c.Expired() {
			return false
		}
		evalFile(c, s, n)
		return true
	})
}

func replay(c *vlib.Ctx, w string) {
	prepare(c)
	found := false
	enumerate(false, func(k kase) bool {
		if k.witness() == w {
			evalCase(c, k, 0)
			found = true
			return false
		}
		return true
	})
	if !found {
		enumerateFiles(false, func(s fileSeq) bool {
			if s.witness() == w {
				evalFile(c, s, 0)
				found = true
				return false
			}
			return true
		})
	}
	if !found {
		fmt.Println("witness not in the enumeration space")
	}
}
