#!/bin/bash
# Builds the framework offline from files on disk (run once after a fresh restore). Also warms the Go
# build cache for the three harness flavours so that every check's own rebuild is incremental.
set -e
cd /verif
export GOFLAGS=-mod=mod GOPROXY=off GOSUMDB=off GOTOOLCHAIN=local CGO_ENABLED=0
mkdir -p bin .work/run evidence/replays
go1.26 build -o bin/mkoverlay ./cmd/mkoverlay
go1.26 build -tags verif -o bin/vh ./cmd/vh
go1.26 build -o bin/murex github.com/lmorg/murex
bin/mkoverlay /repo .work/overlay shim hooks > .work/mkoverlay-setup.log
go1.26 build -tags verif -overlay .work/overlay/overlay.json -o bin/vhs ./cmd/vhs
CGO_ENABLED=1 go1.26 build -tags "verif vrace" -race -gcflags=verif/shim/...=-race=false -overlay .work/overlay/overlay.json -o bin/vhs-race ./cmd/vhs
echo setup ok
