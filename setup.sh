#!/bin/bash
# Builds the framework offline from files on disk (run once after a fresh restore).
set -e
cd /verif
export GOFLAGS=-mod=mod GOPROXY=off GOSUMDB=off GOTOOLCHAIN=local CGO_ENABLED=0
mkdir -p bin .work evidence/replays
go1.26 build -tags verif -o bin/vh ./cmd/vh
go1.26 build -o bin/mkoverlay ./cmd/mkoverlay
echo setup ok
