//go:build verif

package streams

import "hash/fnv"

// VerifDump hashes everything of a Stdin that its operations read (buffer contents, dependents, data
// type, back-pressure limit, byte counters, cancellation). No lock is taken: the harness calls it only
// while every controlled thread is parked. Slice capacity is omitted: no operation's behaviour reads it.
func VerifDump(s *Stdin) uint64 {
	h := fnv.New64a()
	h.Write(s.buffer)
	var b [40]byte
	put := func(off int, v uint64) {
		for i := 0; i < 8; i++ {
			b[off+i] = byte(v >> (8 * i))
		}
	}
	put(0, uint64(int64(s.dependents)))
	put(8, uint64(s.max))
	put(16, s.bRead)
	put(24, s.bWritten)
	select {
	case <-s.ctx.Done():
		put(32, 1)
	default:
	}
	h.Write(b[:])
	h.Write([]byte(s.dataType))
	h.Write([]byte{0, byte(len(s.buffer)), byte(len(s.buffer) >> 8)})
	return h.Sum64()
}
