//go:build verif

package lang

// Read-only state dumpers for the verification harness (added to the package through the build overlay
// only; /repo itself does not contain this file). They take no locks: the harness calls them only while
// every controlled thread is parked at a scheduling point.

// VerifFIDs returns a copy of the FID table.
func VerifFIDs() map[uint32]*Process {
	out := make(map[uint32]*Process, len(GlobalFIDs.list))
	for k, v := range GlobalFIDs.list {
		out[k] = v
	}
	return out
}
