//go:build verif

package pipes

import (
	"hash/fnv"
	"sort"
)

// VerifDump hashes the registry contents (names and types) without locking.
func VerifDump(n *Named) uint64 {
	var names []string
	for k, v := range n.pipes {
		names = append(names, k+"="+v.Type)
	}
	sort.Strings(names)
	h := fnv.New64a()
	for _, s := range names {
		h.Write([]byte(s))
		h.Write([]byte{0})
	}
	return h.Sum64()
}
